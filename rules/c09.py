"""C09 - reachability equals graph reachability: schema match of reachable.cc.

The bit-matrix incremental transitive-closure algorithm is argued correct on
paper (EXPLANATION); the rules discharge, against clang's AST, each premise of
that argument (R9.1), that the typegraph stores an edge only together with a
closure update (R9.2) and that writer and readers agree on argument roles
(R9.3).
"""
from sa.core import rule, AnalysisError
from sa import cxx
from sa.cxx import term, uncast, inner, strip

TECHNIQUE = ("static analysis: schema matching of clang AST terms against the "
             "bit-matrix incremental-closure algorithm; role/dimension check "
             "of writer vs reader argument order")
EXPLANATION = (
    "Paper argument: invariant I = row i is the reflexive-transitive closure "
    "of i over the edges inserted so far. add_node preserves I (new row = "
    "{n}; old rows get zero-filled new buckets). For add_connection(s,d): a "
    "new path i~>j uses s->d at least once, so s in R(i) and j in R'(d); if "
    "the path used the edge again then s in R(d) and by I R(s) subset R(d), "
    "so R'(d)=R(d): one `R(i) |= R(d)` for every i with s in R(i) restores I, "
    "and the in-place update is safe because row d changes only when i=d, a "
    "no-op. Hence is_reachable(a,b) = bit b of row a = path existence. R9.1 "
    "matches reachable.cc statement by statement against exactly this "
    "algorithm (S1 64-bit cells; S2 add_node: id = old count, bucket count = "
    "ceil(n/64), every row resized with zero fill, diagonal bit set; S3 "
    "add_connection: all rows, guard = bit src of row i, all buckets, row_i "
    "|= row_dst, no other write; S4 is_reachable = bit dst of row src; S5 "
    "bit(k) = 64-bit 1 << (k mod 64)), accepting only listed equivalent "
    "idioms; an unknown idiom is an ANALYSIS-ERROR, not a pass. R9.2: every "
    "function that stores an edge calls add_connection on the same path, and "
    "NewCFGNode calls add_node and checks the returned id against the node "
    "id. R9.3: the argument-role permutation at each reader is the inverse "
    "of the writer's. Not decided: std::vector semantics, int overflow of "
    "node ids beyond 2^31.")
ASSUMPTIONS = [
    "std::vector::resize(n, v) value-fills new elements and keeps old ones; "
    "operator[] / data() address the same storage",
    "node ids fit in int (fewer than 2^31 CFG nodes)",
    "clang's AST is the trusted parser/resolver",
]

RC = "pytype/typegraph/reachable.cc"
W64 = {"long", "long long", "std::int64_t", "int64_t", "unsigned long",
       "unsigned long long", "std::uint64_t", "uint64_t", "__int64_t",
       "__uint64_t"}


def _is_int(t, v):
  t = uncast(t)
  return isinstance(t, tuple) and t[0] == "int" and t[1] == v


def _bucket(t, x):
  t = uncast(t)
  return isinstance(t, tuple) and len(t) == 3 and (
      (t[0] == "/" and uncast(t[1]) == x and _is_int(t[2], 64)) or
      (t[0] == ">>" and uncast(t[1]) == x and _is_int(t[2], 6)))


def _lane(t, x):
  t = uncast(t)
  return isinstance(t, tuple) and len(t) == 3 and (
      (t[0] == "&" and uncast(t[1]) == x and _is_int(t[2], 63)) or
      (t[0] == "&" and uncast(t[2]) == x and _is_int(t[1], 63)) or
      (t[0] == "%" and uncast(t[1]) == x and _is_int(t[2], 64)))


def _one64(t):
  if isinstance(t, tuple) and t[0] == "int" and t[1] == 1:
    return t[2] in W64
  if isinstance(t, tuple) and t[0] == "cast":
    ty = t[1].replace("const ", "").strip()
    return ty in W64 and _is_int(t[2], 1)
  return False


class Schema:
  def __init__(self, ctx):
    self.ctx = ctx
    self.ix = cxx.get_index(ctx)
    ix = self.ix
    self.add_node = ix.fn("ReachabilityAnalyzer::add_node()")
    self.add_conn = ix.fn("ReachabilityAnalyzer::add_connection(const int, const int)") \
        if "ReachabilityAnalyzer::add_connection(const int, const int)" in ix.by_key \
        else ix.find("ReachabilityAnalyzer::add_connection")[0]
    self.is_reach = ix.find("ReachabilityAnalyzer::is_reachable")[0]
    self.F = lambda n: ("field", f"ReachabilityAnalyzer::{n}", ("this",))
    self.bit_fns = {}

  # bit(k): literal shift, or a call to a helper whose body is exactly that
  def is_bit(self, t, x):
    t0 = t
    t = uncast(t)
    if isinstance(t, tuple) and t[0] == "<<" and _one64(t[1]) and _lane(t[2], x):
      return True
    if isinstance(t, tuple) and t[0] == "call" and len(t) == 3 and uncast(t[2]) == x:
      return self._bit_helper(t[1])
    return False

  def _bit_helper(self, key):
    if key in self.bit_fns:
      return self.bit_fns[key]
    fn = self.ix.by_key.get(key)
    ok = False
    if fn is not None and fn.body is not None and len(fn.params) == 1:
      stmts = [s for s in inner(fn.body) if s.get("kind") != "NullStmt"]
      if len(stmts) == 1 and stmts[0].get("kind") == "ReturnStmt":
        p = fn.params[0]
        pv = ("var", p.get("name"), p["id"])
        body = term(self.ix, inner(stmts[0])[0])
        ok = self.is_bit(body, pv) and any(
            w in fn.sig.split("(")[0] for w in W64)
    self.bit_fns[key] = ok
    return ok

  def cell(self, row, col):
    return ("index", ("index", self.F("adj_"), row), col)

  def is_cell(self, t, row_pred, col_pred):
    t = uncast(t)
    return (isinstance(t, tuple) and t[0] == "index" and col_pred(t[2])
            and isinstance(t[1], tuple) and t[1][0] == "index"
            and t[1][1] == self.F("adj_") and row_pred(uncast(t[1][2])))


def _loop(ix, s, env):
  """(var, bound_term, body_stmts) of `for (T i = 0; i < B; i++)`."""
  if s.get("kind") != "ForStmt":
    return None
  init, _, cond, inc, body = (inner(s) + [None] * 5)[:5]
  if not init or init.get("kind") != "DeclStmt" or len(inner(init)) != 1:
    raise AnalysisError("for-loop init outside the accepted idiom")
  v = inner(init)[0]
  if not inner(v) or not _is_int(term(ix, inner(v)[-1], env), 0):
    raise AnalysisError("for-loop does not start at 0")
  var = ("var", v.get("name"), v["id"])
  c = term(ix, cond, env)
  if not (isinstance(c, tuple) and c[0] == "<" and uncast(c[1]) == var):
    raise AnalysisError(f"for-loop condition outside the accepted idiom: {c}")
  i = term(ix, inc, env)
  if not (isinstance(i, tuple) and (
      (i[0] in ("post++", "pre++") and uncast(i[1]) == var) or
      (i[0] == "+=" and uncast(i[1]) == var and _is_int(i[2], 1)))):
    raise AnalysisError(f"for-loop increment outside the accepted idiom: {i}")
  stmts = inner(body) if body.get("kind") == "CompoundStmt" else [body]
  return var, uncast(c[2]), stmts


def _locals(ix, fn, stmts, env):
  """Substitution environment for single-assignment locals declared in stmts."""
  for s in stmts:
    if s.get("kind") == "DeclStmt":
      for v in inner(s):
        if v.get("kind") == "VarDecl" and inner(v):
          env[v["id"]] = term(ix, inner(v)[-1], env)
  return env


def _assigned_locals(ix, fn):
  out = set()
  for n in cxx.walk(fn.body):
    if n.get("kind") in ("BinaryOperator", "CompoundAssignOperator") and \
        n.get("opcode", "").endswith("=") and n.get("opcode") not in ("==", "!=", "<=", ">="):
      l = strip(inner(n)[0])
      if l.get("kind") == "DeclRefExpr":
        out.add((l.get("referencedDecl") or {}).get("id"))
    if n.get("kind") == "UnaryOperator" and n.get("opcode") in ("++", "--"):
      l = strip(inner(n)[0])
      if l.get("kind") == "DeclRefExpr":
        out.add((l.get("referencedDecl") or {}).get("id"))
  return out


def _touches_matrix(ix, s):
  for ev in cxx.events(ix, s, {}):
    if ev.kind in ("write", "addr") and ev.what.startswith("ReachabilityAnalyzer::"):
      return True
  return False


def _line(n):
  return ((n.get("range") or {}).get("begin") or {}).get("line") or 0


@rule("R9.1", "C09", floor=14)
def r9_1(ctx):
  """reachable.cc is the bit-matrix incremental closure (S1-S5)."""
  sc = ctx.memo(("c09",), lambda: Schema(ctx))
  ix = sc.ix
  F = sc.F
  # S1 -------------------------------------------------------------------
  t = ix.field_type.get("ReachabilityAnalyzer::adj_", "")
  tt = t.replace(" ", "")
  ok = tt.startswith("std::vector<std::vector<") and any(
      tt == f"std::vector<std::vector<{w.replace(' ', '')}>>" for w in W64)
  ctx.check(ok, "S1:adj_-type", "pytype/typegraph/reachable.h", 0,
            f"adj_ has type {t}; the algorithm needs vector<vector<64-bit integer>>",
            {"type": t})
  # S2 add_node ------------------------------------------------------------
  fn = sc.add_node
  stmts = [s for s in inner(fn.body)]
  env = {}
  node_var = None
  seen = {"count": False, "size": False, "rows": False, "cols": False,
          "diag": False, "ret": False}
  order_ok = True
  for s in stmts:
    k = s.get("kind")
    if k == "DeclStmt":
      v = inner(s)[0]
      init = term(ix, inner(v)[-1], env) if inner(v) else None
      if uncast(init) == ("post++", F("num_nodes_")):
        node_var = ("var", v.get("name"), v["id"])
        seen["count"] = True
        continue
      if _touches_matrix(ix, s):
        raise AnalysisError(f"add_node: unknown declaration idiom at line {_line(s)}")
      continue
    if k == "ForStmt":
      var, bound, body = _loop(ix, s, env)
      if len(body) != 1:
        raise AnalysisError("add_node: row loop body is not a single statement")
      b = term(ix, body[0], env)
      want = ("mcall", "resize", ("index", F("adj_"), var))
      ok_body = isinstance(b, tuple) and b[:3] == want and len(b) == 5 and \
          uncast(b[3]) == F("size_") and _is_int(b[4], 0)
      ok_bound = bound == F("num_nodes_")
      ctx.check(ok_bound, "S2:row-loop-bound", RC, _line(s),
                f"the loop resizing rows runs to {bound}; every row i < "
                "num_nodes_ must be resized", {"bound": str(bound)})
      ctx.check(ok_body, "S2:row-resize", RC, _line(body[0]),
                f"row resize is {b}; expected adj_[i].resize(size_, 0)",
                {"stmt": str(b)})
      order_ok &= seen["count"] and seen["size"] and seen["rows"]
      seen["cols"] = True
      continue
    if k == "ReturnStmt":
      r = term(ix, inner(s)[0], env)
      ctx.check(node_var is not None and uncast(r) == node_var, "S2:returns-new-id",
                RC, _line(s), f"add_node returns {r}, not the id allotted",
                {"ret": str(r)})
      seen["ret"] = True
      continue
    t = term(ix, s, env)
    if isinstance(t, tuple) and t[0] == "=" and uncast(t[1]) == F("size_"):
      rhs = uncast(t[2])
      ok = isinstance(rhs, tuple) and (
          (rhs[0] == "/" and _is_int(rhs[2], 64) and uncast(rhs[1]) in (
              ("+", F("num_nodes_"), ("int", 63, "int")),)) or
          (rhs[0] == ">>" and _is_int(rhs[2], 6) and uncast(rhs[1])[0] == "+"))
      if ok:
        inner_sum = uncast(rhs[1])
        ok = uncast(inner_sum[1]) == F("num_nodes_") and _is_int(inner_sum[2], 63)
      ctx.check(ok, "S2:bucket-count", RC, _line(s),
                f"size_ = {rhs}; expected ceil(num_nodes_/64) = (num_nodes_+63)/64",
                {"rhs": str(rhs)})
      order_ok &= seen["count"]
      seen["size"] = True
      continue
    if isinstance(t, tuple) and t[:2] == ("mcall", "emplace_back") and t[2] == F("adj_") \
        and len(t) == 5 and uncast(t[3]) == F("size_") and _is_int(t[4], 0):
      # equivalent idiom for "add one row": adj_.emplace_back(size_, 0); the
      # older rows still have to be widened by the all-rows loop
      order_ok &= seen["count"] and seen["size"]
      seen["rows"] = True
      ctx.ok("S2:rows-resized", RC, _line(s), {"stmt": str(t), "idiom": "emplace_back(size_, 0)"})
      continue
    if isinstance(t, tuple) and t[:3] == ("mcall", "resize", F("adj_")):
      ok = len(t) == 4 and uncast(t[3]) == F("num_nodes_")
      ctx.check(ok, "S2:rows-resized", RC, _line(s),
                f"adj_.resize args {t[3:]}; expected num_nodes_", {"stmt": str(t)})
      order_ok &= seen["count"]
      seen["rows"] = True
      continue
    if isinstance(t, tuple) and t[0] in ("=", "|=") and node_var is not None and \
        sc.is_cell(t[1], lambda r: r == node_var, lambda c: _bucket(c, node_var)):
      ctx.check(sc.is_bit(t[2], node_var), "S2:diagonal", RC, _line(s),
                f"the new row gets {t[2]}; expected bit(node) so that every "
                "node reaches itself", {"rhs": str(t[2])})
      order_ok &= seen["rows"] and seen["cols"]
      seen["diag"] = True
      continue
    if isinstance(t, tuple) and t[:2] == ("mcall", "resize") and \
        isinstance(t[2], tuple) and t[2][:2] == ("index", F("adj_")):
      ctx.bad("S2:row-loop-bound", RC, _line(s),
              f"a single row is resized ({t[2][2]}) outside a loop over all "
              "rows: older rows keep their old bucket count", {"stmt": str(t)})
      continue
    if _touches_matrix(ix, s):
      raise AnalysisError(f"add_node: statement outside the schema at line {_line(s)}: {t}")
  missing = [k for k, v in seen.items() if not v]
  ctx.check(not missing and order_ok, "S2:complete-and-ordered", RC, fn.line,
            f"add_node lacks schema steps {missing} or performs them out of "
            "order", {"seen": seen, "order_ok": order_ok})
  # S3 add_connection -------------------------------------------------------
  fn = sc.add_conn
  if len(fn.params) != 2:
    raise AnalysisError("add_connection does not take two parameters")
  src = ("var", fn.params[0].get("name"), fn.params[0]["id"])
  dst = ("var", fn.params[1].get("name"), fn.params[1]["id"])
  reassigned = _assigned_locals(ix, fn)
  env = {}
  outer = None
  for s in inner(fn.body):
    if s.get("kind") == "DeclStmt":
      _locals(ix, fn, [s], env)
    elif s.get("kind") == "ForStmt":
      if outer is not None:
        raise AnalysisError("add_connection: more than one top-level loop")
      outer = s
    elif _touches_matrix(ix, s):
      raise AnalysisError(f"add_connection: statement outside the schema at line {_line(s)}")
  if any(k in reassigned for k in env):
    raise AnalysisError("add_connection: a substituted local is reassigned")
  if outer is None:
    raise AnalysisError("add_connection: row loop not found")
  i, bound, body = _loop(ix, outer, env)
  ctx.check(bound == F("num_nodes_"), "S3:row-loop-bound", RC, _line(outer),
            f"the outer loop runs to {bound}; every row i < num_nodes_ must be "
            "considered", {"bound": str(bound)})
  body = [b for b in body if b.get("kind") != "NullStmt"]
  if len(body) != 1 or body[0].get("kind") != "IfStmt" or body[0].get("hasElse"):
    raise AnalysisError("add_connection: outer loop body is not a single guarded block")
  ifs = body[0]
  g = uncast(term(ix, inner(ifs)[0], env))
  if isinstance(g, tuple) and g[0] == "!=" and _is_int(g[2], 0):
    g = uncast(g[1])
  ok = isinstance(g, tuple) and g[0] == "&" and (
      (sc.is_cell(g[1], lambda r: r == i, lambda c: _bucket(c, src)) and sc.is_bit(g[2], src)) or
      (sc.is_cell(g[2], lambda r: r == i, lambda c: _bucket(c, src)) and sc.is_bit(g[1], src)))
  ctx.check(ok, "S3:guard", RC, _line(ifs),
            f"guard is {g}; expected adj_[i][src/64] & bit(src) (row i reaches src)",
            {"guard": str(g)})
  then = inner(ifs)[1]
  tstmts = inner(then) if then.get("kind") == "CompoundStmt" else [then]
  env2 = dict(env)
  inner_loop = None
  for s in tstmts:
    if s.get("kind") == "DeclStmt":
      _locals(ix, fn, [s], env2)
    elif s.get("kind") == "ForStmt":
      if inner_loop is not None:
        raise AnalysisError("add_connection: more than one bucket loop")
      inner_loop = s
    elif _touches_matrix(ix, s):
      raise AnalysisError(f"add_connection: statement outside the schema at line {_line(s)}")
  if inner_loop is None:
    raise AnalysisError("add_connection: bucket loop not found")
  j, jbound, jbody = _loop(ix, inner_loop, env2)
  ctx.check(jbound == F("size_"), "S3:bucket-loop-bound", RC, _line(inner_loop),
            f"the inner loop runs to {jbound}; every bucket j < size_ must be "
            "merged", {"bound": str(jbound)})
  jbody = [b for b in jbody if b.get("kind") != "NullStmt"]
  if len(jbody) != 1:
    raise AnalysisError("add_connection: bucket loop body is not a single statement")
  u = term(ix, jbody[0], env2)
  is_or = isinstance(u, tuple) and (
      u[0] == "|=" or (u[0] == "=" and isinstance(uncast(u[2]), tuple)
                       and uncast(u[2])[0] == "|"))
  lhs_ok = isinstance(u, tuple) and sc.is_cell(u[1], lambda r: r == i, lambda c: uncast(c) == j)
  if isinstance(u, tuple) and u[0] == "|=":
    rhs_ok = sc.is_cell(u[2], lambda r: r == dst, lambda c: uncast(c) == j)
  elif is_or:
    a, b = uncast(u[2])[1], uncast(u[2])[2]
    cell_i = lambda t: sc.is_cell(t, lambda r: r == i, lambda c: uncast(c) == j)
    cell_d = lambda t: sc.is_cell(t, lambda r: r == dst, lambda c: uncast(c) == j)
    rhs_ok = (cell_i(a) and cell_d(b)) or (cell_i(b) and cell_d(a))
  else:
    rhs_ok = False
  ctx.check(is_or and lhs_ok and rhs_ok, "S3:row-or", RC, _line(jbody[0]),
            f"update is {u}; expected adj_[i][j] |= adj_[dst][j]",
            {"update": str(u)})
  # S4 is_reachable ---------------------------------------------------------
  fn = sc.is_reach
  src = ("var", fn.params[0].get("name"), fn.params[0]["id"])
  dst = ("var", fn.params[1].get("name"), fn.params[1]["id"])
  stmts = [s for s in inner(fn.body) if s.get("kind") != "NullStmt"]
  if len(stmts) != 1 or stmts[0].get("kind") != "ReturnStmt":
    raise AnalysisError("is_reachable: body is not a single return")
  r = uncast(term(ix, inner(stmts[0])[0]))
  if isinstance(r, tuple) and r[0] == "?:" and r[2] == ("bool", True) and r[3] == ("bool", False):
    r = uncast(r[1])
  if isinstance(r, tuple) and r[0] == "!=" and _is_int(r[2], 0):
    r = uncast(r[1])
  ok = isinstance(r, tuple) and r[0] == "&" and (
      (sc.is_cell(r[1], lambda x: x == src, lambda c: _bucket(c, dst)) and sc.is_bit(r[2], dst)) or
      (sc.is_cell(r[2], lambda x: x == src, lambda c: _bucket(c, dst)) and sc.is_bit(r[1], dst)))
  ctx.check(ok, "S4:query", RC, _line(stmts[0]),
            f"is_reachable returns {r}; expected adj_[src][dst/64] & bit(dst)",
            {"ret": str(r)})
  # S5 bit helper -------------------------------------------------------------
  used = [k for k, v in sc.bit_fns.items()]
  for k in used:
    f = ix.by_key.get(k)
    ctx.check(sc.bit_fns[k], f"S5:{k.split('(')[0]}", RC, f.line if f else 0,
              f"{k} is not `64-bit 1 << (k & 63)`", {"helper": k})
  if not used:
    ctx.ok("S5:inline-bit", RC, 0, {"note": "bit(k) written inline at each use"})
  # no other function writes the matrix
  for f in ix.by_key.values():
    if f.cls != "ReachabilityAnalyzer" or f.kind == "CXXConstructorDecl":
      continue
    if f.key in (sc.add_node.key, sc.add_conn.key):
      continue
    w = [ev.what for ev in cxx.events(ix, f.body, {}) if ev.kind in ("write", "addr")
         and ev.what.startswith("ReachabilityAnalyzer::")]
    ctx.check(not w, f"no-other-writer:{f.key}", f.file, f.line,
              f"{f.key} writes {w}; only add_node/add_connection may change the matrix",
              {"writes": w})


def _calls_to(ix, fn, qual):
  out = []
  if fn.body is None:
    return out
  for n in cxx.walk(fn.body):
    if n.get("kind") in ("CXXMemberCallExpr", "CallExpr"):
      key, callee, nm, obj = ix.callee(n)
      if key and key.split("(")[0] == qual:
        out.append(n)
  return out


@rule("R9.2", "C09", floor=3)
def r9_2(ctx):
  """An edge is stored only together with its closure update; node ids agree."""
  sc = ctx.memo(("c09",), lambda: Schema(ctx))
  ix = sc.ix
  edge_fields = {"CFGNode::incoming_", "CFGNode::outgoing_"}
  for fn in sorted(ix.by_key.values(), key=lambda f: f.key):
    if fn.kind in ("CXXConstructorDecl", "CXXDestructorDecl") or fn.body is None:
      continue
    if fn.file.endswith("_test.cc"):
      continue
    def transfer(ev, st):
      if ev.kind == "write" and ev.what in edge_fields:
        return st | {"w:" + ev.what}
      if ev.kind == "call" and ev.what.split("(")[0] == "ReachabilityAnalyzer::add_connection" \
          and not ev.cond:
        return st | {"closure"}
      return st
    fl = cxx.CxxFlow(ix, fn, transfer)
    wrote = any(ev.kind == "write" and ev.what in edge_fields for ev in fl.events)
    if not wrote:
      continue
    bad = [k for k, n, s in fl.exits if s is not None and
           any(x.startswith("w:") for x in s) and
           not ({"w:CFGNode::incoming_", "w:CFGNode::outgoing_", "closure"} <= s)]
    ctx.check(not bad, f"edge-writer:{fn.key}", fn.file, fn.line,
              f"{fn.key} stores an edge (incoming_/outgoing_) on a path that "
              "does not also store the mirror edge and call "
              "ReachabilityAnalyzer::add_connection",
              {"exits": [(k, sorted(s)) for k, n, s in fl.exits if s is not None]})
  # NewCFGNode: add_node called, its result compared with the node id used
  fns = [f for f in ix.find("Program::NewCFGNode") if len(f.params) == 2]
  if len(fns) != 1:
    raise AnalysisError("Program::NewCFGNode(name, condition) not found")
  fn = fns[0]
  calls = _calls_to(ix, fn, "ReachabilityAnalyzer::add_node")
  ctx.check(len(calls) == 1, "NewCFGNode:add_node-once", fn.file, fn.line,
            f"NewCFGNode calls add_node {len(calls)} times; must be exactly once",
            {"calls": len(calls)})
  # the CFGNode is constructed with the id that was compared with add_node's result
  env = {}
  for s in inner(fn.body):
    if s.get("kind") == "DeclStmt":
      _locals(ix, fn, [s], env)
  ctor = [n for n in cxx.walk(fn.body) if n.get("kind") == "CXXConstructExpr"
          and "CFGNode" in cxx.qual_type(n) and len(inner(n)) >= 3]
  if len(ctor) != 1:
    raise AnalysisError("NewCFGNode: CFGNode construction not found")
  id_arg = uncast(term(ix, inner(ctor[0])[2], env))
  cmp_ok = False
  for n in cxx.walk(fn.body):
    if n.get("kind") == "BinaryOperator" and n.get("opcode") == "==":
      a, b = uncast(term(ix, inner(n)[0], env)), uncast(term(ix, inner(n)[1], env))
      is_add = lambda t: isinstance(t, tuple) and t[0] == "mcall" and "add_node" in str(t[1])
      if (is_add(a) and b == id_arg) or (is_add(b) and a == id_arg):
        cmp_ok = True
  ctx.check(cmp_ok, "NewCFGNode:id-agreement", fn.file, fn.line,
            "the id given to the new CFGNode must be CHECKed equal to the id "
            "returned by ReachabilityAnalyzer::add_node", {"id_arg": str(id_arg)})
  # CFGNode::id() returns id_, and the ctor stores its id parameter there
  idf = ix.fn("CFGNode::id() const")
  r = [term(ix, inner(s)[0]) for s in inner(idf.body) if s.get("kind") == "ReturnStmt"]
  ctx.check(r == [("field", "CFGNode::id_", ("this",))], "CFGNode::id", idf.file, idf.line,
            f"CFGNode::id() returns {r}, not id_", {"ret": str(r)})


def _role_args(ix, call, fn):
  """Terms of the arguments of `call` with fn's params/this named by role."""
  return [uncast(term(ix, a)) for a in inner(call)[1:]]


@rule("R9.3", "C09", floor=4)
def r9_3(ctx):
  """Writer and readers agree on the orientation of the matrix."""
  sc = ctx.memo(("c09",), lambda: Schema(ctx))
  ix = sc.ix
  ID = lambda base: ("mcall", "CFGNode::id() const", base)
  # writer: ConnectTo(node) registers (node, this): row `node` gains what `this` reaches,
  # i.e. the matrix stores *backward* reachability: adj[a][b] <=> b ~> a forward.
  ct = ix.fn("CFGNode::ConnectTo(CFGNode *)")
  p = ("var", ct.params[0].get("name"), ct.params[0]["id"])
  calls = _calls_to(ix, ct, "ReachabilityAnalyzer::add_connection")
  if len(calls) != 1:
    raise AnalysisError("ConnectTo: add_connection call not found")
  a = _role_args(ix, calls[0], ct)
  writer = None
  if a == [ID(p), ID(("this",))]:
    writer = "backward"    # add_connection(src=new successor, dst=this)
  elif a == [ID(("this",)), ID(p)]:
    writer = "forward"
  else:
    raise AnalysisError(f"ConnectTo: add_connection arguments not understood: {a}")
  # which of (incoming_, outgoing_) gets which: this -> node is the forward edge
  edge = {}
  for n in cxx.walk(ct.body):
    if n.get("kind") == "CXXMemberCallExpr":
      t = term(ix, n)
      if t[0] == "mcall" and t[1] == "push_back" and isinstance(t[2], tuple) and t[2][0] == "field":
        edge[t[2][1]] = (uncast(t[2][2]), uncast(t[3]))
  fwd_ok = edge.get("CFGNode::outgoing_") == (("this",), p) and \
      edge.get("CFGNode::incoming_") == (p, ("this",))
  ctx.check(fwd_ok, "ConnectTo:edge-direction", ct.file, ct.line,
            f"ConnectTo(node) must add node to this->outgoing_ and this to "
            f"node->incoming_; got {edge}", {"edges": str(edge)})
  ctx.ok("ConnectTo:writer-orientation", ct.file, ct.line, {"orientation": writer})
  # reader 1: Program::is_reachable(src, dst): forward path src ~> dst
  pr = ix.fn("Program::is_reachable(const CFGNode *, const CFGNode *)")
  s = ("var", pr.params[0].get("name"), pr.params[0]["id"])
  d = ("var", pr.params[1].get("name"), pr.params[1]["id"])
  calls = _calls_to(ix, pr, "ReachabilityAnalyzer::is_reachable")
  if len(calls) != 1:
    raise AnalysisError("Program::is_reachable: analyzer query not found")
  a = _role_args(ix, calls[0], pr)
  want = [ID(d), ID(s)] if writer == "backward" else [ID(s), ID(d)]
  ctx.check(a == want, "Program::is_reachable:orientation", pr.file, pr.line,
            f"the matrix is written {writer}; Program::is_reachable(src,dst) "
            f"must query {want}, queries {a}", {"args": str(a), "writer": writer})
  # reader 2: CanHaveCombination: is origin->where an ancestor of this?
  ch = ix.find("CFGNode::CanHaveCombination")[0]
  calls = _calls_to(ix, ch, "ReachabilityAnalyzer::is_reachable")
  if len(calls) != 1:
    raise AnalysisError("CanHaveCombination: analyzer query not found")
  a = _role_args(ix, calls[0], ch)
  is_this = lambda t: t == ID(("this",))
  is_where = lambda t: isinstance(t, tuple) and t[0] == "mcall" and \
      "CFGNode::id" in str(t[1]) and "Origin::where" in str(t[2])
  ok = (is_this(a[0]) and is_where(a[1])) if writer == "backward" else \
      (is_where(a[0]) and is_this(a[1]))
  ctx.check(ok, "CanHaveCombination:orientation", ch.file, ch.line,
            f"the matrix is written {writer}; CanHaveCombination must ask "
            f"whether origin->where reaches this, queries {a}",
            {"args": str(a), "writer": writer})
  # reader 3 (Python surface): cfg.cc is_reachable binds keywords src, dst in order
  cf = [f for f in ix.by_key.values() if f.file.endswith("cfg.cc") and f.name == "is_reachable"]
  if len(cf) != 1:
    raise AnalysisError("cfg.cc is_reachable wrapper not found")
  cf = cf[0]
  calls = _calls_to(ix, cf, "Program::is_reachable")
  kw = [n for n in cxx.walk(cf.body) if n.get("kind") == "VarDecl" and n.get("name") == "kwlist"]
  names = []
  if kw:
    for n in cxx.walk(kw[0]):
      if n.get("kind") == "StringLiteral":
        names.append(n.get("value", "").strip('"'))
  parse = [n for n in cxx.walk(cf.body) if n.get("kind") == "CallExpr" and
           "PyArg_ParseTupleAndKeywords" in str(ix.callee(n)[0])]
  if len(calls) != 1 or len(parse) != 1 or names[:2] != ["src", "dst"]:
    raise AnalysisError(f"cfg.cc is_reachable: unknown shape (kwlist={names})")
  # the two output pointers after kwlist, each preceded by a type object
  outs = []
  for aexp in inner(parse[0])[1:]:
    t = uncast(term(ix, aexp))
    if isinstance(t, tuple) and t[0] == "&" and isinstance(t[1], tuple) and t[1][0] == "var" \
        and not str(t[1][1]).startswith("Py"):
      outs.append(t[1])
  args = [uncast(term(ix, x)) for x in inner(calls[0])[1:]]
  flat = [str(x) for x in args]
  ok = len(outs) == 2 and outs[0][1] in flat[0] and outs[1][1] in flat[1]
  ctx.check(ok, "cfg.is_reachable:keyword-order", cf.file, cf.line,
            f"keywords (src,dst) are parsed into {[o[1] for o in outs]} but "
            f"passed as {flat}", {"parsed": [o[1] for o in outs], "passed": flat})


def _tg(n):
  return f"pytype/typegraph/{n}"


VARIANTS = [
    {"name": "outer-bound-size", "rule": "R9.1", "file": _tg("reachable.cc"), "expect": "fire",
     "old": "  std::int64_t* row_dst = adj_[dst].data();\n  for (int i = 0; i < num_nodes_; i++) {",
     "new": "  std::int64_t* row_dst = adj_[dst].data();\n  for (int i = 0; i < size_; i++) {"},
    {"name": "bucket-div-32", "rule": "R9.1", "file": _tg("reachable.cc"), "expect": "fire",
     "old": "  int src_pos = src / 64;", "new": "  int src_pos = src / 32;"},
    {"name": "bit-is-32-bit-one", "rule": "R9.1", "file": _tg("reachable.cc"), "expect": "fire",
     "old": "  return 1l << (node_id & 63);", "new": "  return 1 << (node_id & 63);"},
    {"name": "and-instead-of-or", "rule": "R9.1", "file": _tg("reachable.cc"), "expect": "fire",
     "old": "        row_i[j] |= row_dst[j];", "new": "        row_i[j] &= row_dst[j];"},
    {"name": "assign-instead-of-or", "rule": "R9.1", "file": _tg("reachable.cc"), "expect": "fire",
     "old": "        row_i[j] |= row_dst[j];", "new": "        row_i[j] = row_dst[j];"},
    {"name": "guard-tests-dst", "rule": "R9.1", "file": _tg("reachable.cc"), "expect": "fire",
     "old": "  std::int64_t src_bit = _node_bit(src);\n  int src_pos = src / 64;",
     "new": "  std::int64_t src_bit = _node_bit(dst);\n  int src_pos = dst / 64;"},
    {"name": "or-row-src", "rule": "R9.1", "file": _tg("reachable.cc"), "expect": "fire",
     "old": "  std::int64_t* row_dst = adj_[dst].data();", "new": "  std::int64_t* row_dst = adj_[src].data();"},
    {"name": "old-rows-not-resized", "rule": "R9.1", "file": _tg("reachable.cc"), "expect": "fire",
     "old": "  for (int i = 0; i < num_nodes_; i++) {\n    adj_[i].resize(size_, 0);\n  }",
     "new": "  adj_[node].resize(size_, 0);"},
    {"name": "diagonal-not-set", "rule": "R9.1", "file": _tg("reachable.cc"), "expect": "fire",
     "old": "  adj_[node][node / 64] = _node_bit(node);  // New row, so we don't need \"|=\"\n", "new": ""},
    {"name": "bucket-count-floor", "rule": "R9.1", "file": _tg("reachable.cc"), "expect": "fire",
     "old": "  size_ = (num_nodes_ + 63) / 64;", "new": "  size_ = (num_nodes_ + 64) / 64;"},
    {"name": "inner-bound-off", "rule": "R9.1", "file": _tg("reachable.cc"), "expect": "fire",
     "old": "      for (int j = 0; j < size_; j++) {", "new": "      for (int j = 0; j < size_ - 1; j++) {"},
    {"name": "query-swapped-bucket", "rule": "R9.1", "file": _tg("reachable.cc"), "expect": "fire",
     "old": "  return adj_[src][dst / 64] & _node_bit(dst) ? true : false;",
     "new": "  return adj_[src][src / 64] & _node_bit(dst) ? true : false;"},
    {"name": "twin-shift-for-div", "rule": "R9.1", "file": _tg("reachable.cc"), "expect": "silent",
     "old": "  int src_pos = src / 64;", "new": "  int src_pos = src >> 6;"},
    {"name": "twin-mod-for-mask", "rule": "R9.1", "file": _tg("reachable.cc"), "expect": "silent",
     "old": "  return 1l << (node_id & 63);", "new": "  return static_cast<std::int64_t>(1) << (node_id % 64);"},
    {"name": "twin-index-instead-of-data", "rule": "R9.1", "file": _tg("reachable.cc"), "expect": "silent",
     "old": "        row_i[j] |= row_dst[j];", "new": "        adj_[i][j] |= adj_[dst][j];"},
    {"name": "twin-size_t-loop", "rule": "R9.1", "file": _tg("reachable.cc"), "expect": "silent",
     "old": "      for (int j = 0; j < size_; j++) {", "new": "      for (std::size_t j = 0; j < size_; ++j) {"},
    {"name": "edge-without-closure", "rule": "R9.2", "file": _tg("typegraph.cc"), "expect": "fire",
     "old": "  this->backward_reachability_->add_connection(node->id(), this->id());\n", "new": ""},
    {"name": "edge-one-sided", "rule": "R9.2", "file": _tg("typegraph.cc"), "expect": "fire",
     "old": "  node->incoming_.push_back(this);\n  this->outgoing_.push_back(node);",
     "new": "  this->outgoing_.push_back(node);"},
    {"name": "newcfgnode-skips-add_node-check", "rule": "R9.2", "file": _tg("typegraph.cc"), "expect": "fire",
     "old": "  CHECK(n == node_nr) <<\n      \"internal error: wrong reachability cache node count.\";\n", "new": ""},
    {"name": "writer-args-swapped", "rule": "R9.3", "file": _tg("typegraph.cc"), "expect": "fire",
     "old": "add_connection(node->id(), this->id());", "new": "add_connection(this->id(), node->id());"},
    {"name": "program-query-unswapped", "rule": "R9.3", "file": _tg("typegraph.cc"), "expect": "fire",
     "old": "  return backward_reachability_->is_reachable(dst->id(), src->id());",
     "new": "  return backward_reachability_->is_reachable(src->id(), dst->id());"},
    {"name": "canhave-query-swapped", "rule": "R9.3", "file": _tg("typegraph.cc"), "expect": "fire",
     "old": "is_reachable(this->id(),\n                                                     origin->where->id())",
     "new": "is_reachable(origin->where->id(),\n                                                     this->id())"},
    {"name": "twin-both-sides-swapped", "rule": "R9.3", "expect": "silent",
     "edits": [(_tg("typegraph.cc"), "add_connection(node->id(), this->id());", "add_connection(this->id(), node->id());"),
               (_tg("typegraph.cc"), "  return backward_reachability_->is_reachable(dst->id(), src->id());",
                "  return backward_reachability_->is_reachable(src->id(), dst->id());"),
               (_tg("typegraph.cc"), "is_reachable(this->id(),\n                                                     origin->where->id())",
                "is_reachable(origin->where->id(),\n                                                     this->id())")]},
    {"name": "seeded-C09-r2m1-lazy-widening", "rule": "R9.1", "patch": "seeded/C09-r2m1/patch.diff", "expect": "fire"},
    {"name": "twin-new-row-by-emplace_back", "rule": "R9.1", "file": _tg("reachable.cc"), "expect": "silent",
     "old": "  adj_.resize(num_nodes_);\n  for (int i = 0; i < num_nodes_; i++) {",
     "new": "  adj_.emplace_back(size_, 0);\n  for (int i = 0; i < num_nodes_; i++) {"},
]
