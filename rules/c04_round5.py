"""C04 round 5 (R4.50, R4.51, R4.52): the set-order obligations of R4.6 / R4.10 are
decided at the quick tier for every module that writes to the error log.

The text and the order of the error report are output of the analysis just as
the stub is (property C04: "the same ordered error report ... regardless of
the interpreter's hash seed").  The report is written from all over the
package: any function may call a reporting method of the error log
(`<..>.errorlog.invalid_annotation(stack, .., details)`), and the strings it
passes become the message verbatim.  Hence, in a module that reports errors,

  R4.50  no definite set is walked by an order-observing consumer - directly
         or through a parameter of a function of the module that the set is
         handed to - unless the walk is provably order-insensitive or triaged
         (the obligation, inference and triage table of R4.6w);
  R4.51  no definite set is handed across a module / receiver boundary into a
         parameter whose iteration order the callee passes on (R4.10w).

The scope is computed, not listed: the reporting methods are read off
pytype/errors/errors.py (every method of ErrorLog or a subclass that takes a
`stack` parameter - the position of the error), and a module is in scope when
it contains a call of one of them on a receiver whose last name component is
`errorlog` (`self.ctx.errorlog`, `ctx.errorlog`, `self._errorlog`, a parameter
`errorlog`), or when it imports pytype.errors.error_types (the error-detail
records that the matcher and the abstract values fill in and the error
printer turns into text).  A call of an unknown method on such a receiver is
refused.  Modules already decided by R4.6 / R4.10 at the quick tier are left
to them.

R4.52 / R4.52w (below, with their own description) extend the set inference
through record fields, constructor parameters, set-valued attributes and
set-returning methods of other modules.
"""
import ast

from sa.core import rule, AnalysisError
from sa import flow
from sa.pyindex import get_module, dotted, src, walk_no_nested
from rules import c04 as _c04
from rules import c04_set_args as _args

ERRORS = "pytype/errors/errors.py"
ERROR_TYPES_MOD = "pytype.errors.error_types"
_FUNC = (ast.FunctionDef, ast.AsyncFunctionDef)


def _errorlog_methods(ctx):
  """(reporting, other): method names of ErrorLog and its subclasses in
  errors.py, split by whether the method takes a `stack` parameter."""
  def build():
    mod = get_module(ctx, ERRORS)
    if "ErrorLog" not in mod.classes:
      raise AnalysisError(f"{ERRORS}: class ErrorLog not found")
    family = {"ErrorLog"}
    grew = True
    while grew:
      grew = False
      for name, cls in mod.classes.items():
        if name not in family and any(
            (dotted(b) or "").split(".")[-1] in family for b in cls.bases):
          family.add(name)
          grew = True
    reporting, other = set(), set()
    for name in family:
      for st in mod.classes[name].body:
        if isinstance(st, _FUNC):
          a = st.args
          params = {p.arg for p in a.posonlyargs + a.args + a.kwonlyargs}
          (reporting if "stack" in params else other).add(st.name)
        elif isinstance(st, (ast.Assign, ast.AnnAssign)):
          for t in (st.targets if isinstance(st, ast.Assign) else [st.target]):
            if isinstance(t, ast.Name):
              other.add(t.id)
    other -= reporting
    if len(reporting) < 10:
      raise AnalysisError(f"{ERRORS}: only {len(reporting)} reporting methods "
                          "(methods with a `stack` parameter) found in the "
                          "ErrorLog classes")
    return frozenset(reporting), frozenset(other)
  return ctx.memo(("c04r5-errorlog-methods",), build)


def _is_errorlog(expr):
  d = dotted(expr)
  return d is not None and d.split(".")[-1].lstrip("_") == "errorlog"


def _reporting_modules(ctx):
  """{file: number of reporting calls + imports of the error-detail records}
  over the package modules outside the quick scope of R4.6 (tests excluded)."""
  def build():
    reporting, other = _errorlog_methods(ctx)
    quick = set(_c04._scope_files(ctx, whole=False))
    out = {}
    for rel in _c04._scope_files(ctx, whole=True):
      if rel in quick:
        continue
      text = ctx.read(rel)
      if "errorlog" not in text and "error_types" not in text:
        continue
      tree = _c04._plain_tree(ctx, rel)
      # builders of error-detail records: importers of pytype.errors.error_types
      n = sum(1 for st in tree.body
              if isinstance(st, ast.ImportFrom) and st.level == 0 and any(
                  f"{st.module}.{al.name}" == ERROR_TYPES_MOD for al in st.names)
              or isinstance(st, ast.Import) and any(
                  al.name == ERROR_TYPES_MOD for al in st.names))
      for node in ast.walk(tree) if "errorlog" in text else ():
        if not (isinstance(node, ast.Call) and isinstance(node.func, ast.Attribute)
                and _is_errorlog(node.func.value)):
          continue
        m = node.func.attr
        if m in reporting:
          n += 1
        elif m not in other:
          raise AnalysisError(
              f"{rel}:{node.lineno}: `{ast.unparse(node.func)}` is not a method "
              f"of the ErrorLog classes of {ERRORS}: cannot tell whether it "
              "reports an error")
      if n:
        out[rel] = n
    return out
  return ctx.memo(("c04r5-reporting-modules",), build)


def _names_read(node):
  return {n.id for n in ast.walk(node)
          if isinstance(n, ast.Name) and isinstance(n.ctx, ast.Load)}


def _existence_body(body, assigned, carried, guard=None):
  """The statements only (a) return a constant / continue / break, (b) bind
  locals that are fresh in every iteration, (c) fill a memo `C[k] = v` under
  the guard `k not in C`: the loop computes any(P(x)) - no state is carried
  from one element to the next, so the order of the walk cannot show."""
  for st in body:
    if isinstance(st, (ast.Pass, ast.Continue, ast.Break)):
      continue
    if isinstance(st, ast.Return):
      if st.value is None or isinstance(st.value, ast.Constant):
        continue
      return False
    if isinstance(st, ast.Expr) and isinstance(st.value, ast.Constant):
      continue
    if isinstance(st, ast.Assign) and all(isinstance(t, ast.Name) for t in st.targets):
      if _names_read(st.value) & (carried - assigned):
        return False
      assigned |= {t.id for t in st.targets}
      continue
    if isinstance(st, ast.Assign) and len(st.targets) == 1 and \
        isinstance(st.targets[0], ast.Subscript) and \
        isinstance(st.targets[0].value, ast.Name) and guard is not None and \
        guard == (ast.unparse(st.targets[0].slice), st.targets[0].value.id) and \
        not (_names_read(st) & (carried - assigned)):
      continue
    if isinstance(st, ast.If):
      if _names_read(st.test) & (carried - assigned):
        return False
      g = None
      t = st.test
      if isinstance(t, ast.Compare) and len(t.ops) == 1 and isinstance(t.ops[0], ast.NotIn) \
          and isinstance(t.comparators[0], ast.Name):
        g = (ast.unparse(t.left), t.comparators[0].id)
      a1, a2 = set(assigned), set(assigned)
      if not _existence_body(st.body, a1, carried, g) or \
          not _existence_body(st.orelse, a2, carried, None):
        return False
      assigned |= a1 & a2
      continue
    return False
  return True


def _existence_loops(ctx, rel):
  """Marks the `for` sites of the module whose body is an existence test in the
  sense of _existence_body as order-insensitive (shared with R4.6w)."""
  sites, _ = _c04._scan_module_full(ctx, rel)
  todo = [s_ for s_ in sites if s_["kind"] == "for" and not s_["auto"]]
  if not todo:
    return
  mod = get_module(ctx, rel)
  loops = [n for n in ast.walk(mod.tree) if isinstance(n, (ast.For, ast.AsyncFor))]
  for site in todo:
    hits = [n for n in loops if n.lineno == site["line"] and src(n.iter) == site["expr"]]
    if len(hits) != 1:
      continue
    loop = hits[0]
    carried = {n.id for st in loop.body for n in ast.walk(st)
               if isinstance(n, ast.Name) and isinstance(n.ctx, ast.Store)}
    target = {n.id for n in ast.walk(loop.target) if isinstance(n, ast.Name)}
    if not loop.orelse and _existence_body(loop.body, set(target), carried | target):
      site["auto"] = ("existence test: constant returns, per-iteration locals "
                      "and a keyed memo only")


@rule("R4.50", "C04", floor=52)
def r4_50(ctx):
  """Every module that calls a reporting method of the error log walks no definite set in an order-observing way (R4.6's obligation at the quick tier, scope computed from errors.py)."""
  mods = _reporting_modules(ctx)
  for rel, n in sorted(mods.items()):
    ctx.ok(f"{rel.removeprefix('pytype/')}|reports-errors", rel, 0,
           {"reporting_calls": n})
  for rel in sorted(mods):
    _existence_loops(ctx, rel)
  _c04._run_set_rule(ctx, sorted(mods), _c04._SAFE_WHOLE_PACKAGE)


@rule("R4.51", "C04", floor=23)
def r4_51(ctx):
  """Every module that calls a reporting method of the error log hands no definite set across a module / receiver boundary into an order-passing parameter (R4.10's obligation at the quick tier)."""
  _args._run(ctx, sorted(_reporting_modules(ctx)))



# ---------------------------------------------------------------------------
# R4.52: sets that travel through record fields / set-valued attributes
# ---------------------------------------------------------------------------
#
# R4.6 / R4.10 know a set only while it is a local (or a `self.x` of the class
# at hand).  A set that is stored in an attribute by one module and read through
# an object of unknown type by another (`other_type.protocol_attributes`), or
# handed to a record constructor and read back as a field
# (`TypedDictError(bad, extra, missing)` .. `error.missing`), is invisible to
# them.  The field-sensitive inference below closes that gap:
#
#   `<anything>.A` is definitely a set when the package stores the attribute
#   name A at least once and EVERY store / declaration of A anywhere in the
#   package (tests excluded) is a definite set: `x.A = <set>`, a class-level
#   `A: set[..]` / `A = <set>`, a property whose every return is a set, an
#   `x.A |= ..`; where `self.A = p` stores an unannotated parameter of
#   `__init__`, every constructor call of the class (and of subclasses without
#   an `__init__` of their own, and every `super().__init__(..)` of a direct
#   subclass) in the package must pass a definite set for p.  Mutual references
#   (`self.A = self.base_cls.A`) are decided as a greatest fixpoint.
#   `a, b = f(..)` makes `a` a set when every function the call may reach
#   (module-local resolution, else every package function / method of that
#   name) returns, on every path, a tuple display whose item at that position
#   is a definite set; `x = r.m(..)` likewise when every candidate returns a
#   definite set on every path.
#
# The obligation is R4.6's: such a set is not walked by an order-observing
# consumer (str.join, a for loop with a non-commutative body, list(), ...)
# unless the walk is provably order-insensitive (sorted(..) first, set sinks,
# existence tests, commutative accumulation).

_PROPERTY_DECS = {"property", "cached_property"}


def _stmts(body):
  """Statements of a body, recursively, without entering expressions."""
  todo = list(reversed(body))
  while todo:
    st = todo.pop()
    yield st
    for f in ("body", "orelse", "finalbody"):
      sub = getattr(st, f, None)
      if isinstance(sub, list):
        todo.extend(reversed(sub))
    for h in getattr(st, "handlers", None) or ():
      todo.extend(reversed(h.body))
    for c in getattr(st, "cases", None) or ():
      todo.extend(reversed(c.body))


def _target_attrs(t, direct=True):
  if isinstance(t, ast.Attribute):
    yield t, direct
  elif isinstance(t, (ast.Tuple, ast.List)):
    for e in t.elts:
      yield from _target_attrs(e, False)
  elif isinstance(t, ast.Starred):
    yield from _target_attrs(t.value, False)


def _maybe_set_syntax(v):
  """Cheap necessary condition of `v is a definite set` on a plain tree."""
  if isinstance(v, (ast.Set, ast.SetComp, ast.Name, ast.Attribute, ast.Call,
                    ast.IfExp, ast.BoolOp, ast.NamedExpr)):
    return True
  return isinstance(v, ast.BinOp) and isinstance(v.op, _c04._SET_OPS)


class _TupleItem(ast.expr):
  """Synthetic expression: item `index` of the tuple returned by `call`."""
  _fields = ()

  def __init__(self, call, index):
    super().__init__()
    self.call = call
    self.index = index


class _World:
  """Package-wide facts for the field-sensitive set inference."""

  def __init__(self, ctx):
    self.ctx = ctx
    self.files = _c04._scope_files(ctx, whole=True)
    self.stores = {}      # attribute name -> [(rel, lineno, col, kind, cheap_ok)]
    self.defs = {}        # function / method name -> [(rel, lineno)]
    self.subclasses = {}  # base class last name -> [(rel, class name, has own __init__)]
    self._attr = {}
    self._assumed = set()
    self._inf = {}
    self._at = {}
    self._ctor = {}
    self._ret = {}
    self._evaluating = False
    self._only = None
    self._pending = set()
    self._cheap = {}
    for rel in self.files:
      self._index(rel, _c04._plain_tree(ctx, rel))

  # -- one cheap pass over the statements of every module ---------------------
  def _index(self, rel, tree):
    def store(attr, node, kind, cheap_ok):
      self.stores.setdefault(attr, []).append(
          (rel, node.lineno, node.col_offset, kind, cheap_ok))
    for st in _stmts(tree.body):
      if isinstance(st, ast.Assign):
        for t in st.targets:
          for a, direct in _target_attrs(t):
            store(a.attr, st, "assign" if direct else "unpack",
                  direct and _maybe_set_syntax(st.value))
      elif isinstance(st, ast.AnnAssign):
        if isinstance(st.target, ast.Attribute):
          store(st.target.attr, st, "assign",
                _c04._ann_is_set(st.annotation) or (
                    st.value is not None and _maybe_set_syntax(st.value)))
      elif isinstance(st, ast.AugAssign):
        if isinstance(st.target, ast.Attribute):
          store(st.target.attr, st, "aug", isinstance(st.op, _c04._SET_OPS))
      elif isinstance(st, (ast.For, ast.AsyncFor)):
        for a, _ in _target_attrs(st.target):
          store(a.attr, st, "unpack", False)
      elif isinstance(st, (ast.With, ast.AsyncWith)):
        for it in st.items:
          if it.optional_vars is not None:
            for a, _ in _target_attrs(it.optional_vars):
              store(a.attr, st, "unpack", False)
      elif isinstance(st, ast.ClassDef):
        own_init = any(isinstance(s2, _FUNC) and s2.name == "__init__" for s2 in st.body)
        for b in st.bases:
          d = dotted(b)
          if d:
            self.subclasses.setdefault(d.split(".")[-1], []).append(
                (rel, st.name, own_init))
        for s2 in st.body:
          if isinstance(s2, ast.AnnAssign) and isinstance(s2.target, ast.Name):
            store(s2.target.id, s2, "classvar",
                  _c04._ann_is_set(s2.annotation) or (
                      s2.value is not None and _maybe_set_syntax(s2.value)))
          elif isinstance(s2, ast.Assign):
            for t in s2.targets:
              if isinstance(t, ast.Name):
                store(t.id, s2, "classvar", _maybe_set_syntax(s2.value))
          elif isinstance(s2, _FUNC):
            decs = {(dotted(d) or "").split(".")[-1] for d in s2.decorator_list}
            store(s2.name, s2, "method", bool(decs & _PROPERTY_DECS))
      if isinstance(st, _FUNC):
        self.defs.setdefault(st.name, []).append((rel, st.lineno, st))

  # -- module access ------------------------------------------------------------
  def inf(self, rel):
    if rel not in self._inf:
      self._inf[rel] = _FieldInference(get_module(self.ctx, rel), self)
    return self._inf[rel]

  def node_at(self, rel, lineno, col, types):
    """The statement of the PyModule tree at a position of the plain tree."""
    if rel not in self._at:
      self._at[rel] = {}
      for n in ast.walk(get_module(self.ctx, rel).tree):
        if isinstance(n, ast.stmt):
          self._at[rel].setdefault((n.lineno, n.col_offset), n)
    n = self._at[rel].get((lineno, col))
    if not isinstance(n, types):
      raise AnalysisError(f"{rel}:{lineno}: statement of the index not found "
                          "in the module tree")
    return n

  # -- the attribute predicate ------------------------------------------------------
  def attr_is_set(self, attr):
    if attr in self._attr:
      return self._attr[attr]
    recs = self.stores.get(attr)
    if not recs or not all(r[4] for r in recs):
      self._attr[attr] = False
      return False
    if self._evaluating:
      if self._only is not None:
        return attr in self._only       # grounding pass: nothing is assumed
      # greatest fixpoint: assumed now, evaluated as a member of the group
      self._pending.add(attr)
      return True
    group = {attr}
    self._evaluating = True
    try:
      while group:
        self._reset()
        self._pending = set()
        failed = {a for a in sorted(group)
                  if any(v is False for v in self._store_verdicts(a))}
        new = {a for a in self._pending if a not in group and a not in self._attr}
        if new:
          group |= new        # discovered on the way: decide them together
          continue
        if failed:
          # what was concluded under the assumption of a failed member is void
          for a in failed:
            self._attr[a] = False
          group -= failed
          continue
        # every store of every member is a set if the members are: now demand
        # a ground - some store that is a set without assuming anything but
        # already grounded members (`self.jobs = conf.jobs` alone proves nothing)
        grounded = set()
        while True:
          self._only = grounded | {a for a, v in self._attr.items() if v}
          more = set()
          for a in sorted(group - grounded):
            self._reset()
            if any(v is True for v in self._store_verdicts(a)):
              more.add(a)
          self._only = None
          if not more:
            break
          grounded |= more
        if grounded == group:
          break
        for a in group - grounded:
          self._attr[a] = False
        group = grounded
    finally:
      self._evaluating = False
      self._only = None
      self._reset()
    for a in group:
      self._attr[a] = True
    return self._attr[attr]

  def _reset(self):
    self._inf = {}
    self._ctor = {}
    self._ret = {}

  def _store_verdicts(self, attr):
    """Per store / declaration of `attr`: True (a definite set), False, or
    None (`x.A |= ..`: keeps whatever it was)."""
    for rel, lineno, col, kind, _ in self.stores[attr]:
      inf = self.inf(rel)
      if kind == "unpack":
        yield False
      elif kind == "aug":
        yield None
      elif kind == "method":
        fn = self.node_at(rel, lineno, col, _FUNC)
        yield bool(_c04._ann_is_set(fn.returns) or self.all_returns_set(rel, fn, None))
      else:
        st = self.node_at(rel, lineno, col, (ast.Assign, ast.AnnAssign))
        if isinstance(st, ast.AnnAssign) and _c04._ann_is_set(st.annotation):
          yield True
        elif st.value is None:
          yield False
        else:
          yield bool(inf.is_set(st.value, st.value) or self._ctor_param_store(rel, st))

  # -- `self.A = p` in __init__: every constructor call passes a set ------------
  def _ctor_param_store(self, rel, st):
    if not isinstance(st.value, ast.Name):
      return False
    mod = get_module(self.ctx, rel)
    init = mod.enclosing_function(st)
    cls = mod.parent.get(init) if init is not None else None
    if not (isinstance(init, _FUNC) and init.name == "__init__"
            and isinstance(cls, ast.ClassDef)):
      return False
    name = st.value.id
    binds = self.inf(rel)._bindings(init).get(name, [])
    if len(binds) != 1 or binds[0][0] != "param":
      return False
    return self.ctor_param_is_set(rel, cls, init, name)

  def ctor_param_is_set(self, rel, cls, init, param):
    key = (rel, cls.name, param)
    if key in self._ctor:
      return self._ctor[key]
    self._ctor[key] = True        # recursion through the same parameter
    res = self._ctor_param_is_set(rel, cls, init, param)
    self._ctor[key] = res
    return res

  def _ctor_param_is_set(self, rel, cls, init, param):
    a = init.args
    if a.vararg is not None and a.vararg.arg == param or \
        a.kwarg is not None and a.kwarg.arg == param:
      return False
    pos = [p.arg for p in a.posonlyargs + a.args][1:]
    kwnames = {p.arg for p in a.args + a.kwonlyargs}
    defaults = dict(zip(reversed([p.arg for p in a.posonlyargs + a.args]),
                        reversed(a.defaults)))
    defaults.update({p.arg: d for p, d in zip(a.kwonlyargs, a.kw_defaults)
                     if d is not None})
    # classes constructed through this __init__: the class and, transitively,
    # subclasses that do not define their own; direct subclasses that do are
    # call sites through super().__init__
    names, super_in = {cls.name}, set()
    todo = [cls.name]
    while todo:
      for srel, sname, own in self.subclasses.get(todo.pop(), ()):
        if own:
          super_in.add((srel, sname))
        elif sname not in names:
          names.add(sname)
          todo.append(sname)
    body_text = ast.unparse(cls)
    if "cls(" in body_text or "__class__(" in body_text or "type(self)(" in body_text:
      return False                 # constructed reflectively: call sites unknown
    sites = 0
    for frel in self.files:
      text = self.ctx.read(frel)
      if not any(n in text for n in names) and not any(frel == r for r, _ in super_in):
        continue
      fmod = get_module(self.ctx, frel)
      finf = self.inf(frel)
      for call in ast.walk(fmod.tree):
        if not isinstance(call, ast.Call):
          continue
        d = dotted(call.func)
        is_site = d is not None and d.split(".")[-1] in names
        if not is_site and isinstance(call.func, ast.Attribute) and \
            call.func.attr == "__init__" and isinstance(call.func.value, ast.Call) \
            and dotted(call.func.value.func) == "super":
          owner = fmod.enclosing_function(call)
          ocls = fmod.parent.get(owner) if owner is not None else None
          is_site = isinstance(ocls, ast.ClassDef) and (frel, ocls.name) in super_in \
              and any((dotted(b) or "").split(".")[-1] in names for b in ocls.bases)
        if not is_site:
          continue
        if any(isinstance(x, ast.Starred) for x in call.args) or any(
            k.arg is None for k in call.keywords):
          return False
        arg = None
        if param in pos and pos.index(param) < len(call.args):
          arg = call.args[pos.index(param)]
        elif param in kwnames:
          for k in call.keywords:
            if k.arg == param:
              arg = k.value
        if arg is None:
          dflt = defaults.get(param)
          if dflt is None or not self.inf(rel).is_set(dflt, dflt):
            return False
        elif not finf.is_set(arg, call):
          return False
        sites += 1
    return sites > 0

  # -- functions all of whose returns are sets (or tuples with a set item) -------
  def returns_verdict(self, rel, fn, index):
    """True: every path of `fn` returns a definite set (item `index` of a
    tuple display when given); None: `fn` never returns (an abstract stub that
    only raises); False otherwise."""
    key = (rel, fn.lineno, fn.name, index)
    if key in self._ret:
      return self._ret[key]
    self._ret[key] = True        # delegation to the same name (`return self.base.m()`)
    res = self._returns_verdict(rel, fn, index)
    self._ret[key] = res
    return res

  def _returns_verdict(self, rel, fn, index):
    if index is None and _c04._ann_is_set(fn.returns):
      return True
    inf = self.inf(rel)
    nodes = list(walk_no_nested(fn))
    if any(isinstance(n, (ast.Yield, ast.YieldFrom)) for n in nodes):
      return False
    # falling off the end returns None: only a body that ends in return / raise
    if not flow.terminates(fn.body):
      return False
    rets = [n for n in nodes if isinstance(n, ast.Return)]
    if not rets:
      return None
    for r in rets:
      v = r.value
      if index is not None:
        if not (isinstance(v, ast.Tuple) and index < len(v.elts) and not any(
            isinstance(e, ast.Starred) for e in v.elts)):
          return False
        v = v.elts[index]
      if v is None or not inf.is_set(v, v):
        return False
    return True

  def all_returns_set(self, rel, fn, index):
    return self.returns_verdict(rel, fn, index) is True

  def call_returns_set(self, mod, inf, call, index):
    """Every function `call` may reach returns a set (item `index` of a tuple
    display when given) on every path; methods are resolved by name over the
    whole package (overrides), stubs that only raise are vacuous."""
    f = call.func
    if isinstance(f, ast.Name):
      res = inf.resolve_callee(call, call)
      return res is not None and self.all_returns_set(mod.rel, res[0], index)
    if not isinstance(f, ast.Attribute):
      return False
    if f.attr in _args._BUILTIN_METHODS or f.attr.startswith("__"):
      return False
    cands = self.defs.get(f.attr, [])
    d = dotted(f.value)
    if d and d in mod.imports:
      _, modfile = _args._method_index(self.ctx)
      target = modfile.get(mod.imports[d])
      cands = [c for c in cands if c[0] == target and c[2].col_offset == 0]
    if not cands or not all(self._cheap_returns(c[2], index) for c in cands):
      return False
    positive = False
    for rel, lineno, _ in cands:
      fn = _args._def_at(self.ctx, rel, lineno, f.attr)
      if fn is None:
        raise AnalysisError(f"{rel}:{lineno}: {f.attr} indexed but not found")
      v = self.returns_verdict(rel, fn, index)
      if v is False:
        return False
      positive = positive or v is True
    return positive

  def _cheap_returns(self, plain_fn, index):
    """Necessary condition of all_returns_set, decided on the plain tree."""
    key = (plain_fn, index)
    if key not in self._cheap:
      ok, n = True, 0
      for node in walk_no_nested(plain_fn):
        if isinstance(node, (ast.Yield, ast.YieldFrom)):
          ok = False
        elif isinstance(node, ast.Return):
          n += 1
          v = node.value
          if index is not None:
            v = v.elts[index] if isinstance(v, ast.Tuple) and index < len(v.elts) else None
          if v is None or not _maybe_set_syntax(v):
            ok = False
      self._cheap[key] = ok or (index is None and _c04._ann_is_set(plain_fn.returns))
    return self._cheap[key]


class _FieldInference(_c04._SetInference):
  """_SetInference + set-valued attributes / record fields of the package."""

  def __init__(self, mod, world):
    super().__init__(mod)
    self.world = world

  def is_set(self, expr, at=None):
    if isinstance(expr, _TupleItem):
      return self.world.call_returns_set(self.mod, self, expr.call, expr.index)
    if super().is_set(expr, at):
      return True
    if isinstance(expr, ast.Attribute):
      return self.world.attr_is_set(expr.attr)
    if isinstance(expr, ast.Call) and isinstance(expr.func, ast.Attribute):
      return self.world.call_returns_set(self.mod, self, expr, None)
    return False

  def _bindings(self, scope):
    if scope in self._scope_cache:
      return self._scope_cache[scope]
    out = super()._bindings(scope)
    for n in walk_no_nested(scope) if not isinstance(scope, ast.Lambda) else ():
      if isinstance(n, ast.Assign) and isinstance(n.value, ast.Call):
        for t in n.targets:
          if isinstance(t, ast.Tuple) and not any(
              isinstance(e, ast.Starred) for e in t.elts):
            for i, e in enumerate(t.elts):
              if isinstance(e, ast.Name):
                out.setdefault(e.id, []).append(("tuple-item", _TupleItem(n.value, i)))
    return out

  def _some_binding_set(self, recs):
    return super()._some_binding_set(recs) or any(
        r[0] == "tuple-item" and self.is_set(r[1]) for r in recs)

  def _def_is_set(self, name, d, fn):
    if isinstance(d, ast.Assign) and isinstance(d.value, ast.Call):
      hit = None
      for t in d.targets:
        if isinstance(t, ast.Tuple) and not any(isinstance(e, ast.Starred) for e in t.elts):
          for i, e in enumerate(t.elts):
            if isinstance(e, ast.Name) and e.id == name:
              hit = i
      if hit is not None:
        return self.is_set(_TupleItem(d.value, hit))
    return super()._def_is_set(name, d, fn)


def _world(ctx):
  return ctx.memo(("c04r5-world",), lambda: _World(ctx))


def _field_sites(ctx, rel):
  """Order-observing walks in `rel` of expressions that are definite sets only
  by the field-sensitive inference (the sites R4.6 does not see)."""
  world = _world(ctx)
  mod = get_module(ctx, rel)
  inf = _FieldInference(mod, world)
  base = {(s["qual"], s["expr"], s["kind"], s["line"]) for s in _c04._scan_module(ctx, rel)}
  sites = []
  for node in ast.walk(mod.tree):
    for kind, expr in _c04._consumers(node):
      if not inf.is_set(expr, node):
        continue
      site = {"qual": _c04._qualname(mod, node), "expr": src(expr), "kind": kind,
              "line": getattr(node, "lineno", 0),
              "auto": _c04._auto_insensitive(mod, inf, node, kind, expr)}
      if (site["qual"], site["expr"], site["kind"], site["line"]) not in base:
        sites.append(site)
    if isinstance(node, ast.Call):
      res = inf.resolve_callee(node, node)
      if res is None:
        continue
      callee, skip = res
      for a in list(node.args) + [k.value for k in node.keywords]:
        if isinstance(a, ast.Starred) or not inf.is_set(a, node):
          continue
        param = inf.param_of_arg(node, callee, skip, a)
        if param is None:
          continue
        walks = _c04._param_walks(mod, inf, callee, param)
        if walks:
          site = {"qual": _c04._qualname(mod, node), "expr": src(a),
                  "kind": f"call:{callee.name}({param})->{walks[0][0]}",
                  "line": getattr(node, "lineno", 0), "auto": None}
          if (site["qual"], site["expr"], site["kind"], site["line"]) not in base:
            sites.append(site)
  sites.sort(key=lambda s: (s["line"], s["kind"], s["expr"]))
  return sites


# (file, function, iterated expression) -> (allowed consumer kinds, reason);
# frozen, decided by reading the code on the reference tree
_FIELD_TRIAGED = {
    ("pytype/abstract/abstract_utils.py", "full_type_name",
     "val.all_template_names"): (
         ("for",), "returns the first full name whose last component is `name`: "
         "callers pass full names (unique hit) or the short name of a builtin "
         "container parameter, whose same-named entries along one base chain "
         "(list._T / MutableSequence._T) are aliases of one AliasingDict entry. "
         "NOT proven for unrelated bases that reuse one TypeVar (Alpha.T / "
         "Beta.T): an 8-seed run of such a program gave identical output; "
         "reported to the coordinator as unproven"),
    ("pytype/imports/typeshed.py", "Typeshed._get_missing_modules",
     "self.missing"): (
         ("for",), "maps every entry to a module name and adds it to a set, "
         "which is the result"),
    ("pytype/matcher.py", "AbstractMatcher._merge_matches",
     "self._type_params.seen"): (
         ("dictcomp",), "mapping keyed by full_name that is only read by key; "
         "two seen parameters with one full name are the same TypeVar in the "
         "same scope"),
    ("pytype/output.py", "Converter._class_to_def", "v.canonical_instances"): (
        ("for",), "per attribute name the instance types are add_type()d into "
        "a union; union members are sorted by CanonicalOrdering (R4.1/R4.2) "
        "and canonical_attributes is a set"),
    ("pytype/output.py", "Converter._class_to_def",
     "v.instances - v.canonical_instances"): (
         ("for",), "per attribute name the instance types are add_type()d into "
         "a union; union members are sorted by CanonicalOrdering (R4.1/R4.2)"),
    ("pytype/pytd/optimize.py", "FindCommonSuperClasses.VisitUnionType",
     "intersection"): (
         ("genexp",), "lossy optimisation only (io.generate_pyi_ast passes "
         "lossy=False); the resulting union is sorted by the CanonicalOrdering "
         "that R4.1 requires after Optimize"),
    ("pytype/rewrite/frame.py", "Frame.make_child_frame",
     "self._shadowed_nonlocals.get_global_names()"): (
         ("for",), "copies entries between dicts by name"),
    ("pytype/rewrite/frame.py", "Frame._merge_nonlocals_into",
     "self._shadowed_nonlocals.get_enclosing_names()"): (
         ("for",), "stores each name's variable under that name"),
    ("pytype/rewrite/frame.py", "Frame._merge_nonlocals_into",
     "self._shadowed_nonlocals.get_global_names()"): (
         ("for",), "stores each name's variable under that name"),
    ("pytype/vm.py", "VirtualMachine.run_program", "visitor.ignored_lines()"): (
        ("for",), "set of ints (line numbers): the order is a function of the "
        "values, and each warning is reported at its own line of the sorted "
        "report"),
}


def _run_field_rule(ctx, files):
  import collections
  budget = {k: collections.Counter(v[0]) for k, v in _FIELD_TRIAGED.items()}
  for rel in files:
    for site in _field_sites(ctx, rel):
      key = (rel, site["qual"], site["expr"])
      construct = (f"{rel.removeprefix('pytype/')}:{site['qual']}|"
                   f"{site['expr']}|{site['kind']}")
      facts = {"iterated": site["expr"], "consumer": site["kind"]}
      if site["auto"]:
        ctx.ok(construct, rel, site["line"], facts | {"insensitive": site["auto"]})
      elif key in budget and budget[key][site["kind"]] > 0:
        budget[key][site["kind"]] -= 1
        ctx.ok(construct, rel, site["line"], facts | {"triaged": _FIELD_TRIAGED[key][1]})
      else:
        ctx.bad(construct, rel, site["line"],
                f"`{site['expr']}` is a set by every store of that attribute / "
                "every constructor call / every return in the package and is "
                f"walked by an order-observing consumer ({site['kind']}) in "
                f"{site['qual']} without sorted(..): the hash order "
                "(PYTHONHASHSEED) becomes the order of the result", facts)


def _inventory(ctx):
  """One instance that records which attribute names the scan found to be
  set-valued package-wide (evidence; also keeps the rule from going blind)."""
  decided = _world(ctx)._attr
  names = sorted(a for a, v in decided.items() if v)
  ctx.ok("package|set-valued-attributes", "", 0,
         {"asked": len(decided), "set_valued": names[:60]})


def _field_scope(ctx):
  quick = _c04._scope_files(ctx, whole=False)
  return sorted(set(quick) | set(_reporting_modules(ctx)))


@rule("R4.52", "C04", floor=13)
def r4_52(ctx):
  """No set that reaches a walk through a record field, a constructor parameter, a set-valued attribute or a set-returning method of another module is walked in an order-observing way without sorted(..): output-path and error-reporting modules."""
  _run_field_rule(ctx, _field_scope(ctx))
  _inventory(ctx)


@rule("R4.52w", "C04", floor=1, tier="thorough")
def r4_52_whole(ctx):
  """The same obligation as R4.52 for the rest of the package."""
  scope = set(_field_scope(ctx))
  _run_field_rule(ctx, [f for f in _c04._scope_files(ctx, whole=True) if f not in scope])
  _inventory(ctx)


AU = "pytype/annotation_utils.py"
TYPING_OVERLAY = "pytype/overlays/typing_overlay.py"
TYPING = "pytype/abstract/_typing.py"
CONVERT = "pytype/convert.py"
PRINTER = "pytype/errors/error_printer.py"
MATCHER = "pytype/matcher.py"
_ILLEGAL_LOOP = (
    "      illegal_params = []\n"
    "      for x in self.get_type_parameters(typ):\n"
    "        if not allowed_type_params.intersection([x.name, x.full_name]):\n"
    "          illegal_params.append(x.name)\n"
    "      if illegal_params:\n"
    "        self._log_illegal_params(illegal_params, stack, typ, name)\n")
_ELLIPSES_CALL = (
    "    self.ctx.errorlog.invalid_ellipses(\n"
    "        self.ctx.vm.frames, ellipses - allowed_ellipses, self.name\n"
    "    )\n")

VARIANTS = [
    {"name": "seeded-C04-r5m1", "rule": "R4.50", "patch": "seeded/C04-r5m1/patch.diff",
     "expect": "fire"},
    # other ways to let set order into the text of an error message
    {"name": "out-of-scope-typevars-deduped-through-a-set-in-the-logger", "rule": "R4.50",
     "file": AU, "expect": "fire",
     "old": "    out_of_scope_params = utils.unique_list(illegal_params)\n",
     "new": "    out_of_scope_params = set(illegal_params)\n"},
    {"name": "literal-bad-parameters-collected-in-a-set", "rule": "R4.50", "expect": "fire",
     "edits": [(TYPING_OVERLAY, "    values = []\n    errors = []\n    for i, param in enumerate(inner):\n",
                "    values = []\n    errors = set()\n    for i, param in enumerate(inner):\n"),
               (TYPING_OVERLAY, "        errors.append((invalid_param, i))\n",
                "        errors.add((invalid_param, i))\n")]},
    {"name": "allowed-type-params-listed-in-the-message", "rule": "R4.50", "file": AU, "expect": "fire",
     "old": "      if illegal_params:\n        self._log_illegal_params(illegal_params, stack, typ, name)\n",
     "new": "      if illegal_params:\n        self._log_illegal_params(\n            illegal_params + list(set(allowed_type_params)), stack, typ, name)\n"},
    # behaviour-preserving twins
    {"name": "twin-illegal-params-as-list-comprehension-renamed", "rule": "R4.50", "file": AU,
     "expect": "silent", "old": _ILLEGAL_LOOP,
     "new": "      offending = [\n"
            "          tp.name\n"
            "          for tp in self.get_type_parameters(typ)\n"
            "          if not allowed_type_params.intersection([tp.name, tp.full_name])\n"
            "      ]\n"
            "      if offending:\n"
            "        self._log_illegal_params(offending, stack, typ, name)\n"},
    {"name": "twin-logger-dedupes-with-dict-fromkeys", "rule": "R4.50", "file": AU, "expect": "silent",
     "old": "    out_of_scope_params = utils.unique_list(illegal_params)\n",
     "new": "    out_of_scope_params = list(dict.fromkeys(illegal_params))\n"},
    {"name": "twin-membership-set-beside-the-ordered-list", "rule": "R4.50", "file": AU, "expect": "silent",
     "old": "    if \"AnyStr\" in out_of_scope_params:\n",
     "new": "    if \"AnyStr\" in set(out_of_scope_params):\n"},

    # R4.52: sets that arrive through record fields / set-valued attributes
    {"name": "typed-dict-missing-keys-joined-unsorted", "rule": "R4.52", "file": PRINTER,
     "expect": "fire",
     "old": "      ret += \"\\nTypedDict missing keys: \" + \", \".join(sorted(error.missing))\n",
     "new": "      ret += \"\\nTypedDict missing keys: \" + \", \".join(error.missing)\n"},
    {"name": "typed-dict-extra-keys-joined-unsorted", "rule": "R4.52", "file": PRINTER,
     "expect": "fire",
     "old": "      ret += \"\\nTypedDict extra keys: \" + \", \".join(sorted(error.extra))\n",
     "new": "      ret += \"\\nTypedDict extra keys: \" + \", \".join(error.extra)\n"},
    {"name": "protocol-attributes-matched-in-set-order", "rule": "R4.52", "file": MATCHER,
     "expect": "fire",
     "old": "    for attribute in sorted(other_type.protocol_attributes):\n",
     "new": "    for attribute in other_type.protocol_attributes:\n"},
    {"name": "protocol-missing-attributes-listed-unsorted", "rule": "R4.52", "file": PRINTER,
     "expect": "fire",
     "old": "      missing = \", \".join(sorted(error.missing))\n",
     "new": "      missing = \", \".join(list(error.missing))\n"},
    {"name": "twin-typed-dict-keys-sorted-through-a-list", "rule": "R4.52", "file": PRINTER,
     "expect": "silent",
     "old": "      ret += \"\\nTypedDict missing keys: \" + \", \".join(sorted(error.missing))\n",
     "new": "      ret += \"\\nTypedDict missing keys: \" + \", \".join(sorted(list(error.missing)))\n"},
    {"name": "twin-protocol-loop-variable-renamed", "rule": "R4.52", "expect": "silent",
     "edits": [(MATCHER, "    for attribute in sorted(other_type.protocol_attributes):\n"
                "      new_subst = self._match_protocol_attribute(\n"
                "          left, other_type, attribute, subst, view\n",
                "    for attr_name in sorted(other_type.protocol_attributes):\n"
                "      new_subst = self._match_protocol_attribute(\n"
                "          left, other_type, attr_name, subst, view\n")]},
    {"name": "twin-protocol-attributes-sorted-into-a-local", "rule": "R4.52", "file": MATCHER,
     "expect": "silent",
     "old": "    for attribute in sorted(other_type.protocol_attributes):\n",
     "new": "    wanted = sorted(other_type.protocol_attributes)\n    for attribute in wanted:\n"},
    {"name": "twin-check-keys-returns-through-locals-renamed", "rule": "R4.52",
     "file": "pytype/overlays/typed_dict.py", "expect": "silent",
     "old": "    missing = (self.keys - keys) & self.required\n    extra = keys - self.keys\n    return missing, extra\n",
     "new": "    absent = (self.keys - keys) & self.required\n    surplus = keys - self.keys\n    return absent, surplus\n"},

    # R4.51: a set handed to another module / receiver from an error-reporting module
    {"name": "invalid-ellipses-no-longer-sorts-its-indices", "rule": "R4.51",
     "file": "pytype/errors/errors.py", "expect": "fire",
     "old": "          \", \".join(str(i) for i in sorted(indices)),\n",
     "new": "          \", \".join(str(i) for i in indices),\n"},
    {"name": "merge-values-freezes-the-order-of-its-argument", "rule": "R4.51", "file": CONVERT,
     "expect": "fire",
     "old": "      return abstract.Union(values, self.ctx)\n",
     "new": "      return abstract.Union(tuple(values), self.ctx)\n"},
    {"name": "twin-ellipses-difference-bound-to-a-local-first", "rule": "R4.51", "file": TYPING,
     "expect": "silent", "old": _ELLIPSES_CALL,
     "new": "    misplaced = ellipses - allowed_ellipses\n"
            "    self.ctx.errorlog.invalid_ellipses(\n"
            "        self.ctx.vm.frames, misplaced, self.name\n"
            "    )\n"},
    {"name": "twin-invalid-ellipses-sorts-into-a-local", "rule": "R4.51",
     "file": "pytype/errors/errors.py", "expect": "silent",
     "old": "    if indices:\n      details = \"Not allowed at {} {} in {}\".format(\n",
     "new": "    if indices:\n      indices = sorted(indices)\n      details = \"Not allowed at {} {} in {}\".format(\n"},
]
