"""C06 extension R6.26: a name the printed unit defines itself never hides a typing / builtins name.

When module A defines its own `Generator` (or `list`, `Optional`, ...) and A's inferred types mention
typing.Generator (builtins.list), the printer must write the qualified spelling (`typing.Generator[...]` +
`import typing`, `builtins.list`), because the stub reader resolves a bare name to the module's own
definition first; otherwise module B reads a different type (or a pyi-error) for every name that mentions
it.  Whether a bare name is taken is decided by the printer's collision test against the names it
recorded when it entered the unit (EnterTypeDeclUnit: classes, functions, constants, type parameters,
aliases) and the class (EnterClass: methods and constants).  The unit can spell its definitions in two
ways: bare (`Generator`: the AST the inferencer hands to io / serialize_ast.PrepareForExport) or
module-qualified (`m.Generator`: an AST loaded from a stub); class members are always bare, with or without
an enclosing unit.

The rule takes EnterTypeDeclUnit, EnterClass, _FromTyping, VisitNamedType and what they call from /repo as
ASTs and evaluates them (rules/_minieval.py; nothing is imported or run): for every kind of definition x
both spellings x unit names `m` / `pkg.m`, the printer is entered the way the traversal enters it and asked
for typing.<X> (via _FromTyping) and builtins.<x> (via VisitNamedType); the answer must not be the bare
name.  Control: without the definition the bare name IS the answer (otherwise the evaluation cannot tell).
"""
from sa.core import rule, AnalysisError
from sa.pyindex import get_module
from rules import _minieval as me
from rules.c05 import class_methods, PRINTER
from rules.c05_smallscope import _Interp, _module_globals, _run, _second

UNIT_KINDS = ("classes", "functions", "constants", "type_params", "aliases")
MEMBER_KINDS = ("methods", "constants")
_LABEL = {"classes": "class", "functions": "function", "constants": "constant", "type_params": "type parameter",
          "aliases": "alias", "methods": "method"}


def _definition(kind, name):
  if kind == "classes":
    return me.Obj(("pytd.Class",), {"name": name, "template": (), "methods": (), "constants": (), "classes": (),
                                    "decorators": (), "bases": (), "keywords": (), "slots": None})
  if kind in ("functions", "methods"):
    return me.Obj(("pytd.Function",), {"name": name, "signatures": (), "decorators": ()})
  if kind == "constants":
    return me.Obj(("pytd.Constant",), {"name": name, "type": me.Obj(("pytd.NamedType",), {"name": "int"}),
                                       "value": None})
  if kind == "type_params":
    return me.Obj(("pytd.TypeParameter",), {"name": name, "full_name": name, "scope": None, "constraints": (),
                                            "bound": None, "default": None})
  if kind == "aliases":
    return me.Obj(("pytd.Alias",), {"name": name, "type": me.Obj(("pytd.NamedType",), {"name": "int"})})
  raise AssertionError(kind)


def _printer(ms):
  calls = []
  imports = me.Obj(("_Imports",), {"typing_members": {}, "track_imports": True}, methods={
      "get_alias": lambda name: None, "add": lambda *a, **kw: calls.append(a),
      "decrement_typing_count": lambda k: None})
  this = me.Obj(("PrintVisitor",), {
      "class_names": [], "_class_members": set(), "_local_names": set(), "_unit": None, "_paramspec_names": set(),
      "in_alias": False, "in_parameter": False, "in_literal": False, "in_constant": False, "in_signature": False,
      "in_function": False, "multiline_args": False, "_imports": imports}, cls_methods=ms)
  return this, calls


def _unit(name, **defs):
  return me.Obj(("pytd.TypeDeclUnit",), {"name": name, **{k: tuple(defs.get(k, ())) for k in UNIT_KINDS}})


def _ask(ms, g, this, how, x):
  """The printer's spelling of typing.<x> / builtins.<x>."""
  if how == "typing":
    fn, arg = ms["_FromTyping"], x
  else:
    fn, arg = ms["VisitNamedType"], me.Obj(("pytd.NamedType",), {"name": f"builtins.{x}"}, structural=True)
  try:
    r = _run(fn.name, lambda: _Interp(fn, g).call({"self": this, _second(fn): arg}))
  except me.Raised as e:
    raise AnalysisError(f"PrintVisitor.{fn.name} raises {e.name} in the evaluation") from e
  if not isinstance(r, str):
    raise AnalysisError(f"PrintVisitor.{fn.name} evaluates to {r!r}, not a name")
  return r


def _enter(ms, g, this, meth, node):
  fn = ms[meth]
  try:
    _run(meth, lambda: _Interp(fn, g).call({"self": this, _second(fn): node}))
  except me.Raised as e:
    raise AnalysisError(f"PrintVisitor.{meth} raises {e.name} in the evaluation") from e


@rule("R6.26", "C06", floor=14)
def r6_26(ctx):
  """Every spelling under which the unit / class defines a name makes the printer qualify the typing name."""
  pmod = get_module(ctx, PRINTER)
  g = _module_globals(pmod)
  ms = {k: v for k, v in class_methods(pmod, "PrintVisitor").items() if not v.decorator_list}
  for need in ("EnterTypeDeclUnit", "EnterClass", "_FromTyping", "VisitNamedType"):
    if need not in ms:
      raise AnalysisError(f"PrintVisitor.{need} not found")
  asks = (("typing", "Generator"), ("builtins", "list"))
  # control: nothing defined -> the bare name
  for unit_name in (None, "m"):
    for how, x in asks:
      this, _ = _printer(ms)
      if unit_name:
        _enter(ms, g, this, "EnterTypeDeclUnit", _unit(unit_name))
      got = _ask(ms, g, this, how, x)
      if got != x:
        raise AnalysisError(f"the evaluated printer spells {how}.{x} as {got!r} although nothing defines {x}: "
                            "the evaluation cannot tell a working collision test from a missing one")

  def verdict(name, line, cases):
    bad = [c for c in cases if c["printed"] == c["name"]]
    facts = {"cases": len(cases), "spellings_checked": sorted({c["printed"] for c in cases})}
    if bad:
      ex = bad[0]
      ctx.bad(name, PRINTER, line,
              f"printing the unit `{ex['unit']}` which defines {ex['defined_as']}, the printer spells "
              f"{ex['asked']} as the bare `{ex['printed']}`: the stub reader resolves that to the unit's own "
              f"definition, so the importer reads another type (or a pyi-error) for every name whose type mentions "
              f"{ex['asked']} ({len(bad)} of {len(cases)} cases)", dict(facts, counterexample=ex, failing=len(bad)))
    else:
      ctx.ok(name, PRINTER, line, facts)
  line = ms["_FromTyping"].lineno
  for kind in UNIT_KINDS:
    for spelling in ("bare", "module-qualified"):
      cases = []
      for unit_name in ("m", "pkg.m"):
        for how, x in asks:
          dname = x if spelling == "bare" else f"{unit_name}.{x}"
          this, _ = _printer(ms)
          _enter(ms, g, this, "EnterTypeDeclUnit", _unit(unit_name, **{kind: [_definition(kind, dname)]}))
          # asked at module level and from inside another class of the unit
          for inside in (False, True):
            if inside:
              _enter(ms, g, this, "EnterClass", _definition("classes", "Other"))
            cases.append({"unit": unit_name, "defined_as": f"{_LABEL[kind]} `{dname}`",
                          "asked": f"{how}.{x}", "name": x, "printed": _ask(ms, g, this, how, x),
                          "asked_inside_a_class": inside})
      verdict(f"PrintVisitor:own-definition-forces-qualified-name[unit {kind}, {spelling} name]", line, cases)
  for kind in MEMBER_KINDS:
    for in_unit in (False, True):
      cases = []
      for how, x in asks:
        for cls_name in ("C", "m.C"):
          this, _ = _printer(ms)
          cls = _definition("classes", cls_name)
          cls.attrs[kind] = (_definition(kind, x),)
          if in_unit:
            _enter(ms, g, this, "EnterTypeDeclUnit", _unit("m", classes=[cls]))
          _enter(ms, g, this, "EnterClass", cls)
          cases.append({"unit": "m" if in_unit else "(a class printed on its own)",
                        "defined_as": f"class `{cls_name}` with the {_LABEL[kind]} `{x}`", "asked": f"{how}.{x}",
                        "name": x, "printed": _ask(ms, g, this, how, x)})
      verdict(f"PrintVisitor:own-definition-forces-qualified-name[class {kind}, "
              f"{'inside a unit' if in_unit else 'no unit'}]", line, cases)


_NC = ("    def name_in(members):\n      return name in members or (\n"
       "          self._unit and f\"{self._unit.name}.{name}\" in members\n      )\n\n"
       "    return name_in(self._class_members) or name_in(self._local_names)\n")
VARIANTS = [
    {"name": "seeded-C06-r4m2", "rule": "R6.26", "patch": "seeded/C06-r4m2/patch.diff", "expect": "fire"},
    {"name": "only-the-bare-name-tested", "rule": "R6.26", "file": PRINTER, "old": _NC,
     "new": "    return name in self._class_members or name in self._local_names\n", "expect": "fire"},
    {"name": "class-members-not-consulted", "rule": "R6.26", "file": PRINTER,
     "old": "    return name_in(self._class_members) or name_in(self._local_names)\n",
     "new": "    return name_in(self._local_names)\n", "expect": "fire"},
    {"name": "type-parameters-not-recorded-as-local-names", "rule": "R6.26", "file": PRINTER,
     "old": "        + unit.constants\n        + unit.type_params\n        + unit.aliases\n",
     "new": "        + unit.constants\n        + unit.aliases\n", "expect": "fire"},
    {"name": "class-constants-not-recorded-as-members", "rule": "R6.26", "file": PRINTER,
     "old": "    for member in node.methods + node.constants:\n", "new": "    for member in node.methods:\n",
     "expect": "fire"},
    {"name": "builtins-prefix-stripped-without-the-collision-test", "rule": "R6.26", "file": PRINTER,
     "old": "    if self._IsBuiltin(prefix) and not self._NameCollision(suffix):\n",
     "new": "    if self._IsBuiltin(prefix):\n", "expect": "fire"},
    {"name": "twin-candidates-in-a-tuple", "rule": "R6.26", "file": PRINTER, "old": _NC,
     "new": "    candidates = [name]\n    if self._unit:\n      candidates.append(f\"{self._unit.name}.{name}\")\n"
            "    return any(\n        c in self._class_members or c in self._local_names for c in candidates\n"
            "    )\n", "expect": "silent"},
    {"name": "twin-local-names-normalised-when-recorded", "rule": "R6.26", "expect": "silent",
     "edits": [(PRINTER, "    self._local_names = {c.name for c in definitions}\n",
                "    self._local_names = {c.name for c in definitions} | {\n"
                "        c.name.removeprefix(f\"{unit.name}.\") for c in definitions\n    }\n"),
               (PRINTER, _NC, "    return name in self._class_members or name in self._local_names\n")]},
    {"name": "twin-union-of-both-sets", "rule": "R6.26", "file": PRINTER,
     "old": "    return name_in(self._class_members) or name_in(self._local_names)\n",
     "new": "    return name_in(self._class_members | self._local_names)\n", "expect": "silent"},
    {"name": "twin-benign-C05-r2", "rule": "R6.26", "patch": "benign/C05-r2/patch.diff", "expect": "silent"},
]
