"""C07 extension (R7.7): exact visibility queries get their answer from the solver.

The property is about what cfg.Binding.IsVisible, cfg.CFGNode.HasCombination
and the strict cfg.Variable.Filter / FilteredData report.  Everything R7.1-R7.6
establish about Solver::Solve is void if one of these entry points answers on
its own on some path - e.g. a "the variable has only one binding, so it is
visible iff an origin is reachable" shortcut that ignores source sets.  Such
approximations exist on purpose in Variable::Prune and in the NON-strict
Filter; they must not leak into the exact queries.

Decided here, on clang's AST of typegraph.cc / typegraph.h / cfg.cc:

* producers - Binding::IsVisible, CFGNode::HasCombination and any other
  typegraph function returning bool that hands its result of Solver::Solve
  back: EVERY return must be the value of Solver::Solve (on the solver
  obtained from Program::GetSolver) or of another producer, directly or
  through a once-bound local; a literal, a reachability test, or a
  combination of the solver's answer with anything else is a finding.  The
  query must be the function's own: IsVisible(viewpoint) asks ({this},
  viewpoint), HasCombination(bindings) asks (bindings, this) - read off the
  leaves (this / parameters) of the argument expressions, through delegation.
* the strict filter - in Variable::Filter every element appended to the
  returned vector must, on that path, have passed IsVisible(viewpoint) on
  that same element; the only other admission accepted is the triaged
  approximation `!strict && bindings_.size() == 1`.  Callers that take
  (viewpoint, strict) themselves (FilteredData) must forward both unchanged.
* the Python surface functions IsVisible / HasCombination in cfg.cc call the
  producer of the same name.
"""
from sa.core import rule, AnalysisError
from sa import cxx
from sa.cxx import term, uncast, inner, strip
from rules import _cxxutil_c07c08 as U

TGF = ("pytype/typegraph/typegraph.cc", "pytype/typegraph/typegraph.h")
SOLVE = "Solver::Solve"
ROOTS = ("Binding::IsVisible", "CFGNode::HasCombination")


def _line(n):
  return ((n.get("range") or {}).get("begin") or {}).get("line") or 0


def _once_bound_decls(ix, fn):
  """decl id -> VarDecl node, for the locals of fn that denote their
  initialiser: declared const / pointer / reference / scalar with an
  initialiser and never assigned, incremented, address-taken or mutated."""
  written = U.written_vars(fn.body)
  skip = U._range_for_decls(fn.body)
  out = {}
  for n in cxx.walk(fn.body):
    if n.get("kind") != "VarDecl" or not n.get("init") or n.get("id") in skip or \
        n["id"] in written:
      continue
    ty = cxx.qual_type(n).strip()
    if U._simple_type(ty) or ty.endswith("const"):
      out[n["id"]] = n
  return out


def _init_of(decl):
  kids = [c for c in inner(decl) if c.get("kind")]
  return kids[-1] if kids else None


def _resolve(e, decls):
  """The expression a value comes from: conversions stripped, once-bound
  locals replaced by their initialiser."""
  for _ in range(20):
    e = strip(e)
    if e is None:
      return None
    if e.get("kind") == "DeclRefExpr":
      did = (e.get("referencedDecl") or {}).get("id")
      if did in decls:
        e = _init_of(decls[did])
        continue
    if e.get("kind") == "CXXConstructExpr" and len(inner(e)) == 1:
      e = inner(e)[0]
      continue
    return e
  return e


_THROUGH = set(cxx.TRANSPARENT) | {"CXXConstructExpr", "InitListExpr",
                                   "CXXStdInitializerListExpr", "CXXTemporaryObjectExpr"}


def _leaves(ix, e, decls, written, depth=0):
  """What an argument expression designates: "this", parameter / local ids
  (once-bound locals resolved), looking only through conversions, braces and
  container construction; anything computed (a field, a call) is one opaque
  leaf ("expr", text).  None when a reassigned local takes part."""
  out = set()
  todo = [e]
  while todo:
    n = todo.pop()
    if n is None or not n.get("kind"):
      continue
    k = n["kind"]
    if k == "CXXDefaultArgExpr":
      continue
    if k in _THROUGH or (k == "UnaryOperator" and n.get("opcode") in ("&", "*")):
      todo.extend(inner(n))
    elif k == "CXXThisExpr":
      out.add("this")
    elif k == "DeclRefExpr" and (n.get("referencedDecl") or {}).get("kind") in (
        "ParmVarDecl", "VarDecl"):
      did = n["referencedDecl"].get("id")
      if did in decls and depth < 6:
        sub = _leaves(ix, _init_of(decls[did]), decls, written, depth + 1)
        if sub is None:
          return None
        out |= sub
      elif did in written:
        return None
      else:
        out.add(did)
    else:
      out.add(("expr", U.show(uncast(term(ix, n)))))
  return out


class _Producers:
  """Which functions answer with the solver's result, and for which query."""

  def __init__(self, ix):
    self.ix = ix
    self.memo = {}

  def query(self, fn, stack=()):
    """{"ok": bool, "query": (goal leaves, node leaves) or None, "bad": [...],
    "unknown": [...]} for a bool function of the typegraph."""
    if fn.key in self.memo:
      return self.memo[fn.key]
    if fn.key in stack:
      return {"ok": False, "query": None, "bad": [], "unknown": ["recursion"], "n": 0}
    ix = self.ix
    decls = _once_bound_decls(ix, fn)
    written = U.written_vars(fn.body)
    bad, unknown, queries = [], [], []
    rets = [n for n in cxx.walk(fn.body) if n.get("kind") == "ReturnStmt"]
    in_lambda = {id(x) for lam in cxx.walk(fn.body) if lam.get("kind") == "LambdaExpr"
                 for x in cxx.walk(lam)}
    rets = [r for r in rets if id(r) not in in_lambda]
    for r in rets:
      v = U.return_value(r)
      e = _resolve(v, decls) if v is not None else None
      if e is None:
        bad.append((r, "returns nothing"))
        continue
      k = e.get("kind")
      if k == "DeclRefExpr" and (e.get("referencedDecl") or {}).get("id") in written:
        unknown.append(f"line {_line(r)}: the result is held in a local that is "
                       "assigned more than once")
        continue
      if k != "CXXMemberCallExpr":
        bad.append((r, f"returns `{U.show(uncast(term(ix, v, U.once_bound_env(ix, fn))))}`"))
        continue
      key, callee, nm, obj = ix.callee(e)
      args = inner(e)[1:]
      if (key or "").split("(")[0] == SOLVE:
        if len(args) != 2:
          unknown.append(f"line {_line(r)}: Solver::Solve with {len(args)} arguments")
          continue
        oe = _resolve(obj, decls) if obj is not None else None
        if oe is None or oe.get("kind") != "CXXMemberCallExpr" or \
            (ix.callee(oe)[0] or "").split("(")[0] != "Program::GetSolver":
          ot = uncast(term(ix, obj)) if obj is not None else None
          unknown.append(f"line {_line(r)}: Solve is called on {U.show(ot)}, not on "
                         "Program::GetSolver()")
          continue
        g, nd = _leaves(ix, args[0], decls, written), _leaves(ix, args[1], decls, written)
        if g is None or nd is None:
          unknown.append(f"line {_line(r)}: the query arguments involve a reassigned local")
          continue
        queries.append((frozenset(g), frozenset(nd)))
        continue
      if callee is not None and callee.file in TGF and callee.body is not None and \
          callee.sig.startswith("bool"):
        sub = self.query(callee, stack + (fn.key,))
        if sub["ok"] and sub["query"] is not None:
          m = {}
          o = strip(obj) if obj is not None else None
          ol = _leaves(ix, obj, decls, written) if obj is not None else {"this"}
          m["this"] = ol
          for p, a in zip(callee.params, args):
            m[p["id"]] = _leaves(ix, a, decls, written)
          if any(v is None for v in m.values()):
            unknown.append(f"line {_line(r)}: arguments of {callee.name} involve a "
                           "reassigned local")
            continue
          mapped = []
          for part in sub["query"]:
            s = set()
            for leaf in part:
              s |= m.get(leaf, {leaf})
            mapped.append(frozenset(s))
          queries.append(tuple(mapped))
          continue
        if sub["unknown"]:
          unknown.append(f"line {_line(r)}: delegates to {callee.name}, which is "
                         f"not understood ({sub['unknown'][0]})")
          continue
      bad.append((r, f"returns the result of {nm}(), not of Solver::Solve"))
    q = None
    if queries and len(set(queries)) == 1:
      q = queries[0]
    elif len(set(queries)) > 1:
      unknown.append("different returns put different queries to the solver")
    res = {"ok": bool(rets) and not bad and not unknown and q is not None,
           "query": q, "bad": bad, "unknown": unknown, "n": len(rets)}
    self.memo[fn.key] = res
    return res


def _calls_solve(ix, fn):
  return any(n.get("kind") == "CXXMemberCallExpr" and
             (ix.callee(n)[0] or "").split("(")[0] == SOLVE for n in cxx.walk(fn.body))


def _declared_query(fn):
  """What a root producer has to ask, in leaves of its own frame."""
  cfg = [p for p in fn.params if "CFGNode" in cxx.qual_type(p)]
  vec = [p for p in fn.params if "vector" in cxx.qual_type(p) and "Binding" in cxx.qual_type(p)]
  if fn.cls == "Binding" and len(cfg) == 1 and not vec:
    return frozenset({"this"}), frozenset({cfg[0]["id"]}), "({this}, viewpoint)"
  if fn.cls == "CFGNode" and len(vec) == 1 and not cfg:
    return frozenset({vec[0]["id"]}), frozenset({"this"}), "(bindings, this)"
  raise AnalysisError(f"{fn.qual}: signature {fn.sig} not understood")


def _is_one(ix, t, pol, size_of):
  """The fact says that `size_of` holds exactly one element."""
  if not (isinstance(t, tuple) and len(t) == 3):
    return False
  a, b = uncast(t[1]), uncast(t[2])
  op = t[0]
  if isinstance(a, tuple) and a[0] == "int":
    a, b = b, a
    op = {"<": ">", ">": "<", "<=": ">=", ">=": "<="}.get(op, op)
  if not (isinstance(b, tuple) and b[0] == "int" and a == ("mcall", "size", size_of)):
    return False
  n = b[1]
  if pol:
    return (op == "==" and n == 1) or (op == "<" and n == 2) or (op == "<=" and n == 1)
  return (op == ">" and n == 1) or (op == ">=" and n == 2)


@rule("R7.7", "C07", floor=7)
def r7_7(ctx):
  """IsVisible / HasCombination / strict Filter answer with Solver::Solve on every path."""
  ix = cxx.get_index(ctx)
  prod = _Producers(ix)
  roots = []
  for q in ROOTS:
    fs = [f for f in ix.by_key.values() if f.qual == q and f.body is not None]
    if len(fs) != 1:
      raise AnalysisError(f"anchor: the exact visibility query {q} not found")
    roots.append(fs[0])
  others = [f for f in sorted(ix.by_key.values(), key=lambda f: f.key)
            if f.file in TGF and f.body is not None and f.sig.startswith("bool")
            and f.key not in {r.key for r in roots} and _calls_solve(ix, f)
            and any(n.get("kind") == "ReturnStmt" and U.return_value(n) is not None and
                    any(x.get("kind") == "CXXMemberCallExpr" and
                        (ix.callee(x)[0] or "").split("(")[0] == SOLVE
                        for x in cxx.walk(U.return_value(n)))
                    for n in cxx.walk(f.body))]
  for fn in roots + others:
    res = prod.query(fn)
    if res["bad"]:
      r, what = res["bad"][0]
      ctx.bad(f"{fn.qual}:answer-from-solver", fn.file, _line(r),
              f"{fn.qual} {what} at line {_line(r)}: an exact visibility query "
              "must return the answer of Solver::Solve on every path (source "
              "sets, re-binding and conflicts are only decided there); "
              "approximations belong to Prune / the non-strict Filter",
              {"exits_bypassing_the_solver": [(_line(x), w) for x, w in res["bad"]],
               "returns": res["n"]})
    elif res["unknown"] or res["query"] is None:
      raise AnalysisError(f"{fn.qual}: how the answer is obtained is not "
                          f"understood: {(res['unknown'] or ['no return'])[0]}")
    else:
      ctx.ok(f"{fn.qual}:answer-from-solver", fn.file, fn.line, {"returns": res["n"]})
    if fn in roots and res["query"] is not None:
      g, nd, text = _declared_query(fn)
      ctx.check(res["query"] == (g, nd), f"{fn.qual}:asks-its-own-query", fn.file, fn.line,
                f"{fn.qual} must put the query {text} to the solver; the goal "
                f"argument is built from {_names(fn, res['query'][0])} and the "
                f"node argument from {_names(fn, res['query'][1])}",
                {"goals": _names(fn, res["query"][0]), "node": _names(fn, res["query"][1])})
  # -- the strict filter ---------------------------------------------------------------
  fl = [f for f in ix.by_key.values() if f.qual == "Variable::Filter" and f.body is not None]
  if len(fl) != 1:
    raise AnalysisError("anchor: Variable::Filter not found")
  fl = fl[0]
  vp = [p for p in fl.params if "CFGNode" in cxx.qual_type(p)]
  sp = [p for p in fl.params if cxx.qual_type(p).replace("const ", "").strip() == "bool"]
  if len(vp) != 1 or len(sp) != 1:
    raise AnalysisError(f"Variable::Filter: parameters {fl.sig} not understood")
  viewpoint, strict = U.var_of(vp[0]), U.var_of(sp[0])
  if {vp[0]["id"], sp[0]["id"]} & U.written_vars(fl.body):
    raise AnalysisError("Variable::Filter: a parameter is reassigned")
  results = set()
  for n in cxx.walk(fl.body):
    if n.get("kind") == "ReturnStmt" and U.return_value(n) is not None:
      e = strip(U.return_value(n))
      while e is not None and e.get("kind") == "CXXConstructExpr" and len(inner(e)) == 1:
        e = strip(inner(e)[0])
      if e is None or e.get("kind") != "DeclRefExpr":
        raise AnalysisError("Variable::Filter: the returned value is not a local vector")
      results.add((e.get("referencedDecl") or {}).get("id"))

  def watch(n):
    if n.get("kind") != "CXXMemberCallExpr":
      return False
    key, callee, nm, obj = ix.callee(n)
    o = strip(obj) if obj is not None else None
    return callee is None and nm in ("push_back", "emplace_back", "insert") and \
        o is not None and o.get("kind") == "DeclRefExpr" and \
        (o.get("referencedDecl") or {}).get("id") in results

  paths = U.Paths(ix, fl, watch=watch, smart=True)
  if not paths.visits:
    raise AnalysisError("Variable::Filter: no element is appended to the "
                        "returned vector by push_back; idiom not understood")
  size_of = ("field", "Variable::bindings_", ("this",))
  by_site = {}
  for n, facts, _ in paths.visits:
    by_site.setdefault(id(n), (n, []))[1].append(facts)
  for i, (n, alts) in enumerate(sorted(by_site.values(), key=lambda x: U.pos(x[0]))):
    args = inner(n)[1:]
    if len(args) != 1:
      raise AnalysisError(f"Variable::Filter: append at line {_line(n)} not understood")
    elem = paths.t(args[0])
    verdicts = []
    for facts in alts:
      visible = any(
          pol and isinstance(t, tuple) and t[0] == "mcall" and len(t) == 4 and
          str(t[1]).split("(")[0] == "Binding::IsVisible" and t[2] == elem and
          t[3] == viewpoint for t, pol in facts)
      if visible:
        verdicts.append("visible")
        continue
      lax = any(t == strict and not pol for t, pol in facts)
      one = any(_is_one(ix, t, pol, size_of) for t, pol in facts)
      if lax and one:
        verdicts.append("triaged:!strict&&size==1")
        continue
      op = [o for o in (U.opaque_fact(paths, f) for f in facts) if o]
      if op:
        raise AnalysisError(f"Variable::Filter: the append at line {_line(n)} is "
                            f"guarded by a condition that is not understood ({op[0]})")
      verdicts.append(("bad", facts))
    bad = [v for v in verdicts if isinstance(v, tuple)]
    name = f"Variable::Filter:admission#{i}"
    if bad:
      shown = U.show_facts(bad[0][1], paths.elems)
      ctx.bad(name, fl.file, _line(n),
              f"Variable::Filter appends {U.show(elem)} at line {_line(n)} on a path "
              f"on which it has not passed IsVisible({viewpoint[1]}) and which is not "
              f"the triaged approximation `!{strict[1]} && bindings_.size() == 1`; "
              f"path facts: {shown[:5]} - the strict filter must be exact",
              {"facts": shown[:6]})
    else:
      ctx.ok(name, fl.file, _line(n), {"paths": sorted(set(verdicts))})
  # callers that take (viewpoint, strict) forward them unchanged
  n_fw = 0
  for fn in sorted(ix.by_key.values(), key=lambda f: f.key):
    if fn.file not in TGF or fn.body is None or fn.key == fl.key:
      continue
    calls = [n for n in cxx.walk(fn.body) if n.get("kind") == "CXXMemberCallExpr"
             and (ix.callee(n)[0] or "").split("(")[0] == fl.qual]
    if not calls:
      continue
    cvp = [p for p in fn.params if "CFGNode" in cxx.qual_type(p)]
    csp = [p for p in fn.params if cxx.qual_type(p).replace("const ", "").strip() == "bool"]
    if len(cvp) != 1 or len(csp) != 1:
      continue
    env = U.once_bound_env(ix, fn)
    wr = U.written_vars(fn.body)
    for c in calls:
      n_fw += 1
      a = [uncast(term(ix, x, env)) for x in inner(c)[1:]]
      if {cvp[0]["id"], csp[0]["id"]} & wr:
        raise AnalysisError(f"{fn.qual}: a parameter is reassigned")
      ctx.check(a == [U.var_of(cvp[0]), U.var_of(csp[0])], f"{fn.qual}:forwards-strict",
                fn.file, _line(c),
                f"{fn.qual} calls Filter({', '.join(U.show(x) for x in a)}); it must "
                f"forward its own ({cvp[0].get('name')}, {csp[0].get('name')}) unchanged",
                {"args": [U.show(x) for x in a]})
  if not n_fw:
    raise AnalysisError("no typegraph function forwards (viewpoint, strict) to "
                        "Variable::Filter (FilteredData not found)")
  # the Python surface
  for q in ROOTS:
    nm = q.split("::")[1]
    sf = [f for f in ix.by_key.values() if f.file.endswith("cfg.cc") and f.name == nm
          and f.body is not None]
    if len(sf) != 1:
      raise AnalysisError(f"cfg.cc: surface function {nm} not found")
    hit = any(n.get("kind") == "CXXMemberCallExpr" and
              (ix.callee(n)[0] or "").split("(")[0] == q for n in cxx.walk(sf[0].body))
    ctx.check(hit, f"cfg.{nm}:calls-{q}", sf[0].file, sf[0].line,
              f"the Python-surface function {nm} in cfg.cc does not call {q}")


def _names(fn, leaves):
  names = {p["id"]: p.get("name") for p in fn.params}
  for n in cxx.walk(fn.body):
    if n.get("kind") == "VarDecl":
      names[n["id"]] = n.get("name")
  return sorted("this" if x == "this" else x[1] if isinstance(x, tuple) else
                str(names.get(x, x)) for x in leaves)


def _tg(n):
  return f"pytype/typegraph/{n}"


_ISVIS = ("bool Binding::IsVisible(const CFGNode* viewpoint) const {\n"
          "  Solver* s = program_->GetSolver();\n"
          "  return s->Solve({this}, viewpoint);\n}\n")
_HASCOMB = ("bool CFGNode::HasCombination(const std::vector<const Binding*>& bindings) {\n"
            "  return program_->GetSolver()->Solve(bindings, this);\n}\n")
_FILTER_IF = ("    if ((!strict && size == 1) || binding->IsVisible(viewpoint)) {\n"
              "      filtered.push_back(binding.get());\n"
              "    }\n")

VARIANTS = [
    {"name": "seeded-C07-r3m2", "rule": "R7.7", "patch": "seeded/C07-r3m2/patch.diff", "expect": "fire"},
    {"name": "isvisible-shortcut-origin-at-viewpoint", "rule": "R7.7", "file": _tg("typegraph.cc"),
     "expect": "fire", "old": _ISVIS,
     "new": _ISVIS.replace("  Solver* s =", "  if (FindOrigin(viewpoint) != nullptr) {\n    return true;\n  }\n  Solver* s =")},
    {"name": "hascombination-shortcut-single-reachable", "rule": "R7.7", "file": _tg("typegraph.cc"),
     "expect": "fire", "old": _HASCOMB,
     "new": _HASCOMB.replace("  return program_", "  if (bindings.size() == 1 && CanHaveCombination(bindings)) {\n"
                             "    return true;\n  }\n  return program_")},
    {"name": "hascombination-is-canhavecombination", "rule": "R7.7", "file": _tg("typegraph.cc"),
     "expect": "fire", "old": _HASCOMB,
     "new": _HASCOMB.replace("program_->GetSolver()->Solve(bindings, this)", "CanHaveCombination(bindings)")},
    {"name": "isvisible-solver-or-reachability", "rule": "R7.7", "file": _tg("typegraph.cc"),
     "expect": "fire", "old": "  return s->Solve({this}, viewpoint);\n",
     "new": "  return s->Solve({this}, viewpoint) || FindOrigin(viewpoint) != nullptr;\n"},
    {"name": "isvisible-asks-about-the-condition", "rule": "R7.7", "file": _tg("typegraph.cc"),
     "expect": "fire", "old": "  return s->Solve({this}, viewpoint);\n",
     "new": "  return s->Solve({viewpoint->condition()}, viewpoint);\n"},
    {"name": "strict-filter-uses-single-binding-shortcut", "rule": "R7.7", "file": _tg("typegraph.cc"),
     "expect": "fire", "old": "    if ((!strict && size == 1) || binding->IsVisible(viewpoint)) {",
     "new": "    if (size == 1 || binding->IsVisible(viewpoint)) {"},
    {"name": "lax-filter-admits-everything", "rule": "R7.7", "file": _tg("typegraph.cc"),
     "expect": "fire", "old": "    if ((!strict && size == 1) || binding->IsVisible(viewpoint)) {",
     "new": "    if (!strict || binding->IsVisible(viewpoint)) {"},
    {"name": "filtereddata-drops-strict", "rule": "R7.7", "file": _tg("typegraph.cc"),
     "expect": "fire", "old": "  std::vector<Binding*> filtered = Filter(viewpoint, strict);",
     "new": "  std::vector<Binding*> filtered = Filter(viewpoint, false);"},
    {"name": "twin-isvisible-one-liner", "rule": "R7.7", "file": _tg("typegraph.cc"), "expect": "silent",
     "old": _ISVIS,
     "new": "bool Binding::IsVisible(const CFGNode* viewpoint) const {\n"
            "  return program_->GetSolver()->Solve({this}, viewpoint);\n}\n"},
    {"name": "twin-isvisible-named-result", "rule": "R7.7", "file": _tg("typegraph.cc"), "expect": "silent",
     "old": "  return s->Solve({this}, viewpoint);\n",
     "new": "  const std::vector<const Binding*> query{this};\n"
            "  const bool visible = s->Solve(query, viewpoint);\n  return visible;\n"},
    {"name": "twin-hascombination-solver-local", "rule": "R7.7", "file": _tg("typegraph.cc"),
     "expect": "silent", "old": _HASCOMB,
     "new": _HASCOMB.replace("  return program_->GetSolver()->Solve(bindings, this);",
                             "  Solver* const solver = program_->GetSolver();\n  CFGNode* const here = this;\n"
                             "  return solver->Solve(bindings, here);")},
    {"name": "twin-benign-C01-r2-filter-index-loop", "rule": "R7.7", "patch": "benign/C01-r2/patch.diff",
     "expect": "silent"},
    {"name": "twin-filter-guard-clause", "rule": "R7.7", "file": _tg("typegraph.cc"), "expect": "silent",
     "old": _FILTER_IF,
     "new": "    const bool assume = !strict && bindings_.size() < 2;\n"
            "    if (!assume && !binding->IsVisible(viewpoint)) {\n      continue;\n    }\n"
            "    filtered.push_back(binding.get());\n"},
    {"name": "twin-filter-two-appends", "rule": "R7.7", "file": _tg("typegraph.cc"), "expect": "silent",
     "old": _FILTER_IF,
     "new": "    if (!strict && size == 1) {\n      filtered.push_back(binding.get());\n      continue;\n    }\n"
            "    if (binding->IsVisible(viewpoint)) {\n      filtered.push_back(binding.get());\n    }\n"},
    {"name": "filter-guard-clause-wrong-polarity", "rule": "R7.7", "file": _tg("typegraph.cc"), "expect": "fire",
     "old": _FILTER_IF,
     "new": "    const bool assume = !strict && bindings_.size() < 2;\n"
            "    if (!assume && binding->IsVisible(viewpoint)) {\n      continue;\n    }\n"
            "    filtered.push_back(binding.get());\n"},
    {"name": "twin-hascombination-delegates-to-program", "rule": "R7.7", "expect": "silent",
     "edits": [(_tg("typegraph.h"), "  Solver* GetSolver();",
                "  Solver* GetSolver();\n  bool Query(const std::vector<const Binding*>& goals, const CFGNode* at);"),
               (_tg("typegraph.cc"), "void Program::InvalidateSolver() {",
                "bool Program::Query(const std::vector<const Binding*>& goals, const CFGNode* at) {\n"
                "  return GetSolver()->Solve(goals, at);\n}\n\nvoid Program::InvalidateSolver() {"),
               (_tg("typegraph.cc"), "  return program_->GetSolver()->Solve(bindings, this);",
                "  return program_->Query(bindings, this);")]},
    {"name": "hascombination-delegates-with-swapped-roles", "rule": "R7.7", "expect": "fire",
     "edits": [(_tg("typegraph.h"), "  Solver* GetSolver();",
                "  Solver* GetSolver();\n  bool Query(const std::vector<const Binding*>& goals, const CFGNode* at);"),
               (_tg("typegraph.cc"), "void Program::InvalidateSolver() {",
                "bool Program::Query(const std::vector<const Binding*>& goals, const CFGNode* at) {\n"
                "  return GetSolver()->Solve(goals, entrypoint_);\n}\n\nvoid Program::InvalidateSolver() {"),
               (_tg("typegraph.cc"), "  return program_->GetSolver()->Solve(bindings, this);",
                "  return program_->Query(bindings, this);")]},
    {"name": "isvisible-result-in-reassigned-local", "rule": "R7.7", "file": _tg("typegraph.cc"),
     "expect": "error", "old": "  return s->Solve({this}, viewpoint);\n",
     "new": "  bool visible = false;\n  visible = s->Solve({this}, viewpoint);\n  return visible;\n"},
]
