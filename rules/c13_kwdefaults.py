"""C13 extension R13.23 (D65, repaired): keyword-only defaults survive `__defaults__ = t`.

R13.23  `f.__defaults__ = t` only describes the positional parameters; the
        defaults of keyword-only parameters live in `__kwdefaults__` and are
        not touched by the assignment.  pytype keeps both kinds in the one
        mapping `Signature.defaults`, so the setter
        SignedFunction.set_function_defaults must carry the entries keyed by
        keyword-only names over into the mapping it leaves behind (component
        `old-kw` of rules/c13_defaults.py's symbolic evaluation) on every
        normal exit.

        Today it re-binds `self.signature.defaults` to a mapping built from
        the positional names alone:

            def f(a, *, k=1):
              return (a, k)
            f.__defaults__ = (3,)
            f()        # CPython: (3, 1)

        pytype: `missing-parameter: Missing parameter 'k' in call to function
        f` (confirmed on a scratch build of /repo HEAD) - an arity error on a
        call CPython binds.  Suggested repair (keeps R13.22 satisfied):

            kwonly = {k: v for k, v in self.signature.defaults.items()
                      if k in self.signature.kwonly_params}
            self.signature.defaults = {**defaults, **kwonly}

        To activate: rename to rules/c13_kwdefaults.py once /repo is repaired
        (or add R13.23:SignedFunction.set_function_defaults:keeps-keyword-only-
        defaults to known_findings.json), and append the EXPLANATION text below
        to rules/c13.py.
"""
from sa.core import rule
from rules import c13_defaults as D

EXPLANATION_FOR_C13 = (
    "  R13.23 (rules/c13_kwdefaults.py) on every normal exit of "
    "SignedFunction.set_function_defaults the mapping left in "
    "signature.defaults still holds the entries keyed by keyword-only names "
    "(same symbolic evaluation as R13.22): `__defaults__` does not describe "
    "keyword-only parameters, their defaults must survive the assignment.")


@rule("R13.23", "C13", floor=1)
def r13_23(ctx):
  """`__defaults__` assignment leaves keyword-only defaults alone."""
  _, fn, outcomes = D.setter_outcomes(ctx)
  lost = [when for when, comps in outcomes if D.OLD_KW not in comps]
  ctx.check(not lost, "SignedFunction.set_function_defaults:keeps-keyword-only-defaults",
            D.FB, fn.lineno,
            "assigning __defaults__ drops the defaults of keyword-only parameters "
            f"(paths: {lost[:3]}): `def f(a, *, k=1)`, `f.__defaults__ = (3,)`, `f()` "
            "is reported as missing-parameter 'k' although CPython binds k=1",
            {"left_in_signature.defaults": [{"when": w, "components": sorted(c)}
                                            for w, c in outcomes]})


VARIANTS = [
    {"name": "twin-keyword-only-defaults-carried-over", "rule": "R13.23", "file": D.FB,
     "expect": "silent", "old": D._OLD,
     "new": "    kwonly = {\n        k: v\n        for k, v in self.signature.defaults.items()\n"
            "        if k in self.signature.kwonly_params\n    }\n"
            "    self.signature.defaults = {**defaults, **kwonly}\n"},
    {"name": "twin-positional-entries-deleted-in-place", "rule": "R13.23", "file": D.FB,
     "expect": "silent", "old": D._OLD,
     "new": "    for name in list(self.signature.defaults):\n"
            "      if name not in self.signature.kwonly_params:\n"
            "        del self.signature.defaults[name]\n"
            "    self.signature.defaults.update(defaults)\n"},
    {"name": "twin-keyword-only-entries-copied-by-loop", "rule": "R13.23", "file": D.FB,
     "expect": "silent", "old": D._OLD,
     "new": "    for name in self.signature.kwonly_params:\n"
            "      if name in self.signature.defaults:\n"
            "        defaults[name] = self.signature.defaults[name]\n" + D._OLD},
    {"name": "rebinding-to-positional-mapping", "rule": "R13.23", "file": D.FB,
     "expect": "fire", "old": D._OLD,
     "new": "    self.signature.defaults = dict(defaults)\n"},
    {"name": "only-positional-entries-carried-over", "rule": "R13.23", "file": D.FB,
     "expect": "fire", "old": D._OLD,
     "new": "    keep = {\n        k: v\n        for k, v in self.signature.defaults.items()\n"
            "        if k in self.signature.param_names\n    }\n"
            "    self.signature.defaults = {**keep, **defaults}\n"},
]
