"""C11 extension: keys under which the optimiser identifies or groups nodes.

R11.21  GROUPING.  When nodes are grouped under a key and each group is
        replaced by ONE merged node, every field of the merged node is either
        recomputed from all members of the group or taken over from a single
        source - the key itself or one member (the first).  A field that is
        taken over must be determined by the key: otherwise two members that
        differ in it land in one group and the merged node silently keeps the
        first member's value (CombineReturnsAndExceptions grouping by a key
        that omits Parameter.mutated_type: the later overload's mutation
        disappears - the optimised stub is narrower).  Which fields a node has
        is read from the pytd schema (rules/_pytd_schema.py), never from a
        hand-written list.
R11.22  DE-DUPLICATION.  When an element is dropped because its key was seen
        before (`if K(t) not in seen: out.append(t); seen.add(K(t))`), the key
        may identify two nodes only if they are equal: it is the node itself,
        or it determines the node's class and every field its equality reads.
        An `isinstance` arm for a class also receives its schema subclasses
        (TupleType, CallableType, Concatenate are GenericTypes) unless earlier
        arms took them: a key built there must include the class.

Both rules run one small abstract interpreter over the visitor classes of
pytd/optimize.py and over pytd_utils.JoinTypes.  Values are described by what
they determine of the element they were computed from (access paths into the
element: `sig.params[*].name`, the class, the whole node), typed by the schema;
dicts/sets/lists are summarised by the join of the keys / values stored in
them; module-local helpers, methods (module-local MRO), closures and
generators are evaluated at their call sites; `isinstance` tests narrow the
class set of the tested element on both branches and behind guard clauses.
"""
import ast
import itertools

from sa.core import rule, AnalysisError
from sa.pyindex import get_module, dotted
from rules._pytd_schema import get_schema
from rules import _util_c11c01 as _u

OPT = "pytype/pytd/optimize.py"
UTILS = "pytype/pytd/pytd_utils.py"
CLS = "<class>"
_FUNCS = (ast.FunctionDef, ast.AsyncFunctionDef)
_MAX_ALTS = 24
_MAX_DEPTH = 10

# calls whose result says something about their argument but does not determine it
_LOSSY = {"len", "str", "repr", "bool", "int", "float", "hash", "id", "any", "all",
          "sum", "min", "max", "callable", "isinstance", "issubclass", "abs",
          "format", "ascii", "ord", "chr"}
_ORDER_LOSING = {"set", "frozenset", "sorted"}
_PASS_THROUGH = {"tuple", "list", "reversed", "iter"}
_DICT_CTORS = {"dict", "collections.OrderedDict", "OrderedDict",
               "collections.defaultdict", "defaultdict", "collections.Counter",
               "Counter"}
_SEQ_CTORS = {"collections.deque", "deque"}


# -- abstract values ----------------------------------------------------------------

class Alt:
  """One way a value can have been computed: the element paths it determines
  (`cov`) and, per element source, the classes the element has on that path
  (`roots`)."""
  __slots__ = ("cov", "roots", "imprecise")

  def __init__(self, cov=frozenset(), roots=(), imprecise=False):
    self.cov = frozenset(cov)
    self.roots = tuple(sorted(dict(roots).items()))
    self.imprecise = imprecise

  def key(self):
    return (self.cov, self.roots, self.imprecise)

  def rootmap(self):
    return dict(self.roots)


def _merge_alt(a, b):
  """Both parts were computed on the same path: the element has the classes
  both allow (their union if the two views do not overlap at all)."""
  r = a.rootmap()
  for s, cl in b.roots:
    if s not in r:
      r[s] = cl
    else:
      r[s] = (r[s] & cl) or (r[s] | cl)
  return Alt(a.cov | b.cov, r.items(), a.imprecise or b.imprecise)


def _dedupe(alts):
  seen, out = set(), []
  for a in alts:
    if a.key() not in seen:
      seen.add(a.key())
      out.append(a)
  if len(out) > _MAX_ALTS:
    # collapse: what every alternative determines, with every class it may have
    cov = frozenset.intersection(*[a.cov for a in out])
    roots = {}
    for a in out:
      for s, cl in a.roots:
        roots[s] = roots.get(s, frozenset()) | cl
    out = [Alt(cov, roots.items(), any(a.imprecise for a in out))]
  return tuple(out)


def _product(alt_lists):
  """Alternatives of a value built from several parts (tuple, a + b)."""
  lists = [l for l in alt_lists if l]
  if not lists:
    return ()
  out = list(lists[0])
  for l in lists[1:]:
    out = [_merge_alt(a, b) for a in out for b in l]
    out = list(_dedupe(out))
  return tuple(out)


def _lossy(alts):
  return _dedupe([Alt((), a.roots, a.imprecise) for a in alts])


class ElemRef:
  """The value IS the node at `path` of the current element of `src`."""
  __slots__ = ("src", "path", "classes", "root", "blanked")

  def __init__(self, src_, path, classes, root, blanked=None):
    self.src, self.path = src_, tuple(path)
    self.classes, self.root = frozenset(classes), frozenset(root)
    self.blanked = None if blanked is None else frozenset(blanked)

  def same_place(self, o):
    return o is not None and (self.src, self.path, self.blanked) == \
        (o.src, o.path, o.blanked)


class Box:
  """A mutable container / object, summarised."""
  _n = itertools.count()

  def __init__(self, kind, name="", fn="", line=0):
    self.kind, self.name, self.fn, self.line = kind, name, fn, line
    self.key = None      # join of the keys used with it
    self.val = None      # join of the values stored in it
    self.id = next(Box._n)
    self.key_frames = set()


class AV:
  """What is known about a value: `alts` what it determines of the element(s)
  it was computed from; `elem` it IS that node (or a Replace-copy of it);
  `coll` it is a tuple field of nodes; `tup` a literal tuple; `box` a mutable
  container; `taint` the dicts whose contents flowed into it; `keyof` the dicts
  it was taken out of as a KEY; `it` one element when iterated; `fn` callable."""
  __slots__ = ("alts", "elem", "coll", "tup", "box", "taint", "opaque", "it", "fn",
               "keyof")

  def __init__(self, alts=(), elem=None, coll=None, tup=None, box=None,
               taint=frozenset(), opaque=False, it=None, fn=None, keyof=frozenset()):
    self.alts, self.elem, self.coll, self.tup = tuple(alts), elem, coll, tup
    self.box, self.taint, self.opaque, self.it, self.fn = box, frozenset(taint), opaque, it, fn
    self.keyof = frozenset(keyof)

  def with_(self, **kw):
    d = {s: getattr(self, s) for s in AV.__slots__}
    d.update(kw)
    return AV(**d)


NONE = AV()


def all_taint(av, depth=0):
  if av is None or depth > 4:
    return frozenset()
  t = set(av.taint)
  if av.tup:
    for x in av.tup:
      t |= all_taint(x, depth + 1)
  if av.it is not None:
    t |= all_taint(av.it, depth + 1)
  if av.box is not None and av.box.val is not None and av.box.kind != "dict":
    t |= all_taint(av.box.val, depth + 1)
  return frozenset(t)


def _blank(av):
  """Nothing is known about the value (an unset variable, an unknown result)."""
  return not av.alts and av.elem is None and av.coll is None and av.tup is None \
      and av.box is None and av.it is None and av.fn is None and not av.opaque


def join(a, b):
  if a is None:
    return b
  if b is None or a is b:
    return a
  if _blank(a) or _blank(b):
    # "not yet known" joined with a described value: the described value
    x = b if _blank(a) else a
    return x.with_(taint=a.taint | b.taint, keyof=a.keyof | b.keyof)
  elem = None
  if a.elem is not None and a.elem.same_place(b.elem):
    elem = ElemRef(a.elem.src, a.elem.path, a.elem.classes | b.elem.classes,
                   a.elem.root | b.elem.root, a.elem.blanked)
  coll = a.coll if a.coll == b.coll else (a.coll if b.coll is None and not b.alts
                                           else b.coll if a.coll is None and not a.alts
                                           else None)
  tup = None
  if a.tup is not None and b.tup is not None and len(a.tup) == len(b.tup):
    tup = tuple(join(x, y) for x, y in zip(a.tup, b.tup))
  it = join(a.it, b.it) if (a.it is not None or b.it is not None) else None
  return AV(_dedupe(a.alts + b.alts), elem, coll, tup, a.box or b.box,
            a.taint | b.taint, a.opaque or b.opaque, it, a.fn or b.fn,
            a.keyof | b.keyof)


class Frame:
  def __init__(self, fn, qual):
    self.fn, self.qual = fn, qual
    self.returns, self.yields = [], []
    self.kept = set()     # sources whose whole element was appended / yielded here


# -- schema helpers -----------------------------------------------------------------

class Types:
  def __init__(self, ctx):
    self.sch = sch = get_schema(ctx)
    self.concrete = {c for c in sch.classes if not sch.is_abstract(c)}
    self._by_field = {}
    for c in self.concrete:
      for f in sch.fields(c):
        self._by_field.setdefault(f, set()).add(c)

  def instances_of(self, cname):
    out = {cname} | set(self.sch.subclasses(cname))
    return frozenset(c for c in out if c in self.concrete)

  def fields(self, classes):
    out = []
    for c in sorted(classes):
      for f in self.sch.fields(c):
        if f not in out:
          out.append(f)
    return out

  def field_type(self, classes, f):
    """(node classes, is_tuple) of field f over `classes`; None if no class has it."""
    nodes, tup, found = set(), False, False
    for c in classes:
      fs = self.sch.fields(c)
      if f in fs:
        found = True
        n, _ = self.sch.expand(fs[f][0])
        nodes |= {x for y in n for x in self.instances_of(y)}
        tup = tup or f in self.sch.tuple_fields(c)
    return (frozenset(nodes), tup) if found else None

  def classes_with_field(self, f):
    """Classes that have struct field f, when they all agree on its type."""
    cs = self._by_field.get(f)
    if not cs:
      return None
    types = {self.field_type({c}, f) for c in cs}
    return frozenset(cs) if len(types) == 1 else None

  def method(self, cname, mname):
    for c in [cname] + self.sch.ancestors(cname):
      for st in self.sch.classes[c].node.body:
        if isinstance(st, _FUNCS) and st.name == mname:
          return st
    return None

  def prop(self, cname, attr):
    m = self.method(cname, attr)
    if m is not None and any(dotted(d) == "property" for d in m.decorator_list):
      return m
    return None

  def eq_fields(self, cname, _seen=None):
    """Fields the class's equality reads (all of them if it is generated)."""
    eq = self.method(cname, "__eq__")
    fields = list(self.sch.fields(cname))
    if eq is None:
      return [f for f in fields if not f.startswith("_")]
    out = set()

    def walk(fn, names, seen):
      if fn in seen:
        return
      seen.add(fn)
      for n in ast.walk(fn):
        if isinstance(n, ast.Attribute) and isinstance(n.value, ast.Name) and \
            n.value.id in names:
          if n.attr in fields:
            out.add(n.attr)
          else:
            m = self.method(cname, n.attr)
            if m is not None and m.args.args:
              walk(m, {m.args.args[0].arg}, seen)
    walk(eq, {a.arg for a in eq.args.args[:2]}, set())
    return [f for f in fields if f in out]

  def resolve_class_expr(self, node, mod):
    """Classes named by the 2nd argument of isinstance: pytd.X, X, a tuple of
    them, or a module-level tuple constant of pytd.py (GENERIC_BASE_TYPE)."""
    if isinstance(node, ast.Tuple):
      out = set()
      for e in node.elts:
        r = self.resolve_class_expr(e, mod)
        if r is None:
          return None
        out |= r
      return out
    d = dotted(node)
    if d is None:
      return None
    last = d.split(".")[-1]
    if last in self.sch.classes:
      return {last}
    if last in self.sch.aliases and isinstance(self.sch.aliases[last], ast.Tuple):
      return self.resolve_class_expr(self.sch.aliases[last], mod)
    return None


def covered(ty, cov, s, path, classes, is_tuple=False, depth=0):
  """Paths below (s, path) that `cov` does not determine ([] = determined)."""
  if (s, path) in cov:
    return []
  if depth > 6 or not classes:
    return [path]
  if is_tuple:
    m = covered(ty, cov, s, path + ("*",), classes, False, depth + 1)
    return [path] if m == [path + ("*",)] else m
  if len(classes) > 1 and (s, path + (CLS,)) not in cov:
    return [path]
  missing, partial = [], False
  for f in ty.fields(classes):
    ft = ty.field_type(classes, f)
    m = covered(ty, cov, s, path + (f,), ft[0], ft[1], depth + 1)
    partial = partial or m != [path + (f,)]
    missing += m
  # nothing below this node is determined: name the node, not its fields
  return missing if partial or not missing else [path]


def show_path(path):
  out = ""
  for p in path:
    out += "[*]" if p == "*" else ("." + p if out else p)
  return out or "<the node>"


# -- the interpreter ----------------------------------------------------------------

class Interp:
  def __init__(self, ctx, mod, ty, entry, cls=None):
    self.ctx, self.mod, self.ty, self.entry, self.cls = ctx, mod, ty, entry, cls
    self.methods = _u.methods_mro(mod, cls) if cls else {}
    self.attrs = {}
    self.frames = []
    self.stack = []
    self.sites = []        # merge sites
    self.boxes = []
    self.notes = []

  # .. helpers
  def new_box(self, kind, node):
    b = Box(kind, fn=self.frames[-1].qual if self.frames else "", line=getattr(node, "lineno", 0))
    self.boxes.append(b)
    return b

  def key_use(self, box, k):
    box.key = join(box.key, k)
    if self.frames:
      box.key_frames.add(self.frames[-1])

  def store(self, box, v):
    box.val = join(box.val, v)

  def from_box(self, box, which="val"):
    v = (box.val if which == "val" else box.key) or NONE
    extra = {box} if box.kind == "dict" else set()
    return v.with_(taint=v.taint | extra,
                   keyof=(v.keyof | extra) if which == "key" else frozenset())

  def elem_av(self, ref):
    cov = {(ref.src, ref.path)}
    return AV([Alt(cov, {ref.src: ref.root}.items())], elem=ref)

  def iter_elem(self, av):
    if av.it is not None:
      return av.it.with_(taint=av.it.taint | av.taint)
    if av.coll is not None:
      s, path, classes, root = av.coll
      return self.elem_av(ElemRef(s, path + ("*",) if path or not s.startswith("<") else path,
                                  classes, root if path else classes)).with_(taint=av.taint)
    if av.box is not None:
      # (a list literal is also a box: it may have grown since it was written)
      if av.box.kind == "dict":
        return self.from_box(av.box, "key")
      return self.from_box(av.box).with_(taint=(av.box.val or NONE).taint | av.taint)
    if av.tup is not None:
      out = None
      for x in av.tup:
        out = join(out, x)
      return (out or NONE).with_(taint=(out or NONE).taint | av.taint)
    return AV(taint=av.taint, opaque=av.opaque, alts=_lossy(av.alts))

  def unknown(self, parts, opaque=None):
    taint, alts, op = set(), [], False
    for p in parts:
      if p is None:
        continue
      taint |= all_taint(p)
      alts += list(p.alts)
      if p.it is not None:
        alts += list(p.it.alts)
      op = op or p.opaque
    derived = bool(alts)
    return AV(_lossy(alts), taint=taint, opaque=derived if opaque is None else opaque or op)

  # .. narrowing
  def narrow(self, env, test, pol):
    """Refine env for `test` having truth value pol (isinstance / exact class
    tests on names bound to elements)."""
    while isinstance(test, ast.UnaryOp) and isinstance(test.op, ast.Not):
      test, pol = test.operand, not pol
    if isinstance(test, ast.BoolOp):
      if isinstance(test.op, ast.And) == pol:
        for v in test.values:
          self.narrow(env, v, pol)
      return
    name, classes, exact = None, None, False
    if isinstance(test, ast.Call) and dotted(test.func) == "isinstance" and \
        len(test.args) == 2 and isinstance(test.args[0], ast.Name):
      name = test.args[0].id
      classes = self.ty.resolve_class_expr(test.args[1], self.mod)
      if classes is None:
        self._imprecise(env, name)
        return
      classes = frozenset(x for c in classes for x in self.ty.instances_of(c))
    elif isinstance(test, ast.Compare) and len(test.ops) == 1 and \
        isinstance(test.ops[0], (ast.Is, ast.Eq, ast.IsNot, ast.NotEq)):
      l, r = test.left, test.comparators[0]
      for a, b in ((l, r), (r, l)):
        n = None
        if isinstance(a, ast.Call) and dotted(a.func) == "type" and len(a.args) == 1 \
            and isinstance(a.args[0], ast.Name):
          n = a.args[0].id
        elif isinstance(a, ast.Attribute) and a.attr == "__class__" and \
            isinstance(a.value, ast.Name):
          n = a.value.id
        if n is not None:
          cl = self.ty.resolve_class_expr(b, self.mod)
          if cl is not None and len(cl) == 1:
            name, classes, exact = n, frozenset(cl), True
            if isinstance(test.ops[0], (ast.IsNot, ast.NotEq)):
              pol = not pol
    if name is None or name not in env or env[name].elem is None:
      return
    av = env[name]
    ref = av.elem
    new = (ref.classes & classes) if pol else (ref.classes - classes)
    if not pol and exact:
      new = ref.classes - classes
    root = new if not ref.path else ref.root
    nref = ElemRef(ref.src, ref.path, new, root, ref.blanked)
    alts = []
    for a in av.alts:
      r = a.rootmap()
      if not ref.path and ref.src in r:
        r[ref.src] = new
      alts.append(Alt(a.cov, r.items(), a.imprecise))
    env[name] = av.with_(elem=nref, alts=_dedupe(alts))

  def _imprecise(self, env, name):
    if name in env and env[name].elem is not None:
      av = env[name]
      env[name] = av.with_(alts=tuple(Alt(a.cov, a.roots, True) for a in av.alts))

  # .. statements
  def exec_block(self, stmts, env):
    for st in stmts:
      if self.exec_stmt(st, env):
        return True
    return False

  def exec_stmt(self, st, env):
    if isinstance(st, ast.Expr):
      self.eval(st.value, env)
    elif isinstance(st, ast.Assign):
      v = self.eval(st.value, env)
      for t in st.targets:
        self.assign(t, v, env, st)
    elif isinstance(st, ast.AnnAssign):
      if st.value is not None:
        self.assign(st.target, self.eval(st.value, env), env, st)
    elif isinstance(st, ast.AugAssign):
      cur = self.eval(self._as_load(st.target), env)
      v = self.eval(st.value, env)
      if cur.box is not None and cur.box.kind in ("list", "set", "deque"):
        self.store(cur.box, self.iter_elem(v))
      elif cur.box is not None and cur.box.kind == "dict":
        if v.box is not None and v.box.kind == "dict":
          cur.box.key = join(cur.box.key, v.box.key)
          self.store(cur.box, v.box.val or NONE)
      else:
        self.assign(st.target, self.binop(cur, v, st.op), env, st)
    elif isinstance(st, ast.If):
      self.eval(st.test, env)
      e1, e2 = dict(env), dict(env)
      self.narrow(e1, st.test, True)
      self.narrow(e2, st.test, False)
      t1 = self.exec_block(st.body, e1)
      t2 = self.exec_block(st.orelse, e2)
      if t1 and t2:
        return True
      self._merge_env(env, None if t1 else e1, None if t2 else e2)
    elif isinstance(st, (ast.For, ast.AsyncFor)):
      it = self.eval(st.iter, env)
      for _ in range(2):
        e = dict(env)
        self.assign(st.target, self.iter_elem(it), e, st)
        self.exec_block(st.body, e)
        self._merge_env(env, dict(env), e)
      self.exec_block(st.orelse, env)
    elif isinstance(st, ast.While):
      for _ in range(2):
        self.eval(st.test, env)
        e = dict(env)
        self.narrow(e, st.test, True)
        self.exec_block(st.body, e)
        self._merge_env(env, dict(env), e)
      self.exec_block(st.orelse, env)
    elif isinstance(st, ast.Return):
      v = self.eval(st.value, env) if st.value is not None else NONE
      self.frames[-1].returns.append(v)
      return True
    elif isinstance(st, (ast.Continue, ast.Break)):
      return True
    elif isinstance(st, ast.Raise):
      if st.exc is not None:
        self.eval(st.exc, env)
      return True
    elif isinstance(st, ast.Try):
      e0 = dict(env)
      self.exec_block(st.body, env)
      for h in st.handlers:
        e = dict(e0)
        self._merge_env(e, dict(e), dict(env))
        if not self.exec_block(h.body, e):
          self._merge_env(env, dict(env), e)
      self.exec_block(st.orelse, env)
      self.exec_block(st.finalbody, env)
    elif isinstance(st, (ast.With, ast.AsyncWith)):
      for item in st.items:
        v = self.eval(item.context_expr, env)
        if item.optional_vars is not None:
          self.assign(item.optional_vars, v, env, st)
      return self.exec_block(st.body, env)
    elif isinstance(st, _FUNCS):
      env[st.name] = AV(fn=("closure", st, env))
    elif isinstance(st, ast.Assert):
      self.eval(st.test, env)
      self.narrow(env, st.test, True)
    elif isinstance(st, ast.Match):
      self.eval(st.subject, env)
      for c in st.cases:
        e = dict(env)
        self.exec_block(c.body, e)
        self._merge_env(env, dict(env), e)
    return False

  def _as_load(self, t):
    import copy
    t = copy.copy(t)
    t.ctx = ast.Load()
    return t

  def _merge_env(self, env, e1, e2):
    if e1 is None and e2 is None:
      return
    if e1 is None or e2 is None:
      e = e1 or e2
      env.clear()
      env.update(e)
      return
    out = {}
    for k in set(e1) | set(e2):
      a, b = e1.get(k), e2.get(k)
      out[k] = a if b is None else b if a is None else join(a, b)
    env.clear()
    env.update(out)

  def assign(self, target, v, env, st):
    if isinstance(target, ast.Name):
      if v.box is not None and not v.box.name:
        v.box.name = target.id
      env[target.id] = v
    elif isinstance(target, (ast.Tuple, ast.List)):
      n = len(target.elts)
      parts = None
      if v.tup is not None and len(v.tup) == n and \
          not any(isinstance(e, ast.Starred) for e in target.elts):
        parts = [x.with_(taint=x.taint | v.taint) for x in v.tup]
      for i, e in enumerate(target.elts):
        if isinstance(e, ast.Starred):
          e = e.value
        self.assign(e, parts[i] if parts else self.unknown([v]), env, st)
    elif isinstance(target, ast.Subscript):
      b = self.eval(target.value, env)
      k = self.eval(target.slice, env)
      if b.box is not None:
        if b.box.kind == "dict":
          self.key_use(b.box, k)
        self.store(b.box, v)
    elif isinstance(target, ast.Attribute):
      if isinstance(target.value, ast.Name) and target.value.id == "self" and self.cls:
        if v.box is not None and not v.box.name:
          v.box.name = "self." + target.attr
        self.attrs[target.attr] = join(self.attrs.get(target.attr), v)
      else:
        b = self.eval(target.value, env)
        if b.box is not None:
          self.store(b.box, v)

  # .. expressions
  def eval(self, e, env):
    m = getattr(self, "e_" + type(e).__name__, None)
    if m is None:
      return self.unknown([self.eval(c, env) for c in ast.iter_child_nodes(e)
                           if isinstance(c, ast.expr)])
    return m(e, env)

  def e_Constant(self, e, env):
    return NONE

  def e_Name(self, e, env):
    if e.id in env:
      return env[e.id]
    return NONE

  def e_Tuple(self, e, env):
    parts = [self.eval(x.value if isinstance(x, ast.Starred) else x, env) for x in e.elts]
    return AV(_product([p.alts for p in parts]), tup=tuple(parts),
              taint=frozenset().union(*[all_taint(p) for p in parts]) if parts else (),
              opaque=any(p.opaque for p in parts))

  def e_List(self, e, env):
    t = self.e_Tuple(e, env)
    b = self.new_box("list", e)
    for p in t.tup:
      self.store(b, p)
    return t.with_(box=b)

  def e_Set(self, e, env):
    parts = [self.eval(x, env) for x in e.elts]
    b = self.new_box("set", e)
    for p in parts:
      self.store(b, p)
    return AV(_lossy([a for p in parts for a in p.alts]), box=b)

  def e_Dict(self, e, env):
    b = self.new_box("dict", e)
    for k, v in zip(e.keys, e.values):
      if k is not None:
        b.key = join(b.key, self.eval(k, env))
      self.store(b, self.eval(v, env))
    return AV(box=b)

  def e_Attribute(self, e, env):
    if isinstance(e.value, ast.Name) and e.value.id == "self" and self.cls and \
        "self" in env and env["self"].fn == ("self",):
      if e.attr in self.attrs:
        return self.attrs[e.attr]
      if e.attr in self.methods:
        return AV(fn=("method", self.methods[e.attr]))
      return NONE
    v = self.eval(e.value, env)
    return self.attr_of(v, e.attr, env)

  def attr_of(self, v, attr, env):
    ty = self.ty
    if v.elem is not None:
      ref = v.elem
      if attr == "__class__":
        return AV([Alt({(ref.src, ref.path + (CLS,))}, {ref.src: ref.root}.items())],
                  taint=v.taint)
      ft = ty.field_type(ref.classes, attr)
      if ft is not None and (ref.blanked is None or attr not in ref.blanked):
        path = ref.path + (attr,)
        alts = [Alt({(ref.src, path)}, {ref.src: ref.root}.items())]
        nodes, is_tuple = ft
        if is_tuple and nodes and ref.src.startswith("visit:") and not ref.path:
          # a collection of the visited node: its elements are what the
          # visitor groups / de-duplicates - a source of its own
          return AV(coll=(f"<{attr}>", (), nodes, nodes), taint=v.taint)
        if is_tuple and nodes:
          return AV(alts, coll=(ref.src, path, nodes, ref.root), taint=v.taint)
        if nodes:
          return AV(alts, elem=ElemRef(ref.src, path, nodes, ref.root), taint=v.taint)
        return AV(alts, taint=v.taint)
      if ft is not None:
        return AV(taint=v.taint)       # a blanked field: a constant
      props = [ty.prop(c, attr) for c in sorted(ref.classes)]
      if props and all(p is not None for p in props):
        out = None
        for p in {id(p): p for p in props}.values():
          out = join(out, self.call_def(p, [v], {}, {}, None, "property " + attr))
        return out
      if attr == "Replace" or attr == "Visit":
        return AV(fn=("nodemethod", attr, v), taint=v.taint)
      return self.unknown([v], opaque=True)
    if v.box is not None and v.box.kind == "obj":
      return self.from_box(v.box).with_(box=None, taint=all_taint(v) | {v.box})
    if v.box is not None or v.tup is not None or v.fn is not None:
      return AV(fn=("boxmethod", attr, v), taint=v.taint, box=None)
    if attr in ("__name__", "__qualname__") and v.alts:
      return v
    # an untyped receiver (a parameter, the result of a call the rule does not
    # follow): typed by the (unambiguous) schema field name
    cs = ty.classes_with_field(attr)
    if cs is not None:
      nodes, is_tuple = ty.field_type(cs, attr)
      if is_tuple and nodes:
        s = f"<{attr}>"
        return AV(coll=(s, (), nodes, nodes), taint=all_taint(v))
    if v.alts or v.opaque:
      return self.unknown([v], opaque=True)
    return AV(taint=v.taint, fn=("attr", attr, v))

  def e_Subscript(self, e, env):
    v = self.eval(e.value, env)
    k = self.eval(e.slice, env) if not isinstance(e.slice, ast.Slice) else NONE
    if v.box is not None and v.box.kind == "dict":
      self.key_use(v.box, k)
      return self.from_box(v.box)
    if isinstance(e.slice, ast.Slice):
      return v
    if v.tup is not None and v.box is None and isinstance(e.slice, ast.Constant) and \
        isinstance(e.slice.value, int) and -len(v.tup) <= e.slice.value < len(v.tup):
      x = v.tup[e.slice.value]
      return x.with_(taint=x.taint | v.taint)
    if v.coll is not None or v.it is not None or v.box is not None or v.tup is not None:
      return self.iter_elem(v)
    return self.unknown([v, k])

  def e_Starred(self, e, env):
    return self.eval(e.value, env)

  def e_BinOp(self, e, env):
    return self.binop(self.eval(e.left, env), self.eval(e.right, env), e.op)

  def binop(self, a, b, op):
    taint = all_taint(a) | all_taint(b)
    if isinstance(op, ast.Add):
      tup = a.tup + b.tup if a.tup is not None and b.tup is not None else None
      it = join(a.it if a.it is not None else (self.iter_elem(a) if a.tup or a.coll else None),
                b.it if b.it is not None else (self.iter_elem(b) if b.tup or b.coll else None))
      return AV(_product([a.alts, b.alts]), tup=tup, taint=taint,
                opaque=a.opaque or b.opaque, it=it, box=a.box if a.box and a.box.kind == "list" else None)
    return AV(_lossy(a.alts + b.alts), taint=taint, opaque=a.opaque or b.opaque)

  def e_BoolOp(self, e, env):
    out = None
    e2 = dict(env)
    for v in e.values:
      out = join(out, self.eval(v, e2))
      self.narrow(e2, v, isinstance(e.op, ast.And))
    return out

  def e_UnaryOp(self, e, env):
    v = self.eval(e.operand, env)
    return AV(_lossy(v.alts), taint=v.taint)

  def e_IfExp(self, e, env):
    self.eval(e.test, env)
    e1, e2 = dict(env), dict(env)
    self.narrow(e1, e.test, True)
    self.narrow(e2, e.test, False)
    return join(self.eval(e.body, e1), self.eval(e.orelse, e2))

  def e_NamedExpr(self, e, env):
    v = self.eval(e.value, env)
    self.assign(e.target, v, env, e)
    return v

  def e_Compare(self, e, env):
    l = self.eval(e.left, env)
    parts = [l]
    for op, c in zip(e.ops, e.comparators):
      r = self.eval(c, env)
      parts.append(r)
      if isinstance(op, (ast.In, ast.NotIn)) and r.box is not None and \
          r.box.kind in ("dict", "set"):
        self.key_use(r.box, l)
      l = r
    return AV(_lossy([a for p in parts for a in p.alts]),
              taint=frozenset().union(*[p.taint for p in parts]))

  def e_JoinedStr(self, e, env):
    parts = [self.eval(v.value, env) for v in e.values if isinstance(v, ast.FormattedValue)]
    return AV(_lossy([a for p in parts for a in p.alts]))

  def e_Lambda(self, e, env):
    return AV(fn=("lambda", e, env))

  def e_Yield(self, e, env):
    v = self.eval(e.value, env) if e.value is not None else NONE
    self._kept(v)
    self.frames[-1].yields.append(v)
    return NONE

  def e_YieldFrom(self, e, env):
    v = self.iter_elem(self.eval(e.value, env))
    self._kept(v)
    self.frames[-1].yields.append(v)
    return NONE

  def e_Await(self, e, env):
    return self.eval(e.value, env)

  def _kept(self, v):
    if v.elem is not None and v.elem.blanked is None and self.frames:
      self.frames[-1].kept.add((v.elem.src, v.elem.path))

  def _comp(self, e, env, elts):
    env = dict(env)
    taint = set()
    for g in e.generators:
      it = self.eval(g.iter, env)
      taint |= all_taint(it)
      self.assign(g.target, self.iter_elem(it), env, e)
      for cond in g.ifs:
        self.eval(cond, env)
        self.narrow(env, cond, True)
    return [self.eval(x, env) for x in elts], frozenset(taint)

  def e_GeneratorExp(self, e, env):
    (elt,), taint = self._comp(e, env, [e.elt])
    return AV(elt.alts, taint=taint | all_taint(elt), opaque=elt.opaque, it=elt)

  def e_ListComp(self, e, env):
    v = self.e_GeneratorExp(e, env)
    b = self.new_box("list", e)
    self.store(b, v.it)
    return v.with_(box=b)

  def e_SetComp(self, e, env):
    v = self.e_GeneratorExp(e, env)
    return v.with_(alts=_lossy(v.alts))

  def e_DictComp(self, e, env):
    (k, v), taint = self._comp(e, env, [e.key, e.value])
    b = self.new_box("dict", e)
    b.key = k
    self.store(b, v.with_(taint=v.taint | taint))
    return AV(box=b)

  # .. calls
  def e_Call(self, e, env):
    d = dotted(e.func)
    args = [self.eval(a.value if isinstance(a, ast.Starred) else a, env) for a in e.args]
    kws = {k.arg: self.eval(k.value, env) for k in e.keywords if k.arg is not None}
    star = [self.eval(k.value, env) for k in e.keywords if k.arg is None]
    every = args + list(kws.values()) + star
    last = (d or "").split(".")[-1]
    if d is not None and "." not in d and d not in env:
      r = self.builtin(d, e, args, kws, env)
      if r is not None:
        return r
    if d in _DICT_CTORS and (d not in env):
      b = self.new_box("dict", e)
      if last == "defaultdict" and e.args:
        # every missing key starts as one (summarised) fresh container
        factory = dotted(e.args[0]) or ""
        kind = {"list": "list", "set": "set", "dict": "dict", "collections.deque": "deque",
                "deque": "deque"}.get(factory)
        if kind:
          b.val = AV(box=self.new_box(kind, e))
        args = args[1:]
      for a in args:
        if a.box is not None and a.box.kind == "dict":
          b.key, b.val = join(b.key, a.box.key), join(b.val, a.box.val)
        elif a.it is not None or a.coll is not None or a.box is not None:
          b.key = join(b.key, self.iter_elem(a))
      return AV(box=b)
    if d in _SEQ_CTORS and d not in env:
      b = self.new_box("deque", e)
      if args:
        self.store(b, self.iter_elem(args[0]))
        return args[0].with_(box=b, alts=(), it=self.iter_elem(args[0]))
      return AV(box=b)
    # node constructors
    if last in self.ty.sch.classes and (d == last or d.endswith("pytd." + last)) and \
        last not in self.mod.classes:
      return self.node_ctor(e, last, args, kws)
    f = self.eval(e.func, env)
    if f.fn is not None:
      kind = f.fn[0]
      if kind == "closure":
        return self.call_def(f.fn[1], args, kws, f.fn[2], None, f.fn[1].name)
      if kind == "lambda":
        lam = f.fn[1]
        e2 = dict(f.fn[2])
        for p, a in zip(lam.args.args, args):
          e2[p.arg] = a
        return self.eval(lam.body, e2)
      if kind == "method":
        return self.call_def(f.fn[1], [env.get("self", NONE)] + args, kws, {}, self.cls,
                             f"{self.cls}.{f.fn[1].name}")
      if kind == "nodemethod":
        if f.fn[1] == "Replace":
          return self.replace_site(e, f.fn[2], kws, star)
        return self.unknown([f.fn[2]] + every, opaque=False)
      if kind == "boxmethod":
        return self.box_method(e, f.fn[2], f.fn[1], args, kws)
      if kind == "attr":
        return self.unknown(every + [f.fn[2]])
    if d is not None and "." not in d and d in self.mod.functions and d not in env:
      return self.call_def(self.mod.functions[d], args, kws, {}, None, d)
    if d is not None and "." not in d and d in self.mod.classes and d not in env:
      b = self.new_box("obj", e)
      for a in every:
        self.store(b, a)
      return AV(box=b)
    return self.unknown(every + [f])

  def builtin(self, d, e, args, kws, env):
    a0 = args[0] if args else NONE
    if d == "type" and len(args) == 1:
      return self.attr_of(a0, "__class__", env) if a0.elem is not None else self.unknown([a0])
    if d in _LOSSY:
      return AV(_lossy([a for p in args for a in p.alts] +
                       [a for p in args if p.it is not None for a in p.it.alts]),
                taint=frozenset().union(*[all_taint(p) for p in args]) if args else ())
    if d in _PASS_THROUGH and len(args) <= 1:
      if not args:
        return AV(box=self.new_box("list", e)) if d == "list" else NONE
      it = self.iter_elem(a0) if (a0.it is not None or a0.coll is not None or
                                  a0.tup is not None or a0.box is not None) else None
      out = a0.with_(it=it, box=None, fn=None)
      if it is not None and not a0.alts and a0.tup is None and a0.coll is None:
        out = out.with_(alts=it.alts)
      if d == "list":
        b = self.new_box("list", e)
        if it is not None:
          self.store(b, it)
        out = out.with_(box=b)
      return out
    if d in _ORDER_LOSING and len(args) >= 1:
      it = self.iter_elem(a0)
      out = AV(_lossy(a0.alts + it.alts), taint=all_taint(a0), it=it)
      if d != "sorted":
        b = self.new_box("set", e)
        self.store(b, it)
        out = out.with_(box=b)
      return out
    if d == "set" and not args:
      return AV(box=self.new_box("set", e))
    if d == "dict":
      return None
    if d == "zip":
      return AV(it=AV(tup=tuple(self.iter_elem(a) for a in args)),
                taint=frozenset().union(*[all_taint(a) for a in args]) if args else ())
    if d == "enumerate" and args:
      return AV(it=AV(tup=(NONE, self.iter_elem(a0))), taint=all_taint(a0))
    if d == "next" and args:
      return self.iter_elem(a0)
    if d == "getattr" and len(e.args) >= 2 and isinstance(e.args[1], ast.Constant):
      return self.attr_of(a0, e.args[1].value, env)
    if d in ("print", "super", "object", "NotImplementedError", "AssertionError",
             "ValueError", "KeyError", "TypeError", "range"):
      return NONE
    return None

  def box_method(self, e, recv, name, args, kws):
    a0 = args[0] if args else NONE
    b = recv.box
    if b is None:
      return self.unknown([recv] + args)
    if b.kind == "dict":
      if name in ("get", "pop"):
        self.key_use(b, a0)
        out = self.from_box(b)
        return join(out, args[1]) if len(args) > 1 else out
      if name == "setdefault":
        self.key_use(b, a0)
        if len(args) > 1:
          self.store(b, args[1])
        return self.from_box(b)
      if name == "items":
        return AV(it=AV(tup=(self.from_box(b, "key").with_(taint=(b.key or NONE).taint | {b}),
                             self.from_box(b))), taint={b})
      if name == "values":
        return AV(it=self.from_box(b), taint={b})
      if name == "keys":
        return AV(it=self.from_box(b, "key").with_(taint=(b.key or NONE).taint | {b}), taint={b})
      if name == "update":
        for a in args:
          if a.box is not None and a.box.kind == "dict":
            b.key, b.val = join(b.key, a.box.key), join(b.val, a.box.val)
          else:
            self.key_use(b, self.iter_elem(a))
        return NONE
      if name in ("copy",):
        return recv
      return self.unknown([recv] + args, opaque=False)
    if b.kind == "set":
      if name == "add":
        self.key_use(b, a0)
        self.store(b, a0)
        return NONE
      if name in ("update", "union", "intersection_update", "difference_update",
                  "intersection", "difference", "discard", "remove", "copy", "clear"):
        for a in args:
          self.store(b, self.iter_elem(a))
        return recv
      return self.unknown([recv] + args, opaque=False)
    if b.kind in ("list", "deque"):
      if name in ("append", "appendleft", "insert"):
        v = args[-1] if args else NONE
        self._kept(v)
        self.store(b, v)
        return NONE
      if name in ("extend", "extendleft"):
        v = self.iter_elem(a0)
        self._kept(v)
        self.store(b, v)
        return NONE
      if name in ("pop", "popleft"):
        return self.iter_elem(recv) if recv.coll is not None else self.from_box(b)
      if name in ("copy", "sort", "reverse", "clear", "index", "count"):
        return recv if name == "copy" else NONE
      return self.unknown([recv] + args, opaque=False)
    # an instance of a module-local helper class: it absorbs what it is handed
    for a in args + list(kws.values()):
      self.store(b, a)
    return AV(taint=all_taint(recv) | {b})

  def call_def(self, fn, args, kws, closure, cls, qual):
    if fn in self.stack or len(self.stack) >= _MAX_DEPTH:
      # recursion: the call determines what its first real argument determines
      real = [a for a in args if a.fn != ("self",)]
      if fn in self.stack:
        return real[0].with_(elem=None, coll=None, tup=None, box=None, it=None, fn=None) \
            if real else NONE
      return self.unknown(args + list(kws.values()), opaque=True)
    env = dict(closure) if closure else {}
    a = fn.args
    params = a.posonlyargs + a.args
    for p in params:
      env[p.arg] = NONE          # (defaults are constants / None here)
    for p, v in zip(params, args):
      env[p.arg] = v
    for p in a.kwonlyargs:
      env[p.arg] = NONE
    for k, v in kws.items():
      env[k] = v
    if a.vararg:
      env[a.vararg.arg] = AV(it=self.unknown(args[len(params):]) if len(args) > len(params) else NONE)
    if a.kwarg:
      env[a.kwarg.arg] = NONE
    fr = Frame(fn, qual)
    self.frames.append(fr)
    self.stack.append(fn)
    try:
      self.exec_block(fn.body, env)
    finally:
      self.stack.pop()
      self.frames.pop()
    is_gen = any(isinstance(n, (ast.Yield, ast.YieldFrom)) for n in _own_nodes(fn))
    if is_gen:
      it = None
      for y in fr.yields:
        it = join(it, y)
      return AV(it=it or NONE, taint=all_taint(it) if it is not None else ())
    out = None
    for r in fr.returns:
      out = join(out, r)
    return out or NONE

  # .. sites
  def replace_site(self, e, recv, kws, star):
    ref = recv.elem
    ty = self.ty
    fields = ty.fields(ref.classes)
    kw_taint = frozenset().union(*[all_taint(v) for v in kws.values()]) if kws else frozenset()
    kept = [f for f in fields if f not in kws]
    if star:
      kept = []      # **kwargs: anything may be replaced
    blanked = (ref.blanked or frozenset()) | set(kws)
    # what the copy determines of the element: the fields it keeps (as far as
    # the receiver determined them) + whatever the new values determine
    new_alts = []
    for a in recv.alts or ():
      c = set()
      whole = (ref.src, ref.path) in a.cov
      for f in fields:
        if f in kws:
          continue
        if whole or (ref.src, ref.path + (f,)) in a.cov:
          c.add((ref.src, ref.path + (f,)))
        else:
          c |= {x for x in a.cov if x[0] == ref.src and x[1][:len(ref.path) + 1] == ref.path + (f,)}
      if whole or (ref.src, ref.path + (CLS,)) in a.cov or len(ref.classes) == 1:
        c.add((ref.src, ref.path + (CLS,)))
      c |= {x for x in a.cov if x[0] != ref.src}
      new_alts.append(Alt(c, a.roots, a.imprecise))
    val_alts = _product([v.alts for v in kws.values()]) if kws else ()
    alts = _product([new_alts, val_alts]) if val_alts else tuple(new_alts)
    self.sites.append({
        "node": e, "recv": recv, "kept": kept, "kw": sorted(kws), "kw_taint": kw_taint,
        "frame": self.frames[-1].qual if self.frames else "", "kind": "Replace"})
    return AV(_dedupe(alts), elem=ElemRef(ref.src, ref.path, ref.classes, ref.root, blanked),
              taint=all_taint(recv) | kw_taint)

  def node_ctor(self, e, cname, args, kws):
    fields = self.ty.fields({cname})
    given = dict(zip(fields, args))
    given.update(kws)
    taint = frozenset().union(*[all_taint(v) for v in given.values()]) if given else frozenset()
    copied = []
    for f, v in given.items():
      # the argument IS a field of an element (`first.params`): taken over as it is
      r = None
      if v.elem is not None and v.elem.blanked is None:
        r = (v.elem.src, v.elem.path, v.elem.classes, False)
      elif v.coll is not None:
        r = (v.coll[0], v.coll[1], v.coll[2], True)
      if r is not None and r[1] and r[1][-1] != "*" \
          and (r[0], r[1]) in {x for a in v.alts for x in a.cov}:
        copied.append((f, r, v))
    if copied:
      self.sites.append({
          "node": e, "ctor": cname, "copied": copied, "given": given,
          "frame": self.frames[-1].qual if self.frames else "", "kind": "constructor"})
    return AV(_product([v.alts for v in given.values()]), taint=taint,
              opaque=any(v.opaque for v in given.values()))


def _own_nodes(fn):
  todo = list(fn.body)
  while todo:
    n = todo.pop()
    yield n
    if isinstance(n, _FUNCS + (ast.Lambda, ast.ClassDef)):
      continue
    todo.extend(ast.iter_child_nodes(n))


# -- running it ------------------------------------------------------------------------

def _hook_class(ty, name):
  for pre in ("Visit", "Enter", "Leave"):
    if name.startswith(pre) and name[len(pre):] in ty.sch.classes:
      return name[len(pre):]
  return None


def _visitor_classes(mod, ty):
  out = []
  for cname, cd in mod.classes.items():
    if cd not in mod.tree.body:
      continue
    meths = _u.methods_mro(mod, cname)
    hooks = [(n, m) for n, m in meths.items() if _hook_class(ty, n)
             and len(m.args.args) >= 2]
    if hooks:
      out.append((cname, sorted(hooks, key=lambda x: (not x[0].startswith("Enter"),
                                                      x[1].lineno))))
  return out


def analyse(ctx):
  """Interprets every visitor class of optimize.py and pytd_utils.JoinTypes.
  -> list of (entry name, rel, Interp)."""
  def make():
    ty = Types(ctx)
    out = []
    mod = get_module(ctx, OPT)
    for cname, hooks in _visitor_classes(mod, ty):
      it = Interp(ctx, mod, ty, cname, cname)
      for name, m in hooks:
        node_cls = _hook_class(ty, name)
        ref = ElemRef(f"visit:{node_cls}", (), {node_cls} if node_cls in ty.concrete
                      else ty.instances_of(node_cls), {node_cls})
        self_av = AV(fn=("self",))
        extra = [NONE] * (len(m.args.args) - 2)
        it.call_def(m, [self_av, it.elem_av(ref)] + extra, {}, {}, cname, f"{cname}.{name}")
      out.append((cname, OPT, it))
    um = get_module(ctx, UTILS)
    jt = um.func("JoinTypes")
    if not jt.args.args:
      raise AnalysisError("pytd_utils.JoinTypes has no parameter")
    it = Interp(ctx, um, ty, "JoinTypes")
    members = frozenset(c for c in ty.sch.alias_members("TypeU") if c in ty.concrete)
    coll = AV(coll=("<JoinTypes:members>", (), members, members))
    it.call_def(jt, [coll], {}, {}, None, "JoinTypes")
    out.append(("JoinTypes", UTILS, it))
    return ty, out
  return ctx.memo(("c11keys",), make)


def _mentions(av, s):
  return av is not None and any(s in a.rootmap() for a in av.alts)


def _gov_boxes(taint, s):
  return [b for b in taint if b.kind == "dict" and _mentions(b.key, s)]


def _governing(entry, boxes):
  if any(b.key.opaque for b in boxes):
    raise AnalysisError(
        f"{entry}: the group key of `{boxes[0].name}` is computed from the "
        "element in a way the rule does not model")
  return [(f"the key of `{b.name or 'the group dict'}`", b.key.alts) for b in boxes]


def _merge_site(ty, entry, site):
  """-> (element source, [(field, path, classes, is_tuple)] taken over from one
  member, [(description, alternatives of the governing key)], text) or None when
  the site does not merge a group."""
  if site["kind"] == "Replace":
    recv = site["recv"]
    ref = recv.elem
    if ref.src.startswith("visit:"):
      return None
    taint = all_taint(recv) | site["kw_taint"]
    kept = site["kept"]
    if ref.blanked is not None and recv.keyof:
      # the receiver is the stripped copy the members were grouped by, taken
      # out of the group dict as its key: it carries what the key determines
      boxes = sorted(recv.keyof, key=lambda b: b.id)
      govs = [("the stripped copy the members are grouped by", recv.alts)]
    else:
      # a member (or a local copy of one: what was replaced before is not
      # taken over from it)
      boxes = _gov_boxes(taint, ref.src)
      if not boxes:
        return None
      govs = _governing(entry, boxes)
      kept = [f for f in kept if f not in (ref.blanked or ())]
    need = [(f, ref.path + (f,)) + ty.field_type(ref.classes, f) for f in kept]
    what = (f"{'/'.join(sorted(ref.classes))}.Replace("
            f"{', '.join(k + '=..' for k in site['kw'])})")
    return ref.src, need, govs, what, boxes
  taint = frozenset().union(*[all_taint(x) for x in site["given"].values()])
  s, need, govs, held = None, [], [], []
  for f, r, _ in site["copied"]:
    boxes = _gov_boxes(taint, r[0])
    if not boxes or r[0].startswith("visit:") or (s is not None and r[0] != s):
      continue
    s = r[0]
    held += [b for b in boxes if b not in held]
    need.append((f, r[1], r[2], r[3]))
    for g in _governing(entry, boxes):
      if g not in govs:
        govs.append(g)
  if not govs:
    return None
  return s, need, govs, f"pytd.{site['ctor']}(..)", held


@rule("R11.21", "C11", floor=2)
def r11_21(ctx):
  """What a merged node takes over from one member of its group is determined
  by the group's key."""
  ty, runs = analyse(ctx)
  for entry, rel, it in runs:
    results = {}
    for site in it.sites:
      ms = _merge_site(ty, entry, site)
      if ms is None:
        continue
      s, need, govs, what, _ = ms
      missing, imprecise = [], False
      for gname, alts in govs:
        for a in alts:
          if s not in a.rootmap() and not a.cov:
            continue
          for f, path, classes, is_tuple in need:
            for mpath in covered(ty, a.cov, s, path, classes, is_tuple):
              missing.append((gname, show_path(mpath)))
              imprecise = imprecise or a.imprecise
      construct = f"{entry}:{s}:merged-node-keeps-only-what-the-key-determines"
      r = results.setdefault(construct, {"missing": [], "sites": [], "line": site["node"].lineno,
                                         "imprecise": False})
      r["missing"] += [m for m in missing if m not in r["missing"]]
      r["imprecise"] = r["imprecise"] or imprecise
      text = (f"{site['frame']}: {what} keeps {[n[0] for n in need]} from one member; "
              f"governed by {[g for g, _ in govs]}")
      if text not in r["sites"]:
        r["sites"].append(text)
    for construct, r in sorted(results.items()):
      if r["missing"] and r["imprecise"]:
        raise AnalysisError(f"{construct}: an isinstance test on the element names "
                            "a class the rule cannot resolve")
      paths = sorted({m for _, m in r["missing"]})
      ctx.check(not r["missing"], construct, rel, r["line"],
                f"{entry} merges the members of a group into one node that takes "
                f"{paths} over from a single member, but the key the members are "
                f"grouped by ({sorted({g for g, _ in r['missing']})}) does not "
                "determine it: members that differ there are merged and the "
                "merged node keeps only the first one's value - every declared "
                "type the others admitted through it is lost (the optimised "
                "stub is narrower)",
                {"merge_sites": r["sites"], "not_determined_by_key": paths})


@rule("R11.22", "C11", floor=1)
def r11_22(ctx):
  """A key under which an element is dropped as a duplicate determines the
  element (its class and every field its equality reads)."""
  ty, runs = analyse(ctx)
  found_join = False
  for entry, rel, it in runs:
    # dicts that hold the groups of a merge (R11.21 judges their keys)
    grouping = []
    for site in it.sites:
      ms = _merge_site(ty, entry, site)
      if ms is not None:
        grouping += [b for b in ms[4] if b not in grouping]
    group_keys = [tuple(sorted(a.key() for a in b.key.alts)) for b in grouping
                  if b.key is not None]
    results = {}
    for b in it.boxes:
      if b.kind not in ("set", "dict") or b.key is None or not b.key.alts or b in grouping:
        continue
      # the marker set of a grouping (`done`: same key as the group dict): R11.21
      if tuple(sorted(a.key() for a in b.key.alts)) in group_keys:
        continue
      # the element itself survives next to the key: appended / yielded where
      # the key is used, or stored as the dict's value (a dict as ordered set)
      kept = set().union(*[fr.kept for fr in b.key_frames]) if b.key_frames else set()
      if b.kind == "dict" and b.val is not None and b.val.elem is not None and \
          b.val.elem.blanked is None:
        kept = kept | {(b.val.elem.src, b.val.elem.path)}
      srcs = {s for a in b.key.alts for s in a.rootmap() if (s, ()) in kept}
      for s in sorted(srcs):
        if b.key.opaque:
          raise AnalysisError(
              f"{entry}: the de-duplication key of `{b.name}` is computed from the "
              "element in a way the rule does not model")
        problems, imprecise = [], False
        for a in b.key.alts:
          if s not in a.rootmap() or (s, ()) in a.cov:
            continue
          classes = a.rootmap()[s]
          imprecise = imprecise or a.imprecise
          if len(classes) > 1 and (s, (CLS,)) not in a.cov:
            problems.append(
                f"one key shape serves the classes {sorted(classes)} and does not "
                "include the class")
          for c in sorted(classes):
            for f in ty.eq_fields(c):
              ft = ty.field_type({c}, f)
              for mpath in covered(ty, a.cov, s, (f,), ft[0], ft[1]):
                p = f"{c}.{show_path(mpath)} is not in the key"
                if p not in problems:
                  problems.append(p)
        construct = f"{entry}:{s}:duplicate-key-determines-the-node"
        r = results.setdefault(construct, {"problems": [], "line": b.line, "boxes": [],
                                           "imprecise": False})
        r["problems"] += [p for p in problems if p not in r["problems"]]
        r["imprecise"] = r["imprecise"] or imprecise
        r["boxes"].append(b.name or "<set>")
    for construct, r in sorted(results.items()):
      if entry == "JoinTypes":
        found_join = True
      if r["problems"] and r["imprecise"]:
        raise AnalysisError(f"{construct}: an isinstance test on the element names "
                            "a class the rule cannot resolve")
      ctx.check(not r["problems"], construct, rel, r["line"],
                f"{entry} drops an element when its key is already in "
                f"`{'/'.join(r['boxes'])}`, but the key identifies nodes that are "
                f"not equal: {'; '.join(r['problems'][:6])}.  An isinstance arm for "
                "a class also receives its subclasses (pytd.TupleType, "
                "CallableType and Concatenate are GenericTypes): Tuple[int] and "
                "Tuple[int, ...] then share a key and the second - possibly the "
                "wider - member of the union is dropped",
                {"sets": r["boxes"], "problems": r["problems"]})
  if not found_join:
    raise AnalysisError(
        "pytd_utils.JoinTypes: the duplicate-dropping set (`t not in seen` / "
        "`seen.add(t)` next to the append / yield of the member) was not recognised")


_GROUP_OLD = "      stripped_signature = sig.Replace(return_type=None, exceptions=None)\n"
_KEY_OLD = ("    if isinstance(t, (pytd.CallableType, pytd.TupleType)):\n"
            "      return (t.base_type, len(t.parameters))\n"
            "    else:\n"
            "      return t.base_type\n")
_SEEN_OLD = ("    elif t not in seen:\n"
             "      new_types.append(t)\n"
             "      seen.add(t)\n")


def _seen_new(keyexpr, prelude=""):
  return (prelude + f"    elif {keyexpr} not in seen:\n"
          "      new_types.append(t)\n"
          f"      seen.add({keyexpr})\n")


_HELPER_AT = "def JoinTypes(types):\n"

# the two loops of CombineReturnsAndExceptions, for variants that re-shape both
_LOOP1_OLD = ("    groups = {}  # Signature -> ReturnsAndExceptions\n"
              "    for sig in signatures:\n"
              "      stripped_signature = sig.Replace(return_type=None, exceptions=None)\n"
              "\n"
              "      ret = groups.get(stripped_signature)\n"
              "      if not ret:\n"
              "        ret = _ReturnsAndExceptions()\n"
              "        groups[stripped_signature] = ret\n"
              "\n"
              "      ret.Update(sig)\n")
_LOOP2_OLD = ("    for stripped_signature, ret_exc in groups.items():\n"
              "      ret = pytd_utils.JoinTypes(ret_exc.return_types)\n"
              "      exc = tuple(ret_exc.exceptions)\n"
              "\n"
              "      new_signatures.append(\n"
              "          stripped_signature.Replace(return_type=ret, exceptions=exc)\n"
              "      )\n")


def _members_in_lists(key, rebuild):
  """Groups hold the list of their members; the merged signature is rebuilt
  from the first member (`rebuild` = how)."""
  return [(OPT, _LOOP1_OLD,
           "    groups = collections.defaultdict(list)\n"
           "    for sig in signatures:\n"
           f"      groups[{key}].append(sig)\n"),
          (OPT, _LOOP2_OLD,
           "    for members in groups.values():\n"
           "      first = members[0]\n"
           "      ret = pytd_utils.JoinTypes([m.return_type for m in members])\n"
           "      exc = tuple(pytd_utils.OrderedSet(\n"
           "          e for m in members for e in m.exceptions))\n"
           f"      new_signatures.append({rebuild})\n")]


_REPLACE_FIRST = "first.Replace(return_type=ret, exceptions=exc)"
_CTOR_FIRST = ("pytd.Signature(params=first.params, starargs=first.starargs, "
               "starstarargs=first.starstarargs, return_type=ret, exceptions=exc, "
               "template=first.template)")
_STRIPPED = "sig.Replace(return_type=None, exceptions=None)"

_QUEUE_OLD = ("  queue = collections.deque(types)\n"
              "  seen = set()\n"
              "  new_types = []\n"
              "  while queue:\n"
              "    t = queue.popleft()\n"
              "    if isinstance(t, pytd.UnionType):\n"
              "      queue.extendleft(reversed(t.type_list))\n"
              "    elif isinstance(t, pytd.NothingType):\n"
              "      pass\n" + _SEEN_OLD)


def _dict_as_ordered_set(key):
  return ("  queue = collections.deque(types)\n"
          "  unique = {}\n"
          "  while queue:\n"
          "    t = queue.popleft()\n"
          "    if isinstance(t, pytd.UnionType):\n"
          "      queue.extendleft(reversed(t.type_list))\n"
          "      continue\n"
          "    if isinstance(t, pytd.NothingType):\n"
          "      continue\n"
          f"    unique.setdefault({key}, t)\n"
          "  new_types = list(unique.values())\n")

VARIANTS = [
    # -- R11.21 ------------------------------------------------------------------
    {"name": "seeded-C11-r3m1", "rule": "R11.21", "patch": "seeded/C11-r3m1/patch.diff",
     "expect": "fire"},
    {"name": "group-key-also-strips-starargs", "rule": "R11.21", "file": OPT, "expect": "fire",
     "old": _GROUP_OLD,
     "new": "      stripped_signature = sig.Replace(\n"
            "          return_type=None, exceptions=None, starargs=None)\n"},
    {"name": "group-key-strips-mutations-from-params", "rule": "R11.21", "file": OPT,
     "expect": "fire",
     "old": _GROUP_OLD,
     "new": "      stripped_signature = sig.Replace(\n"
            "          return_type=None, exceptions=None,\n"
            "          params=tuple(p.Replace(mutated_type=None) for p in sig.params))\n"},
    {"name": "container-key-is-the-arity-only", "rule": "R11.21", "file": OPT, "expect": "fire",
     "old": _KEY_OLD,
     "new": "    if isinstance(t, (pytd.CallableType, pytd.TupleType)):\n"
            "      return len(t.parameters)\n"
            "    else:\n"
            "      return t.base_type\n"},
    {"name": "container-key-is-the-base-name", "rule": "R11.21", "file": OPT, "expect": "fire",
     "old": _KEY_OLD,
     "new": "    if isinstance(t, (pytd.CallableType, pytd.TupleType)):\n"
            "      return (t.name, len(t.parameters))\n"
            "    else:\n"
            "      return t.name\n"},
    {"name": "group-by-param-names-keep-first-signature", "rule": "R11.21", "expect": "fire",
     "edits": [(OPT, _GROUP_OLD,
                "      stripped_signature = tuple(p.name for p in sig.params)\n"),
               (OPT, "        groups[stripped_signature] = ret\n",
                "        groups[stripped_signature] = ret\n        ret.first = sig\n"),
               (OPT, "          stripped_signature.Replace(return_type=ret, exceptions=exc)\n",
                "          ret_exc.first.Replace(return_type=ret, exceptions=exc)\n")]},
    {"name": "twin-group-key-lists-every-kept-field", "rule": "R11.21", "expect": "silent",
     "edits": [(OPT, _GROUP_OLD,
                "      stripped_signature = (sig.params, sig.starargs, sig.starstarargs,\n"
                "                            sig.template)\n"),
               (OPT, "        groups[stripped_signature] = ret\n",
                "        groups[stripped_signature] = ret\n        ret.first = sig\n"),
               (OPT, "          stripped_signature.Replace(return_type=ret, exceptions=exc)\n",
                "          ret_exc.first.Replace(return_type=ret, exceptions=exc)\n")]},
    {"name": "twin-group-key-lists-every-parameter-field", "rule": "R11.21", "expect": "silent",
     "edits": [(OPT, _GROUP_OLD,
                "      stripped_signature = (\n"
                "          tuple((p.name, p.type, p.kind, p.optional, p.mutated_type)\n"
                "                for p in sig.params),\n"
                "          sig.starargs, sig.starstarargs, sig.template)\n"),
               (OPT, "        groups[stripped_signature] = ret\n",
                "        groups[stripped_signature] = ret\n        ret.first = sig\n"),
               (OPT, "          stripped_signature.Replace(return_type=ret, exceptions=exc)\n",
                "          ret_exc.first.Replace(return_type=ret, exceptions=exc)\n")]},
    {"name": "twin-benign-C11-r3-setdefault-and-generator", "rule": "R11.21",
     "patch": "benign/C11-r3/patch.diff", "expect": "silent"},
    {"name": "twin-benign-C11-r2-container-merge-in-helpers", "rule": "R11.21",
     "patch": "benign/C11-r2/patch.diff", "expect": "silent"},
    {"name": "twin-group-key-renamed-and-built-by-a-helper", "rule": "R11.21", "expect": "silent",
     "edits": [(OPT, _GROUP_OLD, "      stripped_signature = self._Arguments(sig)\n"),
               (OPT, "  def _GroupByArguments(self, signatures):\n",
                "  def _Arguments(self, signature):\n"
                "    return signature.Replace(return_type=None, exceptions=None)\n\n"
                "  def _GroupByArguments(self, signatures):\n")]},
    {"name": "twin-container-key-guard-clause", "rule": "R11.21", "file": OPT, "expect": "silent",
     "old": _KEY_OLD,
     "new": "    if not isinstance(t, (pytd.CallableType, pytd.TupleType)):\n"
            "      return t.base_type\n"
            "    arity = len(t.parameters)\n"
            "    return (t.base_type, arity)\n"},
    {"name": "twin-members-in-lists-first-one-rebuilt", "rule": "R11.21", "expect": "silent",
     "edits": _members_in_lists(_STRIPPED, _REPLACE_FIRST)},
    {"name": "members-in-lists-grouped-by-parameter-types", "rule": "R11.21", "expect": "fire",
     "edits": _members_in_lists("tuple(p.type for p in sig.params)", _REPLACE_FIRST)},
    {"name": "twin-merged-signature-from-constructor", "rule": "R11.21", "expect": "silent",
     "edits": _members_in_lists(
         "(sig.params, sig.starargs, sig.starstarargs, sig.template)", _CTOR_FIRST)},
    {"name": "merged-signature-from-constructor-key-without-template", "rule": "R11.21",
     "expect": "fire",
     "edits": _members_in_lists("(sig.params, sig.starargs, sig.starstarargs)", _CTOR_FIRST)},
    # -- R11.22 ------------------------------------------------------------------
    {"name": "seeded-C11-r3m2", "rule": "R11.22", "patch": "seeded/C11-r3m2/patch.diff",
     "expect": "fire"},
    {"name": "duplicate-key-generic-arm-swallows-tuples", "rule": "R11.22", "expect": "fire",
     "edits": [(UTILS, _SEEN_OLD, _seen_new("_Key(t)")),
               (UTILS, _HELPER_AT,
                "def _Key(t):\n"
                "  if isinstance(t, pytd.GenericType):\n"
                "    return (t.base_type, t.parameters)\n"
                "  return t\n\n\n" + _HELPER_AT)]},
    {"name": "duplicate-key-inline-conditional", "rule": "R11.22", "file": UTILS, "expect": "fire",
     "old": _SEEN_OLD,
     "new": _seen_new("((t.base_type, t.parameters) if isinstance(t, pytd.GenericType) else t)")},
    {"name": "duplicate-key-drops-the-parameters", "rule": "R11.22", "expect": "fire",
     "edits": [(UTILS, _SEEN_OLD, _seen_new("_Key(t)")),
               (UTILS, _HELPER_AT,
                "def _Key(t):\n"
                "  if isinstance(t, pytd.GenericType):\n"
                "    return (type(t), t.base_type)\n"
                "  return t\n\n\n" + _HELPER_AT)]},
    {"name": "duplicate-key-is-the-printed-name", "rule": "R11.22", "file": UTILS, "expect": "fire",
     "old": _SEEN_OLD, "new": _seen_new("str(t)")},
    {"name": "duplicate-key-named-and-class-types-share-a-name", "rule": "R11.22", "expect": "fire",
     "edits": [(UTILS, _SEEN_OLD, _seen_new("_Key(t)")),
               (UTILS, _HELPER_AT,
                "def _Key(t):\n"
                "  if isinstance(t, pytd.GENERIC_BASE_TYPE):\n"
                "    return t.name\n"
                "  return t\n\n\n" + _HELPER_AT)]},
    {"name": "twin-duplicate-key-includes-the-class", "rule": "R11.22", "expect": "silent",
     "edits": [(UTILS, _SEEN_OLD, _seen_new("_Key(t)")),
               (UTILS, _HELPER_AT,
                "def _Key(t):\n"
                "  if isinstance(t, pytd.GenericType):\n"
                "    return (t.__class__, t.base_type, t.parameters)\n"
                "  return t\n\n\n" + _HELPER_AT)]},
    {"name": "twin-duplicate-key-subclass-arms-first", "rule": "R11.22", "expect": "silent",
     "edits": [(UTILS, _SEEN_OLD, _seen_new("_Key(t)")),
               (UTILS, _HELPER_AT,
                "def _Key(t):\n"
                "  if isinstance(t, pytd.TupleType):\n"
                "    return ('tuple', t.base_type, t.parameters)\n"
                "  elif isinstance(t, pytd.CallableType):\n"
                "    return ('callable', t.base_type, t.parameters)\n"
                "  elif isinstance(t, pytd.Concatenate):\n"
                "    return ('concatenate', t.base_type, t.parameters)\n"
                "  elif isinstance(t, pytd.GenericType):\n"
                "    return ('generic', t.base_type, t.parameters)\n"
                "  return t\n\n\n" + _HELPER_AT)]},
    {"name": "twin-duplicate-key-pairs-the-type-with-its-class", "rule": "R11.22", "file": UTILS,
     "expect": "silent", "old": _SEEN_OLD, "new": _seen_new("(type(t), t)")},
    {"name": "twin-benign-C11-r1-duplicates-dropped-in-a-generator", "rule": "R11.22",
     "patch": "benign/C11-r1/patch.diff", "expect": "silent"},
    {"name": "twin-dict-as-ordered-set-keyed-by-the-type", "rule": "R11.22", "file": UTILS,
     "expect": "silent", "old": _QUEUE_OLD, "new": _dict_as_ordered_set("t")},
    {"name": "dict-as-ordered-set-late-types-keyed-by-name", "rule": "R11.22", "file": UTILS,
     "expect": "fire", "old": _QUEUE_OLD,
     "new": _dict_as_ordered_set("(t.name if isinstance(t, pytd.LateType) else t)")},
    {"name": "twin-exact-class-test-before-decomposing", "rule": "R11.22", "file": UTILS,
     "expect": "silent", "old": _SEEN_OLD,
     "new": _seen_new("((t.base_type, t.parameters) if type(t) is pytd.GenericType else t)")},
    {"name": "duplicate-key-through-an-unknown-function", "rule": "R11.22", "file": UTILS,
     "expect": "error", "old": _SEEN_OLD, "new": _seen_new("printer.PrintVisitor.Key(t)")},
]
