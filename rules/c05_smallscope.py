"""C05 extensions R5.21 / R5.22: two print/parse agreements decided by small-scope evaluation.

Both rules take the *code* of the printer / the stub reader from /repo as an
AST and evaluate it (rules/_minieval.py: nothing from /repo is imported or
run; str/list/re semantics come from the host and are exact) on an exhaustive
small scope of inputs.  A construct outside the evaluated fragment is an
ANALYSIS-ERROR, never a verdict.

R5.21 - what the printer writes for a parameter does not depend on how the
enclosing classes are *decorated* on the printer's class stack.  EnterClass
pushes `name[T, ...]` for a class with a template and `name` otherwise;
the inferencer's AST has templates, the AST the reader builds from the
printed stub has none (the reader fills them in later), while the
parameter types are the same text.  If VisitParameter's answer for
(`cls: type[Outer.Inner]`, stack [Outer[T], Inner]) differs from its answer
for the same parameter under [Outer, Inner], print(parse(print(ast))) !=
print(ast).  Scope: nesting depth 1-3, every subset of levels generic,
names with and without module prefix, self/cls with bare and parameterised
class types.

R5.22 - the reader recognises a Literal context for every spelling of
`typing.Literal` the printer can emit.  The spellings are obtained by
evaluating PrintVisitor._FromTyping("Literal") with and without a name
collision in the module (bare `Literal` vs qualified `typing.Literal`);
for each, `_AnnotationVisitor.enter_Subscript` is evaluated on the python
AST of `<spelling>[...]` (ast.Name / ast.Attribute chain) followed by
`_in_literal()` and `visit_Pyval` on a string constant: inside the subscript
the constant must come back unchanged (a literal value, not a late
annotation), and after `leave_Subscript` the stack must be as before.
"""
import ast
import itertools
import re as _re

from sa.core import rule, AnalysisError
from sa.pyindex import get_module, dotted, src
from rules import _minieval as me
from rules.c05 import class_methods, PRINTER, PARSER, DEFS


class _Interp(me.Interp):
  """_minieval.Interp plus local function definitions (closures over the enclosing frame)."""

  def sub(self, fn):
    return _Interp(fn, self.globals, self.max_steps, self.resolver)

  _MORE_STR = {"isalpha", "isspace", "isupper", "islower", "isalnum", "isnumeric", "casefold", "zfill"}

  def getattr_(self, v, attr):
    if isinstance(v, str) and attr in self._MORE_STR:
      return getattr(v, attr)
    return super().getattr_(v, attr)

  def stmt(self, s, env):
    if isinstance(s, ast.FunctionDef):
      a = s.args
      if s.decorator_list or a.vararg or a.kwarg or a.kwonlyargs or a.defaults or any(
          isinstance(n, (ast.Yield, ast.YieldFrom, ast.Nonlocal, ast.Global)) for n in ast.walk(s)):
        raise me.Outside(f"local function {s.name} has a shape outside the fragment")
      names = [p.arg for p in a.posonlyargs + a.args]

      def call(*args, _s=s, _names=names, _outer=env):
        if len(args) != len(_names):
          raise me.Raised("TypeError")
        frame = dict(_outer)   # the enclosing frame as it is at the time of the call
        frame.update(zip(_names, args))
        try:
          self.block(_s.body, frame)
        except me._Return as r:   # pylint: disable=protected-access
          return r.value
        return None
      env[s.name] = call
      return
    super().stmt(s, env)


def _host_module(**fns):
  return me.Obj(("module",), {}, methods=fns)


def _re_fn(f):
  def call(*a, **kw):
    try:
      return f(*a, **kw)
    except _re.error as e:   # the evaluated code builds an invalid pattern: it raises at run time
      raise me.Raised("re.error", (str(e),)) from e
  return call


_RE = _host_module(**{k: _re_fn(getattr(_re, k)) for k in ("fullmatch", "match", "search", "sub", "escape", "split",
                                                           "findall")})
_LOGGING = _host_module(**{k: (lambda *a, **kw: None) for k in ("warning", "info", "debug", "error")})


def _module_globals(mod, extra=None):
  """Module-level functions of `mod` as callables evaluated from their AST; module-level string/tuple constants."""
  g = {"re": _RE, "logging": _LOGGING, "map": map, "filter": filter}
  g.update(extra or {})
  for name, fn in mod.functions.items():
    def call(*a, _fn=fn, **kw):
      params = [p.arg for p in _fn.args.posonlyargs + _fn.args.args]
      if len(a) > len(params):
        raise me.Outside(f"call of {_fn.name} with too many arguments")
      return _Interp(_fn, g, resolver=g.get("__resolver__")).call({**dict(zip(params, a)), **kw})
    g[name] = call
  for name, v in mod.assigns.items():
    if isinstance(v, ast.Constant) and isinstance(v.value, (str, int)):
      g.setdefault(name, v.value)
  return g


def _run(what, thunk):
  try:
    return thunk()
  except me.Outside as e:
    raise AnalysisError(f"{what}: outside the evaluated fragment: {e}") from e
  except me.Diverged as e:
    raise AnalysisError(f"{what}: evaluation does not terminate") from e
  except RecursionError as e:
    raise AnalysisError(f"{what}: evaluation recursed too deeply") from e


# -- R5.21 ---------------------------------------------------------------------------------------------

def _printer_self(pmod, g):
  ms = {k: v for k, v in class_methods(pmod, "PrintVisitor").items()
        if not v.decorator_list}
  calls = []
  imports = me.Obj(("_Imports",), {"typing_members": {}, "calls": calls}, methods={
      "decrement_typing_count": lambda k: calls.append(("dec", k)),
      "add": lambda *a, **kw: calls.append(("add",) + a),
      "get_alias": lambda name: None})
  this = me.Obj(("PrintVisitor",), {
      "class_names": [], "_class_members": set(), "in_parameter": False, "in_signature": False,
      "in_constant": False, "in_alias": False, "_unit": None, "_local_names": {}, "_imports": imports,
      "old_node": me.Obj(("pytd.Parameter",), {"type": me.Obj(("pytd.NamedType",), {"name": "x"})}),
  }, cls_methods=ms)
  it = _Interp(ms["VisitParameter"], g)

  def print_child(node):
    # a template item prints as its type parameter's name
    if isinstance(node, me.Obj) and "pytd.TemplateItem" in node.kinds and "VisitTemplateItem" in ms:
      return it.sub(ms["VisitTemplateItem"]).call({"self": this, _second(ms["VisitTemplateItem"]): node})
    raise me.Outside("self.Print of something that is not a template item")
  this.methods["Print"] = print_child
  return this, ms, it


def _second(fn):
  return (fn.args.posonlyargs + fn.args.args)[1].arg


def _class_stack(it, this, ms, names, generic, tparam):
  this.attrs["class_names"] = []
  this.attrs["_class_members"] = set()
  enter = ms.get("EnterClass")
  if enter is None:
    raise AnalysisError("PrintVisitor.EnterClass not found")
  for name, gen in zip(names, generic):
    template = (me.Obj(("pytd.TemplateItem",), {"type_param": tparam, "name": tparam}),) if gen else ()
    node = me.Obj(("pytd.Class",), {"name": name, "template": template, "methods": (), "constants": (),
                                    "classes": (), "decorators": (), "bases": (), "keywords": (), "slots": None})
    it.sub(enter).call({"self": this, _second(enter): node})
  stack = this.attrs["class_names"]
  if not (isinstance(stack, list) and len(stack) == len(names) and all(isinstance(x, str) for x in stack)):
    raise AnalysisError(f"EnterClass does not keep one name per open class on class_names (got {stack!r})")
  return list(stack)


@rule("R5.21", "C05", floor=4)
def r5_21(ctx):
  """VisitParameter's text is independent of the template decoration of the printer's class stack."""
  pmod = get_module(ctx, PRINTER)
  g = _module_globals(pmod)
  this, ms, it = _printer_self(pmod, g)
  if "VisitParameter" not in ms:
    raise AnalysisError("PrintVisitor.VisitParameter not found")
  vp = ms["VisitParameter"]
  results = {}   # (mode, kind) -> list of counterexamples
  counts = {}
  elided = {}
  for mode in ("local", "qualified"):
    pre = "" if mode == "local" else "m."
    tparam = "T" if mode == "local" else "m.T"
    for depth in (1, 2, 3):
      simple = ["Outer", "Mid", "Inner"][:depth] if depth > 1 else ["Box"]
      path = ".".join(simple)
      names = simple if mode == "local" else [pre + ".".join(simple[:i + 1]) for i in range(depth)]
      qual = pre + path
      params = [("self", qual), ("self", f"{qual}[{tparam}]"), ("cls", f"type[{qual}]"), ("cls", f"Type[{qual}]"),
                ("cls", f"type[{qual}[{tparam}]]"), ("self", "int"), ("cls", "type[int]")]
      plain_stack = _run("EnterClass", lambda: _class_stack(it, this, ms, names, [False] * depth, tparam))
      for generic in itertools.product((False, True), repeat=depth):
        stack = _run("EnterClass", lambda: _class_stack(it, this, ms, names, generic, tparam))
        for pname, ptype in params:
          outs = []
          for st in (plain_stack, stack):
            this.attrs["class_names"] = list(st)
            this.attrs["in_parameter"] = True
            node = me.Obj(("pytd.Parameter",), {"name": pname, "type": ptype, "optional": False,
                                                "mutated_type": None, "kind": me.Sym("pytd.ParameterKind.REGULAR")})
            try:
              outs.append(_run("VisitParameter", lambda: it.sub(vp).call({"self": this, _second(vp): node})))
            except me.Raised as e:
              outs.append(f"<raises {e.name}>")
          if outs[0].startswith("<raises"):
            raise AnalysisError(f"VisitParameter raises for {pname}: {ptype} under {plain_stack}: {outs[0]}")
          key = (mode, pname)
          counts[key] = counts.get(key, 0) + 1
          if ptype.endswith(qual) or ptype.endswith(qual + "]"):
            elided.setdefault(key, set()).add(outs[0] == pname)
          if outs[0] != outs[1]:
            results.setdefault(key, []).append(
                {"class_stack": stack, "without_templates": plain_stack, "parameter": f"{pname}: {ptype}",
                 "printed": outs[1], "printed_without_templates": outs[0]})
  for (mode, pname), n in sorted(counts.items()):
    bad = results.get((mode, pname), [])
    facts = {"cases": n, "implicit_form_elided_without_templates": sorted(elided.get((mode, pname), ()))}
    if bad:
      ex = bad[0]
      ctx.bad(f"PrintVisitor.VisitParameter:{pname}-independent-of-class-templates@{mode}-names", PRINTER, vp.lineno,
              f"under the class stack {ex['class_stack']} the parameter `{ex['parameter']}` is printed as "
              f"`{ex['printed']}`, under {ex['without_templates']} (the same classes as the stub reader builds them: "
              f"no templates) as `{ex['printed_without_templates']}`: the stub emitted for the inferencer's AST is "
              f"not what is printed after re-reading it ({len(bad)} of {n} cases differ)",
              dict(facts, counterexample=ex, differing=len(bad)))
    else:
      ctx.ok(f"PrintVisitor.VisitParameter:{pname}-independent-of-class-templates@{mode}-names", PRINTER, vp.lineno,
             facts)


# -- R5.22 ---------------------------------------------------------------------------------------------

def _printer_spellings(ctx, member):
  """What PrintVisitor._FromTyping(member) returns without / with a name collision in the module."""
  pmod = get_module(ctx, PRINTER)
  g = _module_globals(pmod)
  ms = {k: v for k, v in class_methods(pmod, "PrintVisitor").items() if not v.decorator_list}
  ft = ms.get("_FromTyping")
  if ft is None:
    raise AnalysisError("PrintVisitor._FromTyping not found")
  out = {}
  for collision in (False, True):
    imports = me.Obj(("_Imports",), {}, methods={
        "get_alias": lambda name: None, "add": lambda *a, **kw: None,
        "decrement_typing_count": lambda k: None})
    this = me.Obj(("PrintVisitor",), {"_imports": imports, "_unit": None, "_local_names": {},
                                      "_class_members": set(), "class_names": []},
                  methods={"_NameCollision": lambda name, _c=collision: _c}, cls_methods=ms)
    try:
      r = _run("_FromTyping", lambda: _Interp(ft, g).call({"self": this, _second(ft): member}))
    except me.Raised as e:
      raise AnalysisError(f"_FromTyping raises {e.name}") from e
    if not isinstance(r, str) or not all(p.isidentifier() for p in r.split(".")):
      raise AnalysisError(f"_FromTyping({member!r}) evaluates to {r!r}, not a dotted name")
    out["collision" if collision else "plain"] = r
  if out["plain"] == out["collision"]:
    raise AnalysisError(f"_FromTyping({member!r}) evaluates to {out['plain']!r} with and without a name collision: "
                        "the qualified spelling cannot be derived (is the collision test still self._NameCollision?)")
  return out


def _py_name(dotted_name):
  """The python AST (as evaluation records) of a dotted name."""
  parts = dotted_name.split(".")
  node = me.Obj(("astlib.Name",), {"id": parts[0]})
  for p in parts[1:]:
    node = me.Obj(("astlib.Attribute",), {"value": node, "attr": p})
  return node


def _resolver(name, args, kw):
  base = name.rsplit(".", 1)[-1]
  if base == "Name" and name.split(".")[0] in ("astlib", "ast", "ast3") and (args or "id" in kw):
    return me.Obj(("astlib.Name",), {"id": args[0] if args else kw["id"]})
  if base == "cast" and len(args) == 2:
    return args[1]
  return NotImplemented


@rule("R5.22", "C05", floor=8)
def r5_22(ctx):
  """Constants inside every printer spelling of Literal[...] are read as literal values."""
  spell = _printer_spellings(ctx, "Literal")
  mod = get_module(ctx, PARSER)
  dmod = get_module(ctx, DEFS)
  g = _module_globals(mod)
  g["__resolver__"] = _resolver
  ms = {k: v for k, v in class_methods(mod, "_AnnotationVisitor").items() if not v.decorator_list}
  for need in ("enter_Subscript", "leave_Subscript", "visit_Pyval"):
    if need not in ms:
      raise AnalysisError(f"_AnnotationVisitor.{need} not found")
  dms = {k: v for k, v in class_methods(dmod, "Definitions").items() if not v.decorator_list}
  if "matches_type" not in dms:
    raise AnalysisError("Definitions.matches_type not found")
  dg = _module_globals(dmod, {"parser_constants": me.Obj(("module",), {"EXTERNAL_NAME_PREFIX": "$external$"})})
  pc = get_module(ctx, "pytype/pytd/parse/parser_constants.py").assigns.get("EXTERNAL_NAME_PREFIX")
  if isinstance(pc, ast.Constant):
    dg["parser_constants"].attrs["EXTERNAL_NAME_PREFIX"] = pc.value

  def world():
    defs = me.Obj(("Definitions",), {}, methods={
        "_resolve_alias": lambda name: name,
        "resolve_type": lambda name: me.Obj(("pytd.NamedType",), {"name": name}),
        "new_type": lambda *a, **kw: me.Obj(("pytd.NamedType",), {"name": a[0] if a and isinstance(a[0], str) else "?"}),
    }, cls_methods={"matches_type": dms["matches_type"]})
    # Definitions.matches_type is evaluated from definitions.py with that module's globals
    mt = _Interp(dms["matches_type"], dg)
    names = [p.arg for p in (dms["matches_type"].args.posonlyargs + dms["matches_type"].args.args)[1:]]
    defs.methods["matches_type"] = lambda *a, **kw: mt.sub(dms["matches_type"]).call(
        {"self": defs, **dict(zip(names, a)), **kw})
    this = me.Obj(("_AnnotationVisitor",), {"defs": defs, "subscripted": [], "filename": "f.pyi"}, cls_methods=ms)
    return this
  checked = {}
  for how, text in sorted(spell.items()):
    for outer in (None, "list"):
      this = world()
      it = _Interp(ms["enter_Subscript"], g, resolver=_resolver)

      def call(meth, *a, _this=this, _it=it):
        fn = ms[meth]
        names = [p.arg for p in (fn.args.posonlyargs + fn.args.args)[1:]]
        return _it.sub(fn).call({"self": _this, **dict(zip(names, a))})
      const = me.Obj(("types.Pyval",), {"type": "str", "value": "int"})
      lit = me.Obj(("astlib.Subscript",), {"value": _py_name(text), "slice": const})
      outer_node = me.Obj(("astlib.Subscript",), {"value": _py_name(outer), "slice": lit}) if outer else None
      where = f"{text}['int']" if not outer else f"{outer}[{text}['int']]"
      depth0 = len(this.attrs["subscripted"])
      rejected = None
      try:
        if outer_node is not None:
          _run("enter_Subscript", lambda: call("enter_Subscript", outer_node))
        depth1 = len(this.attrs["subscripted"])
        _run("enter_Subscript", lambda: call("enter_Subscript", lit))
      except me.Raised as e:
        if e.name != "ParseError":
          raise AnalysisError(f"_AnnotationVisitor.enter_Subscript raises {e.name} on {where}") from e
        rejected = e.name
      kept, balanced, after = False, True, None
      if rejected:
        what = f"never reached: enter_Subscript rejects the annotation ({rejected})"
      else:
        try:
          got = _run("visit_Pyval", lambda: call("visit_Pyval", const))
          kept = got is const
          what = "kept as a literal value" if kept else f"converted to {got!r}"
        except me.Raised as e:
          what = f"rejected ({e.name})"
        try:
          _run("leave_Subscript", lambda: call("leave_Subscript", lit))
          balanced = len(this.attrs["subscripted"]) == depth1
        except me.Raised:
          balanced = False
        if outer_node is not None and balanced:
          # back in the outer subscript: a string is a late annotation again, not a literal
          try:
            got2 = _run("visit_Pyval", lambda: call("visit_Pyval", const))
            after = got2 is not const
          except me.Raised:
            after = True
          try:
            _run("leave_Subscript", lambda: call("leave_Subscript", outer_node))
            balanced = len(this.attrs["subscripted"]) == depth0
          except me.Raised:
            balanced = False
      facts = {"printer_spelling": text, "printer_case": how, "annotation": where, "string_constant": what,
               "stack_balanced": balanced}
      name = f"_AnnotationVisitor:literal-context[{how}{'-nested' if outer else ''}]"
      checked[name] = kept
      ctx.check(kept, name, PARSER, ms["enter_Subscript"].lineno,
                f"the printer spells typing.Literal as `{text}` ({'when the module defines its own name Literal' if how == 'collision' else 'normally'}); "
                f"in `{where}` the reader's string constant is {what}: constants inside Literal[...] must be kept "
                "as literal values, otherwise Literal['int'] is re-read as the type int and re-printed differently "
                "(ints/bytes are rejected as 'Unexpected literal')", facts)
      ctx.check(balanced and after is not False, name + ":scope", PARSER, ms["leave_Subscript"].lineno,
                f"after leaving `{text}[...]` the Literal context is still active or the stack of subscripted "
                "names is not restored", facts)
  # a control: a subscript that is not Literal must not be a literal context
  this = world()
  it = _Interp(ms["enter_Subscript"], g, resolver=_resolver)
  fn = ms["enter_Subscript"]
  const = me.Obj(("types.Pyval",), {"type": "str", "value": "int"})
  node = me.Obj(("astlib.Subscript",), {"value": _py_name("typing.Optional"), "slice": const})
  try:
    _run("enter_Subscript", lambda: it.sub(fn).call({"self": this, _second(fn): node}))
    il = ms.get("_in_literal")
    if il is None:
      raise AnalysisError("_AnnotationVisitor._in_literal not found")
    inside = _run("_in_literal", lambda: it.sub(il).call({"self": this}))
  except me.Raised as e:
    raise AnalysisError(f"_AnnotationVisitor raises {e.name} on typing.Optional['int']") from e
  if inside:
    raise AnalysisError("the evaluation model answers 'Literal context' for typing.Optional[...]: model too weak")


_ENTER = ("    if isinstance(node.value, astlib.Attribute):\n      value = _attribute_to_name(node.value)\n"
          "    else:\n      value = node.value\n    self.subscripted.append(value)\n")
_JOIN = '        return ".".join(_strip_generics(c) for c in self.class_names)\n'
VARIANTS = [
    # R5.21
    {"name": "seeded-C05-r3m1", "rule": "R5.21", "patch": "seeded/C05-r3m1/patch.diff", "expect": "fire"},
    {"name": "innermost-class-name-not-stripped", "rule": "R5.21", "file": PRINTER,
     "old": "      return _strip_generics(self.class_names[-1])\n", "new": "      return self.class_names[-1]\n",
     "expect": "fire"},
    {"name": "joined-names-keep-their-templates", "rule": "R5.21", "file": PRINTER, "old": _JOIN,
     "new": '        return ".".join(self.class_names)\n', "expect": "fire"},
    {"name": "only-the-innermost-component-stripped", "rule": "R5.21", "file": PRINTER, "old": _JOIN,
     "new": '        return ".".join(self.class_names[:-1] + [_strip_generics(self.class_names[-1])])\n',
     "expect": "fire"},
    {"name": "strip-generics-cuts-at-the-last-bracket", "rule": "R5.21", "file": PRINTER,
     "old": '  return type_name.split("[", 1)[0]\n', "new": '  return type_name.rsplit("]", 1)[0]\n', "expect": "fire"},
    {"name": "twin-components-stripped-with-map", "rule": "R5.21", "file": PRINTER, "old": _JOIN,
     "new": '        return ".".join(map(_strip_generics, self.class_names))\n', "expect": "silent"},
    {"name": "twin-components-stripped-in-a-loop", "rule": "R5.21", "file": PRINTER, "old": _JOIN,
     "new": "        parts = []\n        for c in self.class_names:\n          parts.append(_strip_generics(c))\n"
            '        return ".".join(parts)\n', "expect": "silent"},
    {"name": "twin-strip-generics-by-partition", "rule": "R5.21", "file": PRINTER,
     "old": '  return type_name.split("[", 1)[0]\n', "new": '  return type_name.partition("[")[0]\n', "expect": "silent"},
    {"name": "twin-benign-C05-r2-guard-clauses", "rule": "R5.21", "patch": "benign/C05-r2/patch.diff",
     "expect": "silent"},
    # R5.22
    {"name": "seeded-C05-r3m2", "rule": "R5.22", "patch": "seeded/C05-r3m2/patch.diff", "expect": "fire"},
    {"name": "literal-context-by-bare-name-only", "rule": "R5.22", "file": PARSER,
     "old": '      return self.defs.matches_type(last.id, "typing.Literal")\n',
     "new": '      return last.id == "Literal"\n', "expect": "fire"},
    {"name": "attribute-subscripts-not-tracked", "rule": "R5.22", "file": PARSER, "old": _ENTER,
     "new": "    if isinstance(node.value, astlib.Attribute):\n      value = _attribute_to_name(node.value)\n"
            "    else:\n      value = node.value\n      self.subscripted.append(value)\n", "expect": "fire"},
    {"name": "literal-context-never-left", "rule": "R5.22", "file": PARSER,
     "old": "  def leave_Subscript(self, node):\n    self.subscripted.pop()\n",
     "new": "  def leave_Subscript(self, node):\n    if len(self.subscripted) > 1:\n      self.subscripted.pop()\n",
     "expect": "fire"},
    {"name": "literal-context-tests-the-outermost-subscript", "rule": "R5.22", "file": PARSER,
     "old": "    last = self.subscripted[-1]\n", "new": "    last = self.subscripted[0]\n", "expect": "fire"},
    {"name": "twin-normalise-in-one-expression", "rule": "R5.22", "file": PARSER, "old": _ENTER,
     "new": "    value = (\n        _attribute_to_name(node.value)\n        if isinstance(node.value, astlib.Attribute)\n"
            "        else node.value\n    )\n    self.subscripted.append(value)\n", "expect": "silent"},
    {"name": "twin-reader-normalises-when-it-looks", "rule": "R5.22", "expect": "silent",
     "edits": [(PARSER, "    last = self.subscripted[-1]\n",
                "    last = self.subscripted[-1]\n    if isinstance(last, astlib.Attribute):\n"
                "      last = _attribute_to_name(last)\n")]},
    {"name": "twin-raw-node-pushed-reader-normalises", "rule": "R5.22", "expect": "silent",
     "edits": [(PARSER, _ENTER, "    value = node.value\n    self.subscripted.append(value)\n"
                "    if isinstance(value, astlib.Attribute):\n      value = _attribute_to_name(value)\n"),
               (PARSER, "    last = self.subscripted[-1]\n",
                "    last = self.subscripted[-1]\n    if isinstance(last, astlib.Attribute):\n"
                "      last = _attribute_to_name(last)\n")]},
    {"name": "twin-in-literal-guard-clauses", "rule": "R5.22", "file": PARSER,
     "old": "    if isinstance(last, astlib.Name):\n      return self.defs.matches_type(last.id, \"typing.Literal\")\n"
            "    return False\n",
     "new": "    if not isinstance(last, astlib.Name):\n      return False\n"
            "    return self.defs.matches_type(last.id, \"typing.Literal\")\n", "expect": "silent"},
]
