"""C03 extension (round 5): the reported line is stable under the directive, and only the module's own code carries the module's filename.

R3.50  An implicit `return None` error is *moved* by `Director.filter_error` to the recorded end
       of a function range (`_BlockRanges.find_outermost`), and the Director *shortens* a function
       range when a trailing directive sits on the statement that ends it
       (`adjust_end(line_range.end_line, line_range.start_line)`).  "A disable on the reported
       line silences that error" therefore needs the two to agree: when the error is reported at
       line L and a directive is put on L, the line the filter tests afterwards must be one of the
       lines a trailing directive is registered on - L itself or the start line `a` of the
       statement that carries the comment (R3.1 / R3.23 decide that registration).
       Decided by small-scope exhaustive evaluation: `_BlockRanges.__init__/has_end/adjust_end`
       and `Director.filter_error` (with every helper method it calls) are evaluated from their
       AST (rules/_minieval.py; nothing from /repo is imported or run) on every laminar family of
       function ranges over a few lines, every raw opcode line and every admissible tail statement.

R3.51  The filter judges an error by the Director's line sets iff `error.filename` equals the
       filename the Director was built with, so line numbers carried under that filename must be
       line numbers of the source the Director parsed.  Decided structurally: every compile site
       (`pyc.compile_src` and its pass-through wrappers, followed to their call sites) either
       passes a filename that can never be the module's (absent/constant), or passes the very
       variable the Director is constructed with *and* compiles the very source value that was
       handed to `directors.parse_src` for that Director.
"""
import ast
import collections
import itertools

from sa.core import rule, AnalysisError
from sa.pyindex import get_module, dotted, src, kwarg, arg, calls_in, try_fold, walk_no_nested, all_py_files
from sa import flow
from rules import _minieval as me

DIR = "pytype/directors/directors.py"
VM = "pytype/vm.py"
AU = "pytype/abstract/abstract_utils.py"


# ------------------------------------------------------------------------------------------------
# R3.50
# ------------------------------------------------------------------------------------------------

class _Probe:
  """A line set that answers "not a member" and remembers which lines it was asked about."""

  def __init__(self, asked):
    self.asked = asked

  def __contains__(self, line):
    self.asked.append(line)
    return False


def _bisect_resolver(name, args, kw):
  import bisect
  table = {"bisect.bisect_left": bisect.bisect_left, "bisect.bisect_right": bisect.bisect_right,
           "bisect.bisect": bisect.bisect, "bisect_left": bisect.bisect_left,
           "bisect_right": bisect.bisect_right}
  f = table.get(name)
  if f is None:
    return NotImplemented
  if not all(isinstance(x, int) for x in args[0]):
    raise me.Outside("bisect over non-integers")
  return f(*args, **kw)


class _World:
  """The director fragment of directors.py, evaluated from its AST."""

  def __init__(self, ctx):
    self.mod = mod = get_module(ctx, DIR)
    self.br = dict(mod.methods("_BlockRanges"))
    self.dr = dict(mod.methods("Director"))
    for need in ("__init__", "has_end", "adjust_end"):
      if need not in self.br:
        raise AnalysisError(f"_BlockRanges.{need} not found")
    if "filter_error" not in self.dr:
      raise AnalysisError("Director.filter_error not found")
    self.globals = {}
    for name, node in mod.assigns.items():
      v = try_fold(node, mod=mod, default=_World)
      if v is not _World:
        self.globals[name] = v
    self.adjustable = self.globals.get("_ALL_ADJUSTABLE_ERRORS")
    if not isinstance(self.adjustable, (set, frozenset)):
      raise AnalysisError("_ALL_ADJUSTABLE_ERRORS cannot be folded to a set of names")
    init = self.br["__init__"]
    ps = [p.arg for p in init.args.posonlyargs + init.args.args]
    if len(ps) != 2:
      raise AnalysisError("_BlockRanges.__init__ no longer takes exactly the start->end mapping")
    self.init_params = ps

  def _run(self, fn, args):
    try:
      return me.Interp(fn, self.globals, max_steps=5000, resolver=_bisect_resolver).call(args)
    except me.Outside as e:
      raise AnalysisError(f"{fn.name}: small-scope evaluation left the modelled fragment: {e}") from e
    except me.Diverged as e:
      raise AnalysisError(f"{fn.name}: does not terminate within the step budget on a small input") from e
    except RecursionError as e:
      raise AnalysisError(f"{fn.name}: small-scope evaluation recursed too deep") from e

  def ranges(self, pairs):
    """A _BlockRanges built (by its own __init__) from start->end pairs in the given insertion order."""
    o = me.Obj(("_BlockRanges",), cls_methods=self.br)
    self._run(self.br["__init__"], {self.init_params[0]: o, self.init_params[1]: dict(pairs)})
    return o

  def method(self, o, name, *a):
    fn = self.br[name]
    ps = [p.arg for p in fn.args.posonlyargs + fn.args.args]
    try:
      return self._run(fn, dict(zip(ps, (o,) + a)))
    except me.Raised as e:
      raise AnalysisError(f"_BlockRanges.{name}{a} raises {e.name} on a small laminar family: not understood") from e

  def tested_line(self, ranges, raw):
    """The line Director.filter_error tests for an implicit `return None` error whose opcode is on `raw`."""
    asked = []
    state = {"line": raw}
    err = me.Obj(("Error",), {"filename": "m.py", "line": raw, "name": "bad-return-type",
                              "opcode_name": "RETURN_VALUE", "_message": ""})

    def set_line(line):
      err.attrs["line"] = line
      state["line"] = line
    err.methods["set_line"] = set_line
    d = me.Obj(("Director",), {
        "_filename": "m.py", "_function_ranges": ranges, "return_lines": set(),
        "_ignore": _Probe(asked),
        "_disables": collections.defaultdict(lambda: _Probe(asked)),
    }, cls_methods=self.dr)
    fn = self.dr["filter_error"]
    ps = [p.arg for p in fn.args.posonlyargs + fn.args.args]
    if len(ps) != 2:
      raise AnalysisError("Director.filter_error signature not understood")
    try:
      verdict = self._run(fn, {ps[0]: d, ps[1]: err})
    except me.Raised as e:
      return ("raises", e.name)
    if verdict is not True or not asked or len(set(asked)) != 1:
      raise AnalysisError("Director.filter_error: with empty line sets the filter must keep the error after "
                          f"testing one line (verdict {verdict!r}, lines tested {sorted(set(asked))}); "
                          "shape not understood (R3.3/R3.9 decide the membership tests)")
    if asked[0] != err.attrs["line"]:
      raise AnalysisError("Director.filter_error tests a line other than the one the error ends up on (R3.9)")
    return asked[0]


def _adjust_premise(mod):
  """Director shortens a function range from `<lr>.end_line` to `<lr>.start_line`, guarded by has_end(<lr>.end_line)."""
  sites = []
  for qual, fn in mod.methods("Director").items():
    for c in calls_in(fn, suffix="adjust_end"):
      sites.append((qual, fn, c))
  if not sites:
    raise AnalysisError("no call of _BlockRanges.adjust_end in Director: the model of what a trailing "
                        "directive does to the function ranges no longer applies")
  for qual, fn, c in sites:
    if len(c.args) != 2 or c.keywords:
      raise AnalysisError(f"Director.{qual}: adjust_end call shape not understood")

    def resolve(e, fn=fn):
      seen = 0
      while isinstance(e, ast.Name) and seen < 5:
        defs = [n for n in walk_no_nested(fn) if isinstance(n, ast.Assign) and len(n.targets) == 1
                and isinstance(n.targets[0], ast.Name) and n.targets[0].id == e.id]
        if len(defs) != 1:
          break
        e, seen = defs[0].value, seen + 1
      return e
    old, new = resolve(c.args[0]), resolve(c.args[1])
    if not (isinstance(old, ast.Attribute) and old.attr == "end_line" and isinstance(new, ast.Attribute)
            and new.attr == "start_line" and src(old.value) == src(new.value)):
      raise AnalysisError(f"Director.{qual}: adjust_end({src(c.args[0])}, {src(c.args[1])}) is not "
                          "`range.end_line -> range.start_line`; model premise changed")
    st = mod.enclosing_stmt(c)
    conds = [src(t) for t, pol in flow.guards(mod.parent, st, stop=fn) if pol]
    if not any("has_end" in t and src(old) in t for t in conds):
      raise AnalysisError(f"Director.{qual}: adjust_end is not guarded by has_end({src(old)})")
  return [q for q, _, _ in sites]


def _families(nlines, maxn):
  """Every laminar family (nested or disjoint, distinct starts) of exactly `maxn` closed ranges over 1..nlines."""
  ivs = [(s, e) for s in range(1, nlines + 1) for e in range(s, nlines + 1)]

  def laminar(a, b):
    (s1, e1), (s2, e2) = sorted((a, b))
    return s1 != s2 and (e1 < s2 or e2 <= e1)
  for fam in itertools.combinations(ivs, maxn):
    if all(laminar(a, b) for a, b in itertools.combinations(fam, 2)):
      yield fam


@rule("R3.50", "C03", floor=4)
def r3_50(ctx):
  """An implicit-return error reported at L is, once a trailing directive on L has shortened the function range, still tested at a line that directive is registered on (L or the statement's start line)."""
  w = _World(ctx)
  premise = _adjust_premise(w.mod)
  start_registered = "bad-return-type" in w.adjustable
  scope = {1: 7, 2: 7, 3: 7} if ctx.tier == "thorough" else {1: 6, 2: 6, 3: 5}   # ranges -> lines
  maxn = max(scope)
  checked = collections.Counter()
  worst = {}
  for fam in (f for n, nl in scope.items() for f in _families(nl, n)):
    n = len(fam)
    nlines = scope[n]
    orders = [fam] if n == 1 else [fam, tuple(reversed(fam))]
    base = w.ranges(fam)
    by_rep = collections.defaultdict(list)
    for raw in range(1, nlines + 1):
      if not any(s <= raw <= e for s, e in fam):
        continue        # the opcode of an implicit return lies inside a function
      rep = w.tested_line(base, raw)
      if not isinstance(rep, int):
        raise AnalysisError(f"filter_error raises {rep} for function ranges {dict(fam)} and an implicit "
                            f"return on line {raw} (no directive involved): not a C03 question, not decided")
      by_rep[rep].append(raw)
    for rep, raws in by_rep.items():
      if not w.method(base, "has_end", rep):
        checked[n] += len(raws)    # a directive on L leaves the ranges alone: same verdict as before
        continue
      for a in range(1, rep + 1):
        # [a, rep]: the statement that ends on the reported line and carries the comment.  It lies
        # in the body of every function it touches, and the opcode is on the first line of a
        # statement that is not later than it (or on the reported line itself).
        if not all((s <= a and rep <= e and (s < a or s == e)) or e < a or s > rep for s, e in fam):
          continue
        todo = [raw for raw in raws if raw <= a or raw == rep]
        if not todo:
          continue
        for order in orders:
          r = snap = None
          for raw in todo:
            if r is None or me._freeze(r.attrs) != snap:     # (re)build: the filter must not see stale state
              r = w.ranges(order)
              w.method(r, "adjust_end", rep, a)
              snap = me._freeze(r.attrs)
            after = w.tested_line(r, raw)
            registered = {rep} | ({a} if start_registered else set())
            # two classes of scenario: the opcode is on the first line of its statement (or on an
            # earlier header line), or it is on the LAST line of a multi-line tail statement
            # (`(a,\n b) = ...`, `(obj\n .attr) = ...`: the last store is attributed to the later line)
            key = n if raw <= a else "last-line"
            checked[key] += 1
            if after not in registered and key not in worst:
              worst[key] = {"function_ranges": {str(s): e for s, e in order}, "implicit_return_opcode_line": raw,
                            "reported_line": rep, "directive_statement": [a, rep],
                            "lines_the_directive_is_registered_on": sorted(registered),
                            "line_tested_with_the_directive": after}
  line = w.dr["filter_error"].lineno
  for n in list(range(1, maxn + 1)) + ["last-line"]:
    if not checked[n]:
      raise AnalysisError(f"no scenario of class {n} was evaluated: enumeration is vacuous")
    facts = {"scenarios": checked[n], "lines": scope.get(n, max(scope.values())), "adjust_sites": premise,
             "start_line_registered_for_bad_return_type": start_registered}
    if n in worst:
      facts["counterexample"] = worst[n]
    ctx.check(n not in worst, "Director.filter_error:implicit-return-line-stable-under-directive:" + (
                  f"opcode-on-statement-start:{n}-ranges" if n != "last-line" else "opcode-on-statement-last-line"),
              DIR, line,
              "an implicit `return None` error is reported on a line L; with a trailing directive on L the "
              "Director shortens the function range and the filter then tests a line on which the directive "
              f"is not registered: {worst.get(n)}", facts)


# ------------------------------------------------------------------------------------------------
# R3.51
# ------------------------------------------------------------------------------------------------

_COMPILER_MODULES = ("pyc", "compiler", "compile_bytecode")


def _params(fn):
  a = fn.args
  return [p.arg for p in a.posonlyargs + a.args + a.kwonlyargs]


def _default_of(fn, name):
  a = fn.args
  pos = a.posonlyargs + a.args
  d = dict(zip([p.arg for p in pos[len(pos) - len(a.defaults):]], a.defaults))
  d.update({p.arg: v for p, v in zip(a.kwonlyargs, a.kw_defaults) if v is not None})
  return d.get(name)


def _stores(fn, name):
  return [n for n in walk_no_nested(fn) if isinstance(n, ast.Name) and n.id == name
          and isinstance(n.ctx, (ast.Store, ast.Del))]


def _reaching(fn, name):
  """Reaching definitions of local `name` (may-analysis): Flow whose facts are the defining units."""
  def assigns(unit):
    return [n for n in ast.walk(unit) if isinstance(n, ast.Name) and n.id == name
            and isinstance(n.ctx, ast.Store)] if isinstance(unit, ast.AST) else []

  def gen(unit):
    return {("def", id(unit))} if assigns(unit) else None

  def kill(unit):
    return (lambda f: True) if assigns(unit) else None
  return flow.flow(fn, gen, kill, mode="may", entry=frozenset({("def", "param")}))


@rule("R3.51", "C03", floor=3)
def r3_51(ctx):
  """Code is compiled under the filename the Director judges errors by only from the source value that Director was built from; every other compile site passes no (or a constant) filename."""
  vm = get_module(ctx, VM)
  # -- the Director construction: which filename, which source -------------------------------------
  built = []
  for qual, fn in vm.methods("VirtualMachine").items():
    for c in calls_in(fn, suffix="Director"):
      if (dotted(c.func) or "").split(".")[-1] == "Director":
        built.append((qual, fn, c))
  if len(built) != 1:
    raise AnalysisError(f"expected exactly one Director construction in VirtualMachine, found {len(built)}")
  bq, bfn, bcall = built[0]
  f_expr = arg(bcall, 2, "filename")
  tree = arg(bcall, 0, "src_tree")
  if not isinstance(f_expr, ast.Name) or not isinstance(tree, ast.Name):
    raise AnalysisError("Director(...) arguments are not plain variables; not understood")
  fname = f_expr.id
  if fname not in _params(bfn) or _stores(bfn, fname):
    raise AnalysisError(f"VirtualMachine.{bq}: the Director's filename `{fname}` is not an unmodified parameter")
  tdefs = [n for n in walk_no_nested(bfn) if isinstance(n, ast.Assign) and any(
      isinstance(t, ast.Name) and t.id == tree.id for t in n.targets)]
  if len(tdefs) != 1 or not isinstance(tdefs[0].value, ast.Call) or \
      (dotted(tdefs[0].value.func) or "").split(".")[-1] != "parse_src":
    raise AnalysisError(f"VirtualMachine.{bq}: `{tree.id}` is not bound once from directors.parse_src(...)")
  parse_call = tdefs[0].value
  psrc = arg(parse_call, 0, "src")
  if not isinstance(psrc, ast.Name):
    raise AnalysisError("parse_src(...) is not applied to a plain variable")
  # attributes of the VM that alias the Director's filename
  aliases = set()
  for n in walk_no_nested(bfn):
    if isinstance(n, ast.Assign) and isinstance(n.value, ast.Name) and n.value.id == fname:
      for t in n.targets:
        if isinstance(t, ast.Attribute) and isinstance(t.value, ast.Name) and t.value.id == "self":
          aliases.add(t.attr)
  rd = _reaching(bfn, psrc.id)
  parse_defs = rd.before.get(vm.enclosing_stmt(parse_call))
  if parse_defs is None:
    raise AnalysisError("parse_src call is unreachable?")

  def mentions_module_filename(e, in_builder):
    for n in ast.walk(e):
      if isinstance(n, ast.Attribute) and n.attr in aliases:
        base = dotted(n.value) or ""
        if base == "self" or base.split(".")[-1] == "vm":
          return f"{src(n)} (set to the Director's filename in {bq})"
      if in_builder and isinstance(n, ast.Name) and n.id == fname:
        return f"{fname} (the Director's filename)"
    return None

  # -- compile sites, wrappers followed to their callers ---------------------------------------------
  files = [VM, AU]
  for rel in all_py_files(ctx):
    if rel in files or rel.endswith("_test.py") or "/tests/" in rel or rel.startswith(
        ("pytype/pyc/", "pytype/rewrite/", "pytype/tools/")) or "test_" in rel.rsplit("/", 1)[-1]:
      continue
    if "compile_src(" in ctx.read(rel):
      files.append(rel)
  wrappers = {}          # method name -> (src param, filename param)
  work = []
  for rel in files:
    m = get_module(ctx, rel)
    for c in calls_in(m.tree, suffix="compile_src"):
      d = dotted(c.func) or src(c.func)
      recv = d.rsplit(".", 1)[0] if "." in d else ""
      work.append((rel, m, c, recv))
  instances = 0
  pending = list(work)
  # first pass: low-level sites define wrappers; second pass: wrapper call sites
  for low in (True, False):
    for rel, m, c, recv in pending:
      is_low = recv.split(".")[-1] in _COMPILER_MODULES or recv == ""
      if is_low != low:
        continue
      fn = m.enclosing_function(c)
      where = f"{rel}:{getattr(fn, 'name', '<module>')}"
      if low:
        s_e, f_e = arg(c, 0, "src"), arg(c, 1, "filename")
      else:
        name = c.func.attr
        if name not in wrappers:
          raise AnalysisError(f"{where}: call of `{src(c.func)}` - not a known pass-through of pyc.compile_src")
        sp, fp, wfn = wrappers[name]
        ps = [p for p in _params(wfn) if p not in ("self", "cls")]
        s_e = arg(c, ps.index(sp), sp)
        f_e = None if fp is None else arg(c, ps.index(fp), fp)
        if f_e is None and fp is not None:
          f_e = _default_of(wfn, fp)
      if s_e is None:
        raise AnalysisError(f"{where}: compile site without a source argument")
      instances += 1
      construct = f"{where}:compile-filename"
      facts = {"source": src(s_e), "filename": None if f_e is None else src(f_e)}
      in_builder = fn is bfn
      # (a) no / constant filename: can never be the module's
      if f_e is None or isinstance(f_e, ast.Constant):
        ctx.ok(construct, rel, c.lineno, facts)
        continue
      # (b) pass-through wrapper: both source and filename are unmodified parameters
      if fn is not None and not in_builder and isinstance(f_e, ast.Name) and f_e.id in _params(fn) \
          and not _stores(fn, f_e.id):
        if not (isinstance(s_e, ast.Name) and s_e.id in _params(fn) and not _stores(fn, s_e.id)):
          raise AnalysisError(f"{where}: filename is passed through but the source is not a plain parameter")
        d = _default_of(fn, f_e.id)
        if d is not None and not isinstance(d, ast.Constant):
          raise AnalysisError(f"{where}: default of `{f_e.id}` is not a constant")
        wrappers[fn.name] = (s_e.id, f_e.id, fn)
        facts["pass_through"] = True
        ctx.ok(construct, rel, c.lineno, facts)
        continue
      # (c) the module compile: the Director's own filename variable + the Director's own source value
      hit = mentions_module_filename(f_e, in_builder)
      if hit is None:
        raise AnalysisError(f"{where}: filename expression `{src(f_e)}` not understood")
      if in_builder and isinstance(f_e, ast.Name) and f_e.id == fname and isinstance(s_e, ast.Name):
        here = rd.before.get(vm.enclosing_stmt(c))
        same = s_e.id == psrc.id and here is not None and here == parse_defs
        facts["director_source"] = psrc.id
        ctx.check(same, construct, rel, c.lineno,
                  f"the module is compiled under the Director's filename from `{src(s_e)}`, which is not the "
                  f"value of `{psrc.id}` that directors.parse_src() turned into the Director's line sets: "
                  "line numbers of its errors are judged against directives of another text", facts)
        continue
      if low and fn is not None and not in_builder and isinstance(s_e, ast.Name) and s_e.id in _params(fn):
        through = [n.id for n in ast.walk(f_e) if isinstance(n, ast.Name) and n.id in _params(fn)
                   and n.id not in ("self", "cls")]
        # still a wrapper: its call sites are judged on what they pass
        wrappers[fn.name] = (s_e.id, through[0] if through else None, fn)
      ctx.bad(construct, rel, c.lineno,
              f"this compile site passes `{src(f_e)}`, which can be {hit}, for a source (`{src(s_e)}`) that is not "
              "the text the Director was built from: errors raised in that code carry the module's filename with "
              "line numbers of another text, so a directive on an unrelated line of the module silences them "
              "(and a directive on their reported line does not)", facts)
  if not wrappers:
    raise AnalysisError("no pass-through wrapper of pyc.compile_src found (VirtualMachine.compile_src)")


_FO_LOOP = ("        while (\n            1 < i <= num_intervals\n"
            "            and self._start_to_end[self._starts[i - 1]] < line\n        ):\n          i -= 1\n")

VARIANTS = [
    # -- R3.50 ---------------------------------------------------------------------------------------
    {"name": "adjust-end-off-by-one", "rule": "R3.50", "file": DIR, "expect": "fire",
     "old": "    self._start_to_end[start] = new_end\n", "new": "    self._start_to_end[start] = new_end - 1\n"},
    {"name": "bad-return-type-not-adjustable", "rule": "R3.50", "file": DIR, "expect": "fire",
     "old": "    \"annotation-type-mismatch\",\n    \"bad-return-type\",\n", "new": "    \"annotation-type-mismatch\",\n"},
    {"name": "shortened-end-is-not-the-statement-start", "rule": "R3.50", "file": DIR, "expect": "error",
     "old": "          end = line_range.start_line\n", "new": "          end = line_range.end_line - 1\n"},
    {"name": "twin-loop-bound-zero", "rule": "R3.50", "file": DIR, "expect": "silent",
     "old": "            1 < i <= num_intervals\n", "new": "            0 < i <= num_intervals\n"},
    {"name": "twin-bisect-right", "rule": "R3.50", "file": DIR, "expect": "silent",
     "old": "    i = bisect.bisect_left(self._starts, line)\n    num_intervals",
     "new": "    i = bisect.bisect_right(self._starts, line)\n    num_intervals"},
    {"name": "twin-closed-containment-test", "rule": "R3.50", "file": DIR, "expect": "silent",
     "old": "      if line in range(start, end):\n        return start, end",
     "new": "      if start <= line <= end:\n        return start, end"},
    {"name": "twin-relocation-helper", "rule": "R3.50", "file": DIR, "expect": "silent",
     "edits": [(DIR, "      _, end = self._function_ranges.find_outermost(error.line)\n      if end:\n        error.set_line(end)",
                "      self._move_to_function_end(error)"),
               (DIR, "  def filter_error(self, error):\n",
                "  def _move_to_function_end(self, err):\n    span = self._function_ranges.find_outermost(err.line)\n"
                "    last = span[1]\n    if last:\n      err.set_line(last)\n\n  def filter_error(self, error):\n")]},
    # -- R3.51 ---------------------------------------------------------------------------------------
    {"name": "eval-expr-passes-vm-filename", "rule": "R3.51", "file": AU, "expect": "fire",
     "old": "ctx.vm.compile_src(expr, mode=\"eval\")", "new": "ctx.vm.compile_src(expr, ctx.vm.filename, mode=\"eval\")"},
    {"name": "module-compiled-before-augmentation", "rule": "R3.51", "file": VM, "expect": "fire",
     "edits": [(VM, "    src = preprocess.augment_annotations(src)\n", "    code = self.compile_src(src, filename=filename, store_blockgraph=True)\n    src = preprocess.augment_annotations(src)\n"),
               (VM, "    src_tree = directors.parse_src(src, self.ctx.python_version)\n    code = self.compile_src(src, filename=filename, store_blockgraph=True)\n",
                "    src_tree = directors.parse_src(src, self.ctx.python_version)\n")]},
    {"name": "wrapper-always-module-filename", "rule": "R3.51", "file": VM, "expect": "fire",
     "old": "        filename=filename,\n        mode=mode,", "new": "        filename=self.filename,\n        mode=mode,"},
    {"name": "twin-compile-after-director-parse-positional", "rule": "R3.51", "file": VM, "expect": "silent",
     "old": "    code = self.compile_src(src, filename=filename, store_blockgraph=True)\n",
     "new": "    code = self.compile_src(src, filename, store_blockgraph=True)\n"},
    {"name": "twin-compile-before-parse", "rule": "R3.51", "file": VM, "expect": "silent",
     "old": "    src_tree = directors.parse_src(src, self.ctx.python_version)\n    code = self.compile_src(src, filename=filename, store_blockgraph=True)\n",
     "new": "    code = self.compile_src(src, filename=filename, store_blockgraph=True)\n    src_tree = directors.parse_src(src, self.ctx.python_version)\n"},
    {"name": "twin-eval-expr-explicit-none", "rule": "R3.51", "file": AU, "expect": "silent",
     "old": "ctx.vm.compile_src(expr, mode=\"eval\")", "new": "ctx.vm.compile_src(expr, filename=None, mode=\"eval\")"},
    {"name": "twin-wrapper-positional-arguments", "rule": "R3.51", "file": VM, "expect": "silent",
     "old": "        src,\n        python_version=self.ctx.python_version,\n        python_exe=self.ctx.options.python_exe,\n        filename=filename,\n        mode=mode,\n",
     "new": "        src,\n        filename,\n        self.ctx.python_version,\n        self.ctx.options.python_exe,\n        mode=mode,\n"},
]
