"""C15 extensions of round 5.

R15.50  The host compiler's failure set is closed under the compile channel.
  `compile_bytecode.compile_src_to_pyc` is the one place where pytype hands
  user text to CPython's `compile()`.  Its contract with the reader
  (`compiler.compile_src_string_to_pyc_string`, R15.3) is: *whatever* goes
  wrong in the host compiler is written as status 1 + message and becomes a
  `CompileError`, which io.py turns into one python-compiler-error (R15.2).
  `compile()` is documented to raise SyntaxError and ValueError, but the
  compiler also gives up with RecursionError (deep expression), MemoryError
  (parser stack) and others - the set is open.  So for every call of the
  builtin `compile` in the modules of the compile step, and every exception
  class of the host compiler's failure set (documented classes + the classes
  the *host* CPython really raises for a small battery of degenerate texts),
  some `try` on every chain from the call up to the public entry of the
  compile step must have a handler whose class covers it.  The compile step is
  also run for string annotations (`abstract_utils.eval_expr`), which reach
  `compile()` without a previous `ast.parse` of the text, so nothing upstream
  filters these inputs.

R15.51  A partial map is read only where the key is shown to be present.
  A dict that a function builds from empty and fills only *under a condition*
  (a filter: `for x in xs: if P(x): d[key(x)] = ..`) holds the keys of the
  elements that passed the filter - nothing else.  A subscript read `d[K]` of
  such a map raises KeyError unless presence of K is established on the path:
  a dominating `K in d` test (or the negation of an early exit on `K not in
  d`, a short-circuit `K in d and ..`, a conditional expression), a dominating
  store `d[K] = ..` / `d.setdefault(K, ..)`, iteration over the map itself
  (`for K in d`, `for K, v in d.items()`), or an enclosing handler for
  KeyError.  `d.get(K)` is not a subscript read.  Maps that escape the
  function (passed on, captured, stored) and maps with an unconditional fill
  (total over their loop's domain: presence is a property of the domain, not
  of the shape: the innermost loop body around an insertion inserts on every
  path that completes an iteration) are outside the rule.  A read inside a
  loop over the *same iterable* the map was filled from may replay the filter;
  the rule does not compare predicates and refuses (AnalysisError) there.  A
  local map that is never inserted into makes every read a miss.
  `collections.defaultdict` maps are listed as instances that hold by
  construction.
"""
import ast
import builtins

from sa.core import rule, AnalysisError
from sa.pyindex import get_module, src, walk_no_nested
from sa import flow

# ---------------------------------------------------------------------------
# R15.50

COMPILE_STEP = ("pytype/pyc/compile_bytecode.py", "pytype/pyc/compiler.py", "pytype/pyc/pyc.py")
_DOCUMENTED = ("SyntaxError", "ValueError")   # library reference, compile()
_BATTERY = (
    ("attribute chain", "x" + ".a" * 4000),
    ("unary chain", "-" * 4000 + "1"),
    ("nested lambdas", "lambda: " * 3000 + "1"),
    ("nested parentheses", "(" * 400 + ")" * 400),
    ("null byte", "x\0"),
    ("lone surrogate", "\ud800"),
    ("unterminated", "("),
)


def _host_failure_set(ctx):
  """{class name: witness} of what the host compile() raises."""
  def build():
    out = {n: "documented for compile()" for n in _DOCUMENTED}
    for label, text in _BATTERY:
      for mode in ("exec", "eval"):
        try:
          compile(text, "<>", mode)
        except BaseException as e:  # pylint: disable=broad-except
          if not any(issubclass(type(e), getattr(builtins, n)) for n in _DOCUMENTED):
            out.setdefault(type(e).__name__, f"host CPython {label} ({mode} mode)")
    return out
  return ctx.memo("r15_50_failset", build)


def _handler_classes(mod, h):
  """Builtin exception classes a handler names (bare = BaseException)."""
  if h.type is None:
    return [BaseException]
  out = []
  for t in (h.type.elts if isinstance(h.type, ast.Tuple) else [h.type]):
    name = t.id if isinstance(t, ast.Name) else (
        t.attr if isinstance(t, ast.Attribute) and src(t.value) == "builtins" else None)
    cls = getattr(builtins, name, None) if name else None
    if name is None or name in mod.assigns or name in mod.classes or name in mod.imports \
        or not (isinstance(cls, type) and issubclass(cls, BaseException)):
      raise AnalysisError(f"handler type `{src(t)}` at line {h.lineno} is not a builtin exception class")
    out.append(cls)
  return out


def _reraises(h):
  """True/False/None(unclear): does the handler let the exception go on?"""
  raises = [n for n in walk_no_nested(h) if isinstance(n, ast.Raise)]
  if not raises:
    return False
  if any(r in h.body for r in raises):
    return True
  return None


def _covering_try(mod, node, fn, exc):
  """Does a try inside fn, holding `node` in its *body*, catch class `exc`?"""
  cur = node
  while cur is not fn and cur in mod.parent:
    par = mod.parent[cur]
    if isinstance(par, ast.Try) and cur in par.body:
      for h in par.handlers:
        if any(issubclass(exc, c) for c in _handler_classes(mod, h)):
          rr = _reraises(h)
          if rr is None:
            raise AnalysisError(f"handler at line {h.lineno} re-raises under a condition")
          if not rr:
            return par
          break   # first matching handler re-raises: the exception goes on
    cur = par
  return None


def _step_index(ctx):
  def build():
    idx = {}
    for rel in COMPILE_STEP:
      mod = get_module(ctx, rel)
      for fn in ast.walk(mod.tree):
        if isinstance(fn, (ast.FunctionDef, ast.AsyncFunctionDef)):
          idx.setdefault(fn.name, []).append((rel, mod, fn))
    return idx
  return ctx.memo("r15_50_index", build)


def _call_sites(ctx, name):
  out = []
  for rel in COMPILE_STEP:
    mod = get_module(ctx, rel)
    for n in ast.walk(mod.tree):
      if isinstance(n, ast.Call):
        f = n.func
        last = f.id if isinstance(f, ast.Name) else f.attr if isinstance(f, ast.Attribute) else None
        if last == name:
          fn = mod.enclosing_function(n)
          if fn is None:
            if name == "main":
              continue   # the script entry: a sub-process, its death is status != 0/1
            raise AnalysisError(f"{rel}:{n.lineno}: `{name}` is called at module level")
          out.append((rel, mod, fn, n))
  return out


def _uncovered_chain(ctx, rel, mod, fn, node, exc, depth=0, seen=()):
  """None if every chain from `node` upwards catches `exc` inside the compile
  step; else the chain (list of function names) that lets it out."""
  if _covering_try(mod, node, fn, exc) is not None:
    return None
  if depth >= 4 or fn in seen:
    raise AnalysisError(f"{rel}: call chain above `{fn.name}` is too deep to follow")
  if fn.name == "main":
    return None   # sub-process entry; the parent reads the exit status (R15.3)
  sites = _call_sites(ctx, fn.name)
  if len(_step_index(ctx).get(fn.name, ())) > 1:
    raise AnalysisError(f"`{fn.name}` names several definitions in the compile step")
  if not sites:
    return [fn.name]
  for r2, m2, f2, call in sites:
    ch = _uncovered_chain(ctx, r2, m2, f2, call, exc, depth + 1, seen + (fn,))
    if ch is not None:
      return [fn.name] + ch
  return None


@rule("R15.50", "C15", floor=4)
def r15_50(ctx):
  """Every exception class the host compile() can raise is caught on every chain from the builtin compile() call to the compile step's entry."""
  fails = _host_failure_set(ctx)
  n_calls = 0
  for rel in COMPILE_STEP:
    mod = get_module(ctx, rel)
    shadowed = "compile" in mod.functions or "compile" in mod.assigns or "compile" in mod.imports
    for call in [n for n in ast.walk(mod.tree) if isinstance(n, ast.Call)
                 and isinstance(n.func, ast.Name) and n.func.id == "compile"]:
      if shadowed:
        raise AnalysisError(f"{rel}: the name `compile` is re-bound at module level")
      fn = mod.enclosing_function(call)
      if fn is None:
        raise AnalysisError(f"{rel}:{call.lineno}: compile() at module level")
      if any(a.arg == "compile" for a in ast.walk(fn.args) if isinstance(a, ast.arg)):
        raise AnalysisError(f"{rel}:{fn.name}: `compile` is a parameter")
      n_calls += 1
      for name, witness in sorted(fails.items()):
        exc = getattr(builtins, name)
        chain = _uncovered_chain(ctx, rel, mod, fn, call, exc)
        ctx.check(chain is None, f"host-compile:{fn.name}:{name}", rel, call.lineno,
                  f"the host compiler can fail with {name} ({witness}); no handler on the chain "
                  f"{' <- '.join(chain or [])} turns it into the compile-error status, so it "
                  "leaves the compile step as an internal failure instead of a CompileError",
                  {"exception": name, "witness": witness,
                   "chain": chain or "caught"})
  if not n_calls:
    raise AnalysisError("no call of the builtin compile() found in the compile step")


# ---------------------------------------------------------------------------
# R15.51

MAP_SCOPE = (
    "pytype/pyc/opcodes.py", "pytype/pyc/pyc.py", "pytype/pyc/compiler.py",
    "pytype/blocks/blocks.py", "pytype/blocks/process_blocks.py",
    "pytype/directors/parser.py", "pytype/directors/directors.py",
    "pytype/constant_folding.py", "pytype/io.py",
    "pytype/vm.py", "pytype/vm_utils.py", "pytype/tracer_vm.py",
)
MAP_SCOPE_DIRS = ("pytype/abstract/", "pytype/overlays/")


def _scope(ctx):
  from sa.pyindex import all_py_files   # pylint: disable=import-outside-toplevel
  extra = [r for r in all_py_files(ctx) if r.startswith(MAP_SCOPE_DIRS)
           and not r.endswith("_test.py") and "/test" not in r[len("pytype/"):]]
  return list(MAP_SCOPE) + [r for r in extra if r not in MAP_SCOPE]

_DICT_METHODS = {"get", "setdefault", "items", "keys", "values", "pop", "popitem", "clear",
                 "update", "copy"}
_REMOVERS = {"pop", "popitem", "clear"}
_PURE = {"len", "sorted", "list", "tuple", "iter", "bool", "dict", "set", "frozenset",
         "enumerate", "reversed", "any", "all", "min", "max", "sum", "zip", "print", "repr", "str"}
_KEY_VIEWS = {"sorted", "list", "tuple", "iter", "set", "frozenset", "reversed"}
_LOOPS = (ast.For, ast.AsyncFor, ast.While)
_KEYERR = {"KeyError", "LookupError", "Exception", "BaseException"}


def _dump(e):
  return ast.dump(e).replace("ctx=Store()", "ctx=Load()").replace("ctx=Del()", "ctx=Load()")


def _subdumps(e):
  return {_dump(n) for n in ast.walk(e) if isinstance(n, (ast.Name, ast.Attribute, ast.Subscript))}


def _map_ctor(v):
  if isinstance(v, ast.Dict) and not v.keys:
    return "dict"
  if isinstance(v, ast.Call) and not v.keywords:
    n = src(v.func)
    if n == "dict" and not v.args:
      return "dict"
    if n in ("collections.defaultdict", "defaultdict") and len(v.args) == 1 \
        and not (isinstance(v.args[0], ast.Constant) and v.args[0].value is None):
      return "defaultdict"
  return None


def _local_maps(mod, fn):
  """{name: kind} of the maps fn builds from empty and keeps to itself."""
  params = {a.arg for a in ast.walk(fn.args) if isinstance(a, ast.arg)}
  own = list(walk_no_nested(fn))
  binds, other = {}, set()
  for n in own:
    if isinstance(n, (ast.Global, ast.Nonlocal)):
      other |= set(n.names)
    if isinstance(n, ast.Name) and isinstance(n.ctx, (ast.Store, ast.Del)):
      par = mod.parent.get(n)
      kind = None
      if isinstance(par, ast.Assign) and len(par.targets) == 1 and par.targets[0] is n:
        kind = _map_ctor(par.value)
      elif isinstance(par, ast.AnnAssign) and par.target is n and par.value is not None:
        kind = _map_ctor(par.value)
      if kind is None:
        other.add(n.id)
      else:
        binds.setdefault(n.id, set()).add(kind)
  maps = {d: ks.pop() for d, ks in binds.items()
          if len(ks) == 1 and d not in other and d not in params}
  if not maps:
    return maps
  # captured by a nested scope -> escapes
  for n in own:
    if isinstance(n, (ast.FunctionDef, ast.AsyncFunctionDef, ast.ClassDef, ast.Lambda)):
      for m in ast.walk(n):
        if isinstance(m, ast.Name) and m.id in maps:
          maps.pop(m.id)
  for n in own:
    if not (isinstance(n, ast.Name) and n.id in maps and isinstance(n.ctx, ast.Load)):
      continue
    par = mod.parent.get(n)
    keep = False
    if isinstance(par, ast.Subscript) and par.value is n:
      keep = True
    elif isinstance(par, ast.Attribute):
      call = mod.parent.get(par)
      keep = isinstance(call, ast.Call) and call.func is par and par.attr in _DICT_METHODS
    elif isinstance(par, ast.Compare):
      keep = True
    elif isinstance(par, (ast.For, ast.AsyncFor, ast.comprehension)) and par.iter is n:
      keep = True
    elif isinstance(par, ast.Call) and isinstance(par.func, ast.Name) and par.func.id in _PURE \
        and n in par.args:
      keep = True
    elif isinstance(par, ast.Return):
      keep = True
    elif isinstance(par, (ast.If, ast.While, ast.IfExp)) and par.test is n:
      keep = True
    elif isinstance(par, (ast.BoolOp, ast.Assert)) or (
        isinstance(par, ast.UnaryOp) and isinstance(par.op, ast.Not)):
      keep = True
    if not keep:
      maps.pop(n.id)
  return maps


def _map_of(e, maps):
  """The local map an expression denotes the key set of (d, d.keys())."""
  if isinstance(e, ast.Name) and e.id in maps:
    return e.id
  if isinstance(e, ast.Call) and not e.args and not e.keywords and isinstance(e.func, ast.Attribute) \
      and e.func.attr == "keys":
    return _map_of(e.func.value, maps)
  return None


class _Presence:
  """Must-analysis of `key present in map` facts over one function body."""

  def __init__(self, mod, fn, maps):
    self.mod, self.fn, self.maps = mod, fn, maps
    self.reads = {}     # Subscript node -> frozenset of facts (None = unreachable)
    self.subs = {}      # key dump -> sub-expression dumps
    self.block(fn.body, frozenset())

  # -- facts ---------------------------------------------------------------
  def fact(self, d, key):
    k = _dump(key)
    self.subs.setdefault(k, _subdumps(key))
    return (d, k)

  def tfacts(self, t, pol=True):
    if isinstance(t, ast.UnaryOp) and isinstance(t.op, ast.Not):
      return self.tfacts(t.operand, not pol)
    if isinstance(t, ast.BoolOp):
      if isinstance(t.op, ast.And) == pol:
        out = frozenset()
        for v in t.values:
          out |= self.tfacts(v, pol)
        return out
      return frozenset()
    if isinstance(t, ast.Compare) and len(t.ops) == 1:
      d = _map_of(t.comparators[0], self.maps)
      if d and isinstance(t.ops[0], ast.In if pol else ast.NotIn):
        return frozenset([self.fact(d, t.left)])
    return frozenset()

  def iter_facts(self, target, it):
    e = it
    if isinstance(e, ast.Call) and isinstance(e.func, ast.Name) and e.func.id in _KEY_VIEWS \
        and len(e.args) == 1 and all(k.arg in ("key", "reverse") for k in e.keywords):
      e = e.args[0]
    d = _map_of(e, self.maps)
    if d:
      return frozenset([self.fact(d, target)])
    if isinstance(e, ast.Call) and not e.args and isinstance(e.func, ast.Attribute) \
        and e.func.attr == "items" and _map_of(e.func.value, self.maps) \
        and isinstance(target, (ast.Tuple, ast.List)) and len(target.elts) == 2:
      return frozenset([self.fact(_map_of(e.func.value, self.maps), target.elts[0])])
    return frozenset()

  def kills(self, node):
    """(dumps of stored places, maps that lose keys) anywhere inside node."""
    stored, shrunk = set(), set()
    for n in [node] + list(walk_no_nested(node)):
      if isinstance(n, (ast.Name, ast.Attribute, ast.Subscript)) and \
          isinstance(n.ctx, (ast.Store, ast.Del)):
        stored.add(_dump(n))
        if isinstance(n, ast.Subscript) and isinstance(n.ctx, ast.Del) and \
            isinstance(n.value, ast.Name) and n.value.id in self.maps:
          shrunk.add(n.value.id)
      elif isinstance(n, ast.Call) and isinstance(n.func, ast.Attribute) and \
          n.func.attr in _REMOVERS and isinstance(n.func.value, ast.Name) and \
          n.func.value.id in self.maps:
        shrunk.add(n.func.value.id)
      elif isinstance(n, (ast.FunctionDef, ast.AsyncFunctionDef, ast.ClassDef)):
        stored.add(_dump(ast.Name(id=n.name, ctx=ast.Load())))
      elif isinstance(n, ast.alias):
        stored.add(_dump(ast.Name(id=(n.asname or n.name).split(".")[0], ctx=ast.Load())))
      elif isinstance(n, ast.ExceptHandler) and n.name:
        stored.add(_dump(ast.Name(id=n.name, ctx=ast.Load())))
      elif isinstance(n, (ast.MatchAs, ast.MatchStar)) and n.name:
        stored.add(_dump(ast.Name(id=n.name, ctx=ast.Load())))
      elif isinstance(n, ast.MatchMapping) and n.rest:
        stored.add(_dump(ast.Name(id=n.rest, ctx=ast.Load())))
    return stored, shrunk

  def kill(self, st, *nodes):
    if st is None:
      return None
    stored, shrunk = set(), set()
    for n in nodes:
      if n is not None:
        a, b = self.kills(n)
        stored |= a
        shrunk |= b
    if not stored and not shrunk:
      return st
    name_dumps = {_dump(ast.Name(id=d, ctx=ast.Load())): d for d in self.maps}
    rebound = {name_dumps[s] for s in stored if s in name_dumps}
    return frozenset(f for f in st if f[0] not in shrunk and f[0] not in rebound
                     and not (self.subs[f[1]] & stored))

  @staticmethod
  def merge(*sts):
    live = [s for s in sts if s is not None]
    if not live:
      return None
    out = live[0]
    for s in live[1:]:
      out &= s
    return out

  def stores(self, node, st):
    """Facts established once the simple statement `node` has run."""
    out = set()
    stored, _ = self.kills(node)
    for n in walk_no_nested(node):
      key = None
      if isinstance(n, ast.Subscript) and isinstance(n.ctx, ast.Store) and \
          isinstance(n.value, ast.Name) and n.value.id in self.maps:
        key, d = n.slice, n.value.id
      elif isinstance(n, ast.Call) and isinstance(n.func, ast.Attribute) and \
          n.func.attr == "setdefault" and isinstance(n.func.value, ast.Name) and \
          n.func.value.id in self.maps and n.args and n in flow.unconditional_calls(node):
        key, d = n.args[0], n.func.value.id
      if key is not None and not (_subdumps(key) & (stored - {_dump(n)})):
        out.add(self.fact(d, key))
    return st | out

  # -- expressions ---------------------------------------------------------
  def expr(self, e, st):
    if e is None or st is None:
      return
    if isinstance(e, ast.BoolOp):
      cur = st
      for v in e.values:
        self.expr(v, cur)
        cur = cur | self.tfacts(v, isinstance(e.op, ast.And))
      return
    if isinstance(e, ast.IfExp):
      self.expr(e.test, st)
      self.expr(e.body, st | self.tfacts(e.test, True))
      self.expr(e.orelse, st | self.tfacts(e.test, False))
      return
    if isinstance(e, (ast.ListComp, ast.SetComp, ast.GeneratorExp, ast.DictComp)):
      cur = st
      for g in e.generators:
        self.expr(g.iter, cur)
        cur = self.kill(cur, g.target) | self.iter_facts(g.target, g.iter)
        for c in g.ifs:
          self.expr(c, cur)
          cur = cur | self.tfacts(c, True)
      for part in ([e.key, e.value] if isinstance(e, ast.DictComp) else [e.elt]):
        self.expr(part, cur)
      return
    if isinstance(e, (ast.Lambda, ast.FunctionDef, ast.AsyncFunctionDef, ast.ClassDef)):
      return
    if isinstance(e, ast.Subscript) and isinstance(e.ctx, ast.Load) and \
        isinstance(e.value, ast.Name) and e.value.id in self.maps:
      self.reads[e] = st
    for c in ast.iter_child_nodes(e):
      self.expr(c, st)

  # -- statements ----------------------------------------------------------
  def block(self, stmts, st):
    for s in stmts:
      if st is None:
        break
      st = self.stmt(s, st)
    return st

  def stmt(self, s, st):
    if isinstance(s, (ast.FunctionDef, ast.AsyncFunctionDef, ast.ClassDef)):
      return self.kill(st, s)
    if isinstance(s, ast.If):
      self.expr(s.test, st)
      st = self.kill(st, s.test)
      return self.merge(self.block(s.body, st | self.tfacts(s.test, True)),
                        self.block(s.orelse, st | self.tfacts(s.test, False)))
    if isinstance(s, ast.While):
      inner = self.kill(st, s)
      self.expr(s.test, inner)
      self.block(s.body, inner | self.tfacts(s.test, True))
      o = self.block(s.orelse, inner)
      return inner if o is None or not s.orelse else inner & o
    if isinstance(s, (ast.For, ast.AsyncFor)):
      self.expr(s.iter, st)
      inner = self.kill(st, s)
      self.block(s.body, inner | self.iter_facts(s.target, s.iter))
      o = self.block(s.orelse, inner)
      return inner if o is None or not s.orelse else inner & o
    if isinstance(s, (ast.Try, ast.TryStar)):
      killed = self.kill(st, s)
      b = self.block(s.body, st)
      if s.orelse:
        b = self.block(s.orelse, b) if b is not None else None
      hs = [self.block(h.body, killed) for h in s.handlers]
      out = self.merge(b, *hs)
      if s.finalbody:
        f = self.block(s.finalbody, killed)
        out = None if f is None else self.kill(out, *s.finalbody)
      return out
    if isinstance(s, (ast.With, ast.AsyncWith)):
      for it in s.items:
        self.expr(it.context_expr, st)
      st = self.kill(st, *[it.optional_vars for it in s.items], *[it.context_expr for it in s.items])
      return self.block(s.body, st)
    if isinstance(s, ast.Match):
      self.expr(s.subject, st)
      killed = self.kill(st, s)
      outs = []
      for c in s.cases:
        self.expr(c.guard, killed)
        outs.append(self.block(c.body, killed))
      return self.merge(killed, *outs)
    if isinstance(s, (ast.Return, ast.Raise)):
      for c in ast.iter_child_nodes(s):
        self.expr(c, st)
      return None
    if isinstance(s, (ast.Break, ast.Continue)):
      return None
    # simple statements
    if isinstance(s, ast.AugAssign):
      t = s.target
      if isinstance(t, ast.Subscript) and isinstance(t.value, ast.Name) and t.value.id in self.maps:
        self.reads[t] = st    # `d[K] += v` reads d[K] first
    for c in ast.iter_child_nodes(s):
      self.expr(c, st)
    st = self.stores(s, self.kill(st, s))
    if isinstance(s, ast.Assert):
      st = st | self.tfacts(s.test, True)
    return st


def _keyerror_handler(mod, node, fn):
  cur = node
  while cur is not fn and cur in mod.parent:
    par = mod.parent[cur]
    if isinstance(par, (ast.Try, ast.TryStar)) and cur in par.body:
      for h in par.handlers:
        ts = [None] if h.type is None else (h.type.elts if isinstance(h.type, ast.Tuple) else [h.type])
        names = {"BaseException" if t is None else src(t).split(".")[-1] for t in ts}
        if names & _KEYERR:
          return True
    cur = par
  return False


def _inserts(stmt, d):
  """Does the simple statement insert into d whenever it completes?"""
  for n in flow.unconditional_nodes(stmt):
    if isinstance(n, ast.Subscript) and isinstance(n.ctx, ast.Store) and \
        isinstance(n.value, ast.Name) and n.value.id == d:
      return True
    if isinstance(n, ast.Call) and isinstance(n.func, ast.Attribute) and \
        n.func.attr in ("setdefault", "update") and isinstance(n.func.value, ast.Name) \
        and n.func.value.id == d:
      return True
  return False


def _must_insert(stmts, d):
  """(every path falling out of / returning from the block has inserted into d,
  some path leaves the iteration by continue/break without inserting)."""
  for s in stmts:
    if isinstance(s, (ast.Continue, ast.Break)):
      return False, True
    if isinstance(s, (ast.Return, ast.Raise)):
      return True, False     # the path ends here: nothing is read afterwards
    if isinstance(s, ast.If):
      m1, l1 = _must_insert(s.body, d)
      m2, l2 = _must_insert(s.orelse, d)
      if l1 or l2:
        return False, True
      if m1 and m2:
        return True, False
    elif isinstance(s, (ast.With, ast.AsyncWith)):
      m, l = _must_insert(s.body, d)
      if l or m:
        return m, l
    elif isinstance(s, (ast.Try, ast.TryStar, ast.Match)):
      blocks = [s.body, s.orelse, s.finalbody] + [h.body for h in s.handlers] \
          if not isinstance(s, ast.Match) else [c.body for c in s.cases]
      if any(_must_insert(b, d)[1] for b in blocks):
        return False, True
    elif isinstance(s, _LOOPS + (ast.FunctionDef, ast.AsyncFunctionDef, ast.ClassDef)):
      continue
    elif _inserts(s, d):
      return True, False
  return False, False


def _fill_conditions(mod, fn, d, maps):
  """Per insertion into d: the conditions (other than membership tests on d
  itself) under which it runs, relative to its innermost loop."""
  out = []
  for n in walk_no_nested(fn):
    site = None
    if isinstance(n, ast.Subscript) and isinstance(n.ctx, ast.Store) and \
        isinstance(n.value, ast.Name) and n.value.id == d:
      site = n
    elif isinstance(n, ast.Call) and isinstance(n.func, ast.Attribute) and \
        n.func.attr in ("setdefault", "update") and isinstance(n.func.value, ast.Name) \
        and n.func.value.id == d:
      site = n
    if site is None:
      continue
    st = mod.enclosing_stmt(site)
    loop = st
    while loop is not fn and not isinstance(loop, _LOOPS):
      loop = mod.parent[loop]
    conds = []
    for t, pol in flow.guards(mod.parent, st, stop=loop):
      if isinstance(loop, ast.While) and t is loop.test:
        continue
      if isinstance(t, ast.Compare) and len(t.ops) == 1 and isinstance(t.ops[0], (ast.In, ast.NotIn)) \
          and _map_of(t.comparators[0], {d: maps[d]}):
        continue
      conds.append(("" if pol else "not ") + src(t))
    # expression-level conditions (x and d.setdefault(..), IfExp arms) and
    # handler / match-case placement also make the fill conditional
    cur = site
    while cur is not st:
      par = mod.parent[cur]
      if isinstance(par, ast.IfExp) and cur is not par.test:
        conds.append(src(par.test))
      elif isinstance(par, ast.BoolOp) and cur is not par.values[0]:
        conds.append(src(par.values[0]))
      elif isinstance(par, ast.comprehension) or (
          isinstance(par, (ast.ListComp, ast.SetComp, ast.GeneratorExp, ast.DictComp))
          and cur not in [g.iter for g in par.generators[:1]]):
        conds.append("<comprehension>")
      cur = par
    cur = st
    while cur is not loop:
      par = mod.parent[cur]
      if isinstance(par, ast.ExceptHandler):
        conds.append("<except handler>")
      elif isinstance(par, ast.match_case):
        conds.append("<match case>")
      cur = par
    must, leak = _must_insert(fn.body if loop is fn else loop.body, d)
    out.append((st.lineno, conds, must and not leak, loop))
  return out


def _qualname(mod, fn):
  parts = [fn.name]
  cur = fn
  while cur in mod.parent:
    cur = mod.parent[cur]
    if isinstance(cur, (ast.FunctionDef, ast.AsyncFunctionDef, ast.ClassDef)):
      parts.append(cur.name)
  return ".".join(reversed(parts))


def _map_reads(ctx, rel):
  """[(qualname, d, kind, read node, verdict, facts)] for one module."""
  mod = get_module(ctx, rel)
  out = []
  for fn in ast.walk(mod.tree):
    if not isinstance(fn, (ast.FunctionDef, ast.AsyncFunctionDef)):
      continue
    maps = _local_maps(mod, fn)
    if not maps:
      continue
    pres = _Presence(mod, fn, maps)
    fills = {}
    for read, st in pres.reads.items():
      d = read.value.id
      q = _qualname(mod, fn)
      if maps[d] == "defaultdict":
        out.append((q, d, read, "ok", {"evidence": "defaultdict: a miss creates the entry"}))
        continue
      if st is None:
        continue
      if (d, _dump(read.slice)) in st:
        out.append((q, d, read, "ok", {"evidence": "presence established on every path"}))
        continue
      if _keyerror_handler(mod, read, fn):
        out.append((q, d, read, "ok", {"evidence": "enclosing KeyError handler"}))
        continue
      if d not in fills:
        fills[d] = _fill_conditions(mod, fn, d, maps)
      if not fills[d]:
        # built from empty, kept local, never inserted into: every read misses
        out.append((q, d, read, "bad", {"fills": ["the function never inserts into it"]}))
        continue
      if any(total for _, _, total, _ in fills[d]):
        continue    # total over its loop's domain: outside the rule
      # the same domain iterated again may replay the filter: presence would
      # follow from the predicate, which this rule does not compare
      fill_iters = {_dump(lp.iter) for _, _, _, lp in fills[d]
                    if isinstance(lp, (ast.For, ast.AsyncFor))}
      cur = read
      while cur is not fn:
        cur = mod.parent[cur]
        its = [cur.iter] if isinstance(cur, (ast.For, ast.AsyncFor)) else \
            [g.iter for g in cur.generators] if isinstance(
                cur, (ast.ListComp, ast.SetComp, ast.GeneratorExp, ast.DictComp)) else []
        if any(_dump(i) in fill_iters for i in its):
          raise AnalysisError(
              f"{rel}:{read.lineno}: `{src(read)}` is read while iterating the domain "
              f"`{src(its[0])}` the map was filled from; whether the read replays the fill's "
              "filter is not decided by this rule")
      out.append((q, d, read, "bad", {
          "fills": [f"line {ln}: " + ("only if " + " and ".join(c) if c else "not on every path")
                    for ln, c, _, _ in fills[d]]}))
  return out


@rule("R15.51", "C15", floor=2)
def r15_51(ctx):
  """A subscript read of a locally built, conditionally filled dict happens only where the key's presence is established (membership test, dominating store, iteration over the dict, KeyError handler)."""
  for rel in _scope(ctx):
    for q, d, read, verdict, facts in _map_reads(ctx, rel):
      facts = dict(facts, read=src(read))
      ctx.check(verdict == "ok", f"partial-map:{q}:{d}[{src(read.slice)}]", rel, read.lineno,
                f"`{d}` is built in {q} from empty and filled only under a condition "
                f"({'; '.join(facts.get('fills', []))}), so it holds the keys that passed the "
                f"filter only; `{src(read)}` is evaluated without `{src(read.slice)} in {d}` "
                "being established on the path (no membership test, dominating store, iteration "
                "over the map or KeyError handler): a key that was never inserted raises "
                "KeyError inside the analysis", facts)


# ---------------------------------------------------------------------------

CB = "pytype/pyc/compile_bytecode.py"
OP = "pytype/pyc/opcodes.py"
VM = "pytype/vm.py"

_EXC = "  except Exception as err:  # pylint: disable=broad-except\n    output.write(b\"\\1\")\n"
_TRY = "  try:\n    codeobject = compile(src, filename, mode)\n"
_GUARD = ("      if get_anext not in get_anext_incoming:\n"
          "        continue\n"
          "      for jump_backward in get_anext_incoming[get_anext]:\n")
_BODY = "        jump_backward.end_async_for_target = offset_to_op[e.target]\n"
_FILL = ("      if op.target not in get_anext_incoming:\n"
         "        get_anext_incoming[op.target] = set()\n"
         "      get_anext_incoming[op.target].add(op)\n")

_WHOLE = ("  get_anext_incoming: dict[JUMP_BACKWARD, set[GET_ANEXT]] = {}\n"
          "  for op in ops:\n"
          "    if isinstance(op, JUMP_BACKWARD) and isinstance(op.target, GET_ANEXT):\n"
          + _FILL + "\n"
          "  for e in exc_table.entries:\n"
          "    if e.start in offset_to_op and isinstance(offset_to_op[e.start], GET_ANEXT):\n"
          "      get_anext = offset_to_op[e.start]\n"
          + _GUARD + _BODY)

VARIANTS = [
    # -- R15.50
    {"name": "handler-syntaxerror-only", "rule": "R15.50", "file": CB, "expect": "fire",
     "old": _EXC, "new": _EXC.replace("Exception", "SyntaxError")},
    {"name": "handler-lists-recursion-but-not-memory", "rule": "R15.50", "file": CB, "expect": "fire",
     "old": _EXC, "new": _EXC.replace("Exception", "(SyntaxError, RecursionError)")},
    {"name": "compile-moved-out-of-the-try", "rule": "R15.50", "file": CB, "expect": "fire",
     "old": _TRY, "new": "  codeobject = compile(src, filename, mode)\n  try:\n    pass\n"},
    {"name": "earlier-handler-reraises-recursionerror", "rule": "R15.50", "file": CB, "expect": "fire",
     "old": _EXC, "new": "  except RecursionError:\n    raise\n" + _EXC},
    {"name": "twin-handler-baseexception", "rule": "R15.50", "file": CB, "expect": "silent",
     "old": _EXC, "new": _EXC.replace("Exception", "BaseException")},
    {"name": "twin-handler-tuple-spelling", "rule": "R15.50", "file": CB, "expect": "silent",
     "old": _EXC, "new": _EXC.replace("Exception", "(SyntaxError, Exception)")},
    {"name": "twin-handler-variable-renamed", "rule": "R15.50", "file": CB, "expect": "silent",
     "old": _EXC + "    output.write(str(err).encode(\"utf-8\"))\n",
     "new": "  except Exception as failure:\n    output.write(b\"\\1\")\n"
            "    output.write(str(failure).encode(\"utf-8\"))\n"},
    # -- R15.51
    {"name": "guard-tests-another-key", "rule": "R15.51", "file": OP, "expect": "fire",
     "old": "      if get_anext not in get_anext_incoming:\n        continue\n",
     "new": "      if e.start not in get_anext_incoming:\n        continue\n"},
    {"name": "guard-after-the-read", "rule": "R15.51", "file": OP, "expect": "fire",
     "old": _GUARD,
     "new": "      incoming = get_anext_incoming[get_anext]\n"
            "      if get_anext not in get_anext_incoming:\n"
            "        continue\n"
            "      for jump_backward in incoming:\n"},
    {"name": "fill-loses-its-initialisation", "rule": "R15.51", "file": OP, "expect": "fire",
     "old": _FILL, "new": "      get_anext_incoming[op.target].add(op)\n"},
    {"name": "key-rebound-between-guard-and-read", "rule": "R15.51", "file": OP, "expect": "fire",
     "old": _GUARD,
     "new": "      if get_anext not in get_anext_incoming:\n"
            "        continue\n"
            "      get_anext = offset_to_op[e.target]\n"
            "      for jump_backward in get_anext_incoming[get_anext]:\n"},
    {"name": "twin-guard-as-positive-if", "rule": "R15.51", "file": OP, "expect": "silent",
     "old": _GUARD + _BODY,
     "new": "      if get_anext in get_anext_incoming:\n"
            "        for jump_backward in get_anext_incoming[get_anext]:\n  " + _BODY},
    {"name": "twin-fill-with-setdefault", "rule": "R15.51", "file": OP, "expect": "silent",
     "old": _FILL, "new": "      get_anext_incoming.setdefault(op.target, set()).add(op)\n"},
    {"name": "twin-keyerror-handler", "rule": "R15.51", "file": OP, "expect": "silent",
     "old": _GUARD,
     "new": "      try:\n"
            "        incoming = get_anext_incoming[get_anext]\n"
            "      except KeyError:\n"
            "        continue\n"
            "      for jump_backward in incoming:\n"},
    {"name": "twin-locals-renamed-one-lookup", "rule": "R15.51", "file": OP, "expect": "silent",
     "old": _WHOLE,
     "new": "  back_edges = {}\n"
            "  for op in ops:\n"
            "    if not isinstance(op, JUMP_BACKWARD):\n"
            "      continue\n"
            "    head = op.target\n"
            "    if isinstance(head, GET_ANEXT):\n"
            "      if head in back_edges:\n"
            "        back_edges[head].add(op)\n"
            "      else:\n"
            "        back_edges[head] = {op}\n"
            "\n"
            "  for entry in exc_table.entries:\n"
            "    head = offset_to_op.get(entry.start)\n"
            "    if isinstance(head, GET_ANEXT) and head in back_edges:\n"
            "      for jump in back_edges[head]:\n"
            "        jump.end_async_for_target = offset_to_op[entry.target]\n"},
    {"name": "twin-get-with-default", "rule": "R15.51", "file": OP, "expect": "silent",
     "old": _GUARD,
     "new": "      for jump_backward in get_anext_incoming.get(get_anext, ()):\n"},
]
