"""C01 extension: equality of abstract values is not decided by their hash.

R1.27  Abstract values are used as dict keys and set members on the way to the
       stub: output.Converter._value_to_parameter_types collects the values of
       a container's type parameter in `{val: view}`, unions and mutations are
       compared by `==`.  Two values that compare equal collapse into one key
       and only the first one's type reaches the stub - the inferred type then
       excludes a value the program computes (`[((1,),), (('a',),)]` becomes
       list[tuple[tuple[int]]]).  The hashes of abstract values are
       deliberately *approximate* (Tuple.__hash__ digests the full names of
       the element values only, to survive self-containing tuples), which is
       fine for a hash and fatal for an equality.  So, for every class of
       pytype/abstract/ that defines its own `__eq__`:

         (A) `__eq__` may compare hashes (hash(x), x.__hash__(), the memo
             attribute `__hash__` writes) only as a *fallback*: on a path
             guarded by an explicit predicate call on an operand (today
             `self._is_recursive() or other._is_recursive()`); a hash
             comparison on the default path, or one that is merely and-ed
             with a shallower test, decides equality by the hash;
         (B) where hashes take part at all, there must be a content path, and
             it must read from BOTH operands every attribute `__hash__`
             digests (methods of the same class called on the operands are
             followed): equality has to look at least at what the
             approximation looks at - in fact deeper, which is not decided.

       A class that defines `__getattribute__` (a transparent proxy such as
       LateAnnotation, whose `__hash__` is its target's) is listed but not
       decided.
"""
import ast

from sa.core import rule, AnalysisError
from sa.pyindex import get_module, dotted, src, all_py_files, walk_no_nested
from sa import flow

ABSTRACT_DIR = "pytype/abstract/"


def _own_method(cls, name):
  for st in cls.body:
    if isinstance(st, ast.FunctionDef) and st.name == name:
      return st
  return None


def _memo_attrs(hash_fn):
  """Attributes of self that __hash__ writes (its memo)."""
  if hash_fn is None:
    return set()
  me = hash_fn.args.args[0].arg
  return {n.attr for n in ast.walk(hash_fn) if isinstance(n, ast.Attribute)
          and isinstance(n.ctx, ast.Store) and isinstance(n.value, ast.Name)
          and n.value.id == me}


def _hash_inputs(hash_fn, memo):
  me = hash_fn.args.args[0].arg
  return {n.attr for n in ast.walk(hash_fn) if isinstance(n, ast.Attribute)
          and isinstance(n.ctx, ast.Load) and isinstance(n.value, ast.Name)
          and n.value.id == me and n.attr not in memo
          and not n.attr.startswith("__")}


def _is_hash_derived(e, operands, memo):
  if isinstance(e, ast.Call):
    if dotted(e.func) == "hash" and len(e.args) == 1 and \
        isinstance(e.args[0], ast.Name) and e.args[0].id in operands:
      return True
    if isinstance(e.func, ast.Attribute) and e.func.attr == "__hash__" and \
        isinstance(e.func.value, ast.Name) and e.func.value.id in operands:
      return True
  if isinstance(e, ast.Attribute) and e.attr in memo and \
      isinstance(e.value, ast.Name) and e.value.id in operands:
    return True
  return False


def _hash_compares(e, operands, memo):
  return [n for n in ast.walk(e) if isinstance(n, ast.Compare) and len(n.ops) == 1
          and isinstance(n.ops[0], (ast.Eq, ast.NotEq, ast.Is, ast.IsNot))
          and _is_hash_derived(n.left, operands, memo)
          and _is_hash_derived(n.comparators[0], operands, memo)]


def _mentions_hash(e, operands, memo):
  return any(_is_hash_derived(n, operands, memo) for n in ast.walk(e))


def _split(value, guards):
  """Conditional expressions in a returned value are separate paths."""
  if isinstance(value, ast.IfExp):
    return _split(value.body, guards + [(value.test, True)]) + \
        _split(value.orelse, guards + [(value.test, False)])
  return [(guards, value)]


def _positive(test, pol):
  while isinstance(test, ast.UnaryOp) and isinstance(test.op, ast.Not):
    test, pol = test.operand, not pol
  return test, pol


def _is_predicate_guard(test, pol, operands, memo):
  """`test` holds (polarity normalised) and calls a method on an operand."""
  test, pol = _positive(test, pol)
  if not pol:
    return False
  for n in ast.walk(test):
    if isinstance(n, ast.Call) and isinstance(n.func, ast.Attribute) and \
        isinstance(n.func.value, ast.Name) and n.func.value.id in operands and \
        n.func.attr != "__hash__":
      return True
  return False


def _reads(cls, fn, exprs, me, other, depth=0):
  """(attrs read from self, attrs read from other) by `exprs`, following calls
  of methods of the same class on/with the operands."""
  mine, theirs = set(), set()
  for e in exprs:
    for n in ast.walk(e):
      if isinstance(n, ast.Attribute) and isinstance(n.value, ast.Name):
        if n.value.id == me:
          mine.add(n.attr)
        elif other is not None and n.value.id == other:
          theirs.add(n.attr)
      if depth < 2 and isinstance(n, ast.Call) and isinstance(n.func, ast.Attribute) and \
          isinstance(n.func.value, ast.Name) and n.func.value.id in (me, other):
        callee = _own_method(cls, n.func.attr)
        if callee is None or callee is fn:
          continue
        ps = [a.arg for a in callee.args.args]
        if not ps:
          continue
        recv_is_me = n.func.value.id == me
        # which callee parameter receives the *other* operand
        other_p = None
        for p, a in zip(ps[1:], n.args):
          if isinstance(a, ast.Name) and a.id == (other if recv_is_me else me):
            other_p = p
        m2, t2 = _reads(cls, callee, callee.body, ps[0], other_p, depth + 1)
        if recv_is_me:
          mine |= m2
          theirs |= t2
        else:
          theirs |= m2
          mine |= t2
  return mine, theirs


@rule("R1.27", "C01", floor=7)
def r1_27(ctx):
  """__eq__ of an abstract value compares content, hashes only as a guarded fallback."""
  n_hash = 0
  for rel in all_py_files(ctx, "pytype/abstract"):
    if rel.endswith("_test.py") or "__eq__" not in ctx.read(rel):
      continue
    mod = get_module(ctx, rel)
    for cls in ast.walk(mod.tree):
      if not isinstance(cls, ast.ClassDef):
        continue
      eq = _own_method(cls, "__eq__")
      if eq is None:
        continue
      construct = f"{rel.removeprefix(ABSTRACT_DIR)}:{cls.name}.__eq__:not-decided-by-hash"
      ps = [a.arg for a in eq.args.args]
      if len(ps) != 2:
        raise AnalysisError(f"{cls.name}.__eq__: signature {ps} not understood")
      me, other = ps
      operands = {me, other}
      hs = _own_method(cls, "__hash__")
      memo = _memo_attrs(hs)
      if not any(_mentions_hash(st, operands, memo) for st in eq.body):
        ctx.ok(construct, rel, eq.lineno, {"hash_in_eq": False})
        continue
      if _own_method(cls, "__getattribute__") is not None:
        ctx.ok(construct, rel, eq.lineno,
               {"hash_in_eq": True, "note": "transparent proxy (defines __getattribute__): "
                "its hash is its target's; not decided"})
        continue
      n_hash += 1
      if hs is None:
        raise AnalysisError(f"{cls.name}.__eq__ compares hashes but the class does not "
                            "define __hash__ itself; not followed")
      rets = []
      for r in walk_no_nested(eq):
        if isinstance(r, ast.Return) and r.value is not None:
          rets += _split(r.value, list(flow.guards(mod.parent, r, stop=eq)))
      f = flow.flow(eq, lambda u: ())
      if any(k == "end" for k, _, _ in f.exits):
        raise AnalysisError(f"{cls.name}.__eq__ can fall off its end")
      problems, content = [], []
      for guards, value in rets:
        cmps = _hash_compares(value, operands, memo)
        if not cmps:
          if _mentions_hash(value, operands, memo):
            raise AnalysisError(f"{cls.name}.__eq__: `{src(value)[:60]}` uses a hash in a "
                                "way that is not understood")
          if not (isinstance(value, ast.Constant) or dotted(value) == "NotImplemented"):
            content.append((guards, value))
          continue
        rest = []
        if isinstance(value, ast.BoolOp) and isinstance(value.op, ast.And):
          rest = [v for v in value.values if not _hash_compares(v, operands, memo)]
        elif not (isinstance(value, ast.Compare) and value is cmps[0]):
          raise AnalysisError(f"{cls.name}.__eq__: `{src(value)[:60]}` combines a hash "
                              "comparison in a way that is not understood")
        if rest:
          # `hashes equal and <rest>`: a shortcut if <rest> is a content comparison
          content.append((guards, ast.BoolOp(op=ast.And(), values=rest)))
          continue
        if not any(_is_predicate_guard(t, p, operands, memo) for t, p in guards):
          problems.append(
              f"`return {src(value)[:70]}` is reached without an explicit fallback "
              "predicate on the operands (guards: "
              f"{[('' if p else 'not ') + src(t)[:40] for t, p in guards]})")
      inputs = _hash_inputs(hs, memo)
      if not content:
        problems.append("no path compares the content of the two values")
      else:
        best = None
        for guards, value in content:
          mine, theirs = _reads(cls, eq, [value], me, other)
          # guards count with what they compare themselves (`a.n != b.n: return
          # False`), not with what the predicates they call happen to read
          g_mine, g_theirs = _reads(cls, eq, [t for t, _ in guards], me, other, depth=2)
          mine, theirs = mine | g_mine, theirs | g_theirs
          missing = sorted((inputs - mine) | (inputs - theirs))
          if best is None or len(missing) < len(best):
            best = missing
        if best:
          problems.append(f"the content path does not read {best} of both operands, "
                          "which even the approximate hash digests")
      ctx.check(not problems, construct, rel, eq.lineno,
                f"{cls.name}.__eq__ is decided by the hash, and {cls.name}.__hash__ is an "
                f"approximation (it digests {sorted(inputs)} "
                "shallowly): " + "; ".join(problems) + ". Distinct values then compare "
                "equal and collapse as dict keys in "
                "output.Converter._value_to_parameter_types: `[((1,),), (('a',),)]` is "
                "inferred as list[tuple[tuple[int]]], which excludes the second element",
                {"hash_in_eq": True, "hash_inputs": sorted(inputs), "memo": sorted(memo),
                 "returns": [src(v)[:60] for _, v in rets]})
  if not n_hash:
    raise AnalysisError("no __eq__ in pytype/abstract/ mentions a hash any more (the rule "
                        "was written for Tuple.__eq__'s guarded fallback)")


INST = "pytype/abstract/_instances.py"
_EQ_TAIL = ("    # If we find a tuple that contains itself, fall back to comparing hashes.\n"
            "    if self._is_recursive() or other._is_recursive():\n"
            "      return self._hash == other._hash\n"
            "    # Otherwise do an elementwise comparison.\n"
            "    return all(\n"
            "        e.data == other_e.data for e, other_e in zip(self.pyval, other.pyval)\n"
            "    )\n")

VARIANTS = [
    {"name": "seeded-C01-r4m2", "rule": "R1.27", "patch": "seeded/C01-r4m2/patch.diff",
     "expect": "fire"},
    {"name": "tuple-eq-by-memo-attribute", "rule": "R1.27", "file": INST, "expect": "fire",
     "old": _EQ_TAIL,
     "new": "    hash(self), hash(other)\n"
            "    return self._hash == other._hash\n"},
    {"name": "tuple-eq-fallback-guarded-by-length-only", "rule": "R1.27", "file": INST, "expect": "fire",
     "old": "    if self._is_recursive() or other._is_recursive():\n"
            "      return self._hash == other._hash\n",
     "new": "    if self.tuple_length == other.tuple_length:\n"
            "      return self._hash == other._hash\n"},
    {"name": "tuple-eq-fallback-is-the-default", "rule": "R1.27", "file": INST,
     "expect": "fire", "old": _EQ_TAIL,
     "new": "    if not self.pyval:\n"
            "      return all(\n"
            "          e.data == other_e.data for e, other_e in zip(self.pyval, other.pyval))\n"
            "    return self.__hash__() == other.__hash__()\n"},
    {"name": "tuple-eq-content-path-ignores-elements", "rule": "R1.27", "file": INST,
     "expect": "fire", "old": _EQ_TAIL,
     "new": "    if self._is_recursive() or other._is_recursive():\n"
            "      return self._hash == other._hash\n"
            "    return self.cls == other.cls\n"},
    {"name": "twin-fallback-guard-inverted", "rule": "R1.27", "file": INST,
     "expect": "silent", "old": _EQ_TAIL,
     "new": "    if not (self._is_recursive() or other._is_recursive()):\n"
            "      return all(\n"
            "          mine.data == theirs.data\n"
            "          for mine, theirs in zip(self.pyval, other.pyval)\n"
            "      )\n"
            "    return self._hash == other._hash\n"},
    {"name": "twin-conditional-expression", "rule": "R1.27", "file": INST,
     "expect": "silent", "old": _EQ_TAIL,
     "new": "    return (self._hash == other._hash) if (\n"
            "        self._is_recursive() or other._is_recursive()) else all(\n"
            "            e.data == o.data for e, o in zip(self.pyval, other.pyval))\n"},
    {"name": "twin-elementwise-helper", "rule": "R1.27", "expect": "silent",
     "edits": [
         (INST, "    # Otherwise do an elementwise comparison.\n"
                "    return all(\n"
                "        e.data == other_e.data for e, other_e in zip(self.pyval, other.pyval)\n"
                "    )\n",
          "    return self._same_elements(other)\n"),
         (INST, "  def _is_recursive(self) -> bool:\n",
          "  def _same_elements(self, that) -> bool:\n"
          "    for e, other_e in zip(self.pyval, that.pyval):\n"
          "      if e.data != other_e.data:\n"
          "        return False\n"
          "    return True\n\n"
          "  def _is_recursive(self) -> bool:\n")]},
    {"name": "twin-hash-shortcut-before-content", "rule": "R1.27", "file": INST,
     "expect": "silent",
     "old": "    return all(\n"
            "        e.data == other_e.data for e, other_e in zip(self.pyval, other.pyval)\n"
            "    )\n",
     "new": "    return hash(self) == hash(other) and all(\n"
            "        e.data == other_e.data for e, other_e in zip(self.pyval, other.pyval)\n"
            "    )\n"},
    {"name": "hash-used-in-unknown-way", "rule": "R1.27", "file": INST, "expect": "error",
     "old": "      return self._hash == other._hash\n",
     "new": "      return abs(hash(self) - hash(other)) < 1\n"},
]
