"""C15 extension (R15.23): directive comment groups reach the Director in
ascending line order.

Three sites cooperate:

 A. `directors._LineSet.start_range(line, ..)` raises ValueError when `line` is
    smaller than the last transition: open-ended directives must arrive in
    non-decreasing line order.  Nothing between `Director.__init__` and
    `io.check_or_generate_pyi` catches that ValueError.
 B. `Director._parse_src_tree` walks `visitor.structured_comment_groups` in
    dict order and every group in list order, handing `comment.line` to the
    handlers that call `start_range`.
 C. `parser._ParseVisitor` therefore has to keep the ordered dict sorted by line
    range and every group sorted by line.  The dict is seeded in the order of
    the raw comments; `_add_structured_comment_group` appends the new range at
    the end and then re-appends (`move_to_end`) the ranges that must follow it
    and concatenates (`extend`) the groups it absorbs.  Both key lists are
    collected while walking the dict, so the direction of the collecting walk
    and the direction of the consuming walk must compose to *ascending*.

The rule tracks that direction (ascending/descending relative to the dict)
through `reversed(..)`, `append`/`insert(0, ..)`, `.reverse()`, `[::-1]` and
`sorted(.., key=<start line>)`, and requires every consuming loop to run in
ascending order.  Sites A and B are re-derived each run; if the requirement in
A disappears (or the ValueError gets caught) the premise is gone and the rule
reports an analysis error instead of guessing.
"""
import ast

from sa.core import rule, AnalysisError
from sa.pyindex import get_module, dotted, src, calls_in, walk_no_nested
from sa import flow
from rules import _util_c16c19 as U

DIR = "pytype/directors/directors.py"
PAR = "pytype/directors/parser.py"
GROUPS_ATTR = "structured_comment_groups"
GROUPS = "self." + GROUPS_ATTR
ASC, DESC = "ascending", "descending"


def _flip(d):
  return {ASC: DESC, DESC: ASC}.get(d, d)


def _exc_names(dmod, handler):
  if handler.type is None:
    return {"BaseException"}
  out = set()
  for t in (handler.type.elts if isinstance(handler.type, ast.Tuple) else [handler.type]):
    out.add((dotted(t) or "?").split(".")[-1])
  return out


def _catches_valueerror(dmod, names):
  """Would a handler for `names` catch ValueError?  Local exception classes
  are resolved through their bases."""
  for n in names:
    if n in ("ValueError", "Exception", "BaseException"):
      return True
    if n in dmod.classes:
      continue   # a class defined here cannot be a base of the builtin ValueError
    if n == "?":
      raise AnalysisError("except clause with an unresolvable exception expression")
  return False


def _monotonic_requirement(dmod):
  """The `raise ValueError` of start_range and its guard `line < <last>`."""
  fn = dmod.func("_LineSet.start_range")
  params = [a.arg for a in fn.args.args]
  if len(params) < 2:
    raise AnalysisError("_LineSet.start_range: parameters not understood")
  line = params[1]
  found = []
  for r in walk_no_nested(fn):
    if isinstance(r, ast.Raise) and r.exc is not None and "ValueError" in src(r.exc):
      for t, pol in flow.guards(dmod.parent, r):
        if isinstance(t, ast.Compare) and len(t.ops) == 1 and pol:
          a, b = t.left, t.comparators[0]
          if isinstance(t.ops[0], ast.Lt) and dotted(a) == line and isinstance(b, ast.Name):
            found.append((r, b.id))
          elif isinstance(t.ops[0], ast.Gt) and dotted(b) == line and isinstance(a, ast.Name):
            found.append((r, a.id))
  if not found:
    return fn, line, None
  r, last = found[0]
  defs = [n.value for n in walk_no_nested(fn) if isinstance(n, ast.Assign)
          and dotted(n.targets[0]) == last]
  # once-bound local aliases of the list (`transitions = self._transitions`)
  # denote the same object: read through them
  resolved = [src(U.resolve_aliases(fn, d)) for d in defs]
  if not (len(defs) == 1 and "self._transitions[-1]" in resolved[0]):
    raise AnalysisError(f"_LineSet.start_range: `{last}` is not the last transition: "
                        f"{resolved}")
  return fn, line, r


def _start_range_feeders(dmod):
  """Director methods -> parameter that (transitively) becomes the `line`
  argument of a start_range call."""
  meths = dmod.methods("Director")
  feeds = {}
  for name, fn in meths.items():
    params = [a.arg for a in fn.args.args + fn.args.kwonlyargs]
    for c in calls_in(fn):
      if isinstance(c.func, ast.Attribute) and c.func.attr == "start_range" and c.args:
        a0 = c.args[0]
        if isinstance(a0, ast.Name) and a0.id in params:
          feeds.setdefault(name, set()).add(a0.id)
        elif not isinstance(a0, ast.Constant):
          raise AnalysisError(f"Director.{name}: start_range({src(a0)}, ..) - the line "
                              "argument is neither a parameter nor a constant")
  changed = True
  while changed:
    changed = False
    for name, fn in meths.items():
      params = [a.arg for a in fn.args.args + fn.args.kwonlyargs]
      for c in calls_in(fn):
        d = dotted(c.func) or ""
        if d.startswith("self.") and d[5:] in feeds:
          callee = meths[d[5:]]
          cparams = [a.arg for a in callee.args.args][1:]
          amap = dict(zip(cparams, c.args))
          amap.update({k.arg: k.value for k in c.keywords if k.arg})
          for p in feeds[d[5:]]:
            a = amap.get(p)
            if isinstance(a, ast.Name) and a.id in params and a.id not in feeds.get(name, ()):
              feeds.setdefault(name, set()).add(a.id)
              changed = True
  return feeds


def _iter_direction(expr, base_src):
  """Direction in which `expr` iterates the container spelled base_src
  (optionally through .items()/.keys()/.values()); None if it is something else."""
  d = ASC
  while True:
    if isinstance(expr, ast.Call) and dotted(expr.func) == "reversed" and len(expr.args) == 1:
      d = _flip(d)
      expr = expr.args[0]
      continue
    if isinstance(expr, ast.Call) and dotted(expr.func) in ("list", "tuple", "iter") \
        and len(expr.args) == 1 and not expr.keywords:
      expr = expr.args[0]
      continue
    if isinstance(expr, ast.Subscript) and isinstance(expr.slice, ast.Slice) and \
        expr.slice.lower is None and expr.slice.upper is None and expr.slice.step is not None \
        and src(expr.slice.step) == "-1":
      d = _flip(d)
      expr = expr.value
      continue
    break
  s = src(expr)
  if s in (base_src, base_src + ".items()", base_src + ".keys()", base_src + ".values()"):
    return d
  return None


def _sorted_by_start(expr):
  """sorted(L, key=<.. start_line / attrgetter('start_line')>) -> (L, direction)."""
  if isinstance(expr, ast.Call) and dotted(expr.func) == "sorted" and len(expr.args) == 1:
    key = [k.value for k in expr.keywords if k.arg == "key"]
    rev = [k.value for k in expr.keywords if k.arg == "reverse"]
    if key and "start_line" in src(key[0]):
      if rev and not isinstance(rev[0], ast.Constant):
        return None
      return expr.args[0], DESC if (rev and rev[0].value) else ASC
  return None


class _Lists:
  """Direction of the key lists of one function, relative to the groups dict."""

  def __init__(self, mod, fn):
    self.mod, self.fn = mod, fn
    self.lists = {}       # name -> direction or None (empty so far)
    for n in walk_no_nested(fn):
      if isinstance(n, ast.Assign) and len(n.targets) == 1 and isinstance(n.targets[0], ast.Name) \
          and isinstance(n.value, ast.List) and not n.value.elts:
        self.lists[n.targets[0].id] = None
    self.problems = []

  def _enclosing_dict_loop(self, node):
    """Innermost enclosing `for` over the groups dict: (loop, direction)."""
    cur = node
    while cur in self.mod.parent and cur is not self.fn:
      cur = self.mod.parent[cur]
      if isinstance(cur, ast.For):
        d = _iter_direction(cur.iter, GROUPS)
        if d is not None:
          return cur, d
    return None, None

  def collect(self):
    """Sets the direction of every list from the statements that fill it."""
    calls = [n for n in walk_no_nested(self.fn)
             if isinstance(n, ast.Call) and isinstance(n.func, ast.Attribute)
             and isinstance(n.func.value, ast.Name) and n.func.value.id in self.lists]
    # fills first, then the in-place re-orderings in source order
    calls.sort(key=lambda n: (n.func.attr not in ("append", "insert"), n.lineno))
    for n in calls:
      if True:
        name, meth = n.func.value.id, n.func.attr
        if meth in ("append", "insert"):
          loop, d = self._enclosing_dict_loop(n)
          if loop is None:
            raise AnalysisError(f"{self.fn.name}: `{src(n)}` fills a key list outside a loop "
                                "over the groups dict")
          if meth == "insert":
            if not (len(n.args) == 2 and src(n.args[0]) == "0"):
              raise AnalysisError(f"{self.fn.name}: `{src(n)}` - only insert(0, ..) is understood")
            d = _flip(d)
          prev = self.lists[name]
          if prev is not None and prev != d:
            raise AnalysisError(f"{self.fn.name}: list {name} is filled in both directions")
          self.lists[name] = d
        elif meth == "reverse" and not n.args:
          st = self.mod.enclosing_stmt(n)
          if self.mod.parent.get(st) is not self.fn:
            raise AnalysisError(f"{self.fn.name}: conditional `{src(n)}`")
          if any(c.func.value.id == name and c.func.attr in ("append", "insert")
                 and c.lineno > n.lineno for c in calls):
            raise AnalysisError(f"{self.fn.name}: `{src(n)}` precedes a fill of the list")
          self.lists[name] = ("flip-at", st.lineno, self.lists[name])
        elif meth == "sort":
          key = [k.value for k in n.keywords if k.arg == "key"]
          rev = [k.value for k in n.keywords if k.arg == "reverse"]
          if not (key and "start_line" in src(key[0])) or (rev and not isinstance(rev[0], ast.Constant)):
            raise AnalysisError(f"{self.fn.name}: `{src(n)}` - sort key not understood")
          st = self.mod.enclosing_stmt(n)
          self.lists[name] = ("sorted-at", st.lineno, DESC if (rev and rev[0].value) else ASC)
        elif meth in ("extend", "pop", "remove", "clear"):
          raise AnalysisError(f"{self.fn.name}: `{src(n)}` on a key list is not understood")

  def direction_at(self, name, lineno):
    d = self.lists.get(name)
    if isinstance(d, tuple):
      kind, at, inner = d
      if kind == "flip-at":
        if isinstance(inner, tuple):
          raise AnalysisError(f"{self.fn.name}: list {name} reordered twice")
        return _flip(inner) if lineno > at else inner
      return inner if lineno > at else None
    return d

  def iteration(self, expr, lineno):
    """(list name, direction of the iteration) for a loop over a key list."""
    s = _sorted_by_start(expr)
    if s is not None and isinstance(s[0], ast.Name) and s[0].id in self.lists:
      return s[0].id, s[1]
    for name in self.lists:
      d = _iter_direction(expr, name)
      if d is not None:
        base = self.direction_at(name, lineno)
        if base is None:
          raise AnalysisError(f"{self.fn.name}: list {name} is iterated but its order is unknown")
        return name, (d if base == ASC else _flip(d))
    return None, None


@rule("R15.23", "C15", floor=6)
def r15_23(ctx):
  """Comment groups are kept, and consumed, in ascending line order."""
  dmod = get_module(ctx, DIR)
  pmod = get_module(ctx, PAR)
  # -- site A: the requirement -------------------------------------------------
  sr, line, raise_stmt = _monotonic_requirement(dmod)
  if raise_stmt is None:
    raise AnalysisError("_LineSet.start_range no longer raises ValueError for a decreasing "
                        "line; the premise of R15.23 is gone, re-derive the rule")
  ctx.ok("_LineSet.start_range:requires-nondecreasing-lines", DIR, raise_stmt.lineno,
         {"raise": src(raise_stmt), "parameter": line})
  # -- site B: the consumer feeds the groups in container order -----------------
  feeds = _start_range_feeders(dmod)
  pst = dmod.func("Director._parse_src_tree")
  visitors = [n.targets[0].id for n in walk_no_nested(pst) if isinstance(n, ast.Assign)
              and isinstance(n.targets[0], ast.Name) and isinstance(n.value, ast.Call)
              and (dotted(n.value.func) or "").endswith("visit_src_tree")]
  if len(visitors) != 1:
    raise AnalysisError("_parse_src_tree: the visitor binding was not found")
  vname = f"{visitors[0]}.{GROUPS_ATTR}"
  outer = [n for n in walk_no_nested(pst) if isinstance(n, ast.For) and vname in src(n.iter)]
  if len(outer) != 1:
    raise AnalysisError(f"_parse_src_tree: expected one loop over {vname}")
  outer = outer[0]
  d_outer = _iter_direction(outer.iter, vname)
  if d_outer is None:
    raise AnalysisError(f"_parse_src_tree: iteration `{src(outer.iter)}` is not understood")
  if not (isinstance(outer.target, ast.Tuple) and len(outer.target.elts) == 2
          and f"{vname}.items()" in src(outer.iter)) and f"{vname}.values()" not in src(outer.iter):
    raise AnalysisError(f"_parse_src_tree: loop target `{src(outer.target)}` is not understood")
  gname = src(outer.target.elts[1]) if isinstance(outer.target, ast.Tuple) else src(outer.target)
  inner = [n for n in ast.walk(outer) if isinstance(n, ast.For) and n is not outer
           and _iter_direction(n.iter, gname) is not None]
  if len(inner) != 1 or not isinstance(inner[0].target, ast.Name):
    raise AnalysisError(f"_parse_src_tree: expected one loop over the group `{gname}`")
  inner = inner[0]
  d_inner = _iter_direction(inner.iter, gname)
  cm = inner.target.id
  fed = []
  for c in calls_in(inner):
    d = dotted(c.func) or ""
    if d.startswith("self.") and d[5:] in feeds:
      callee = dmod.func(f"Director.{d[5:]}")
      cparams = [a.arg for a in callee.args.args][1:]
      amap = dict(zip(cparams, c.args))
      amap.update({k.arg: k.value for k in c.keywords if k.arg})
      for p in feeds[d[5:]]:
        if p in amap and src(amap[p]) == f"{cm}.line":
          fed.append((d[5:], c))
          # is a ValueError from this call caught on the way out of _parse_src_tree?
          cur = c
          while cur in dmod.parent and cur is not pst:
            par = dmod.parent[cur]
            if isinstance(par, ast.Try) and cur in par.body:
              for h in par.handlers:
                if _catches_valueerror(dmod, _exc_names(dmod, h)):
                  raise AnalysisError("_parse_src_tree: the ValueError of start_range is now "
                                      "caught; the premise of R15.23 is gone, re-derive the rule")
            cur = par
  if not fed:
    raise AnalysisError("_parse_src_tree: no handler reached from the group loops passes "
                        f"`{cm}.line` on to start_range")
  ctx.check(d_outer == ASC, "Director._parse_src_tree:groups-in-dict-order", DIR, outer.lineno,
            f"the groups are walked in {d_outer} order (`{src(outer.iter)}`), but "
            "start_range raises ValueError unless open-ended directives arrive by ascending line",
            {"iter": src(outer.iter), "handlers": sorted({h for h, _ in fed})})
  ctx.check(d_inner == ASC, "Director._parse_src_tree:group-in-list-order", DIR, inner.lineno,
            f"the comments of a group are walked in {d_inner} order (`{src(inner.iter)}`)",
            {"iter": src(inner.iter)})
  # -- site C: the producer keeps the order --------------------------------------
  init = pmod.func("_ParseVisitor.__init__")
  seeds = [n for n in walk_no_nested(init) if isinstance(n, ast.Assign)
           and dotted(n.targets[0]) == GROUPS]
  if len(seeds) != 1:
    raise AnalysisError("_ParseVisitor.__init__: structured_comment_groups seed not found")
  comps = [n for n in ast.walk(seeds[0].value)
           if isinstance(n, (ast.GeneratorExp, ast.ListComp, ast.DictComp))]
  if len(comps) != 1 or len(comps[0].generators) != 1:
    raise AnalysisError("structured_comment_groups seed is not a single comprehension")
  it = comps[0].generators[0].iter
  raw = [a.arg for a in init.args.args][1]
  d_seed = None
  for base in (raw, f"self._{raw}"):
    d_seed = d_seed or _iter_direction(it, base)
  s = _sorted_by_start(it)
  if d_seed is None and isinstance(it, ast.Call) and dotted(it.func) == "sorted" and it.args \
      and _iter_direction(it.args[0], raw) is not None:
    rev = [k.value for k in it.keywords if k.arg == "reverse"]
    if any(k.arg == "key" for k in it.keywords) or (rev and not isinstance(rev[0], ast.Constant)):
      raise AnalysisError(f"seed iteration `{src(it)}` is not understood")
    d_seed = DESC if (rev and rev[0].value) else ASC
  if d_seed is None:
    raise AnalysisError(f"seed iteration `{src(it)}` is not understood")
  outer_wrap = seeds[0].value
  if isinstance(outer_wrap, ast.Call) and dotted(outer_wrap.func) == "reversed":
    d_seed = _flip(d_seed)
  ctx.check(d_seed == ASC, "_ParseVisitor.__init__:seed-order", PAR, seeds[0].lineno,
            f"the groups are seeded in {d_seed} order of the raw comments (`{src(it)}`); the "
            "tokenizer delivers comments by ascending line and the Director consumes the dict "
            "in order", {"iter": src(it)})
  q = "_ParseVisitor._add_structured_comment_group"
  fn = pmod.func(q)
  # the new range goes to the end of the dict
  ins = [n for n in walk_no_nested(fn) if isinstance(n, ast.Assign)
         and any(isinstance(t, ast.Subscript) and src(t.value) == GROUPS for t in n.targets)]
  if len(ins) != 1 or pmod.parent.get(ins[0]) is not fn:
    raise AnalysisError(f"{q}: expected one unconditional insertion of the new range")
  lists = _Lists(pmod, fn)
  lists.collect()
  consumers = []
  for loop in walk_no_nested(fn):
    if not isinstance(loop, ast.For) or not isinstance(loop.target, ast.Name):
      continue
    k = loop.target.id
    uses = []
    for c in calls_in(loop):
      d = dotted(c.func) or ""
      if d == f"{GROUPS}.move_to_end" and c.args and src(c.args[0]) == k:
        kw = [x.value for x in c.keywords if x.arg == "last"]
        if len(c.args) > 1 or kw:
          raise AnalysisError(f"{q}: move_to_end with a `last` argument is not understood")
        uses.append("move")
      elif d.endswith(".extend") and c.args and (
          src(c.args[0]) in (f"{GROUPS}[{k}]", f"{GROUPS}.pop({k})")):
        uses.append("absorb")
    for n in ast.walk(loop):
      if isinstance(n, ast.AugAssign) and isinstance(n.op, ast.Add) and \
          src(n.value) in (f"{GROUPS}[{k}]", f"{GROUPS}.pop({k})"):
        uses.append("absorb")
    if not uses:
      continue
    if pmod.parent.get(loop) is not fn or loop.lineno < ins[0].lineno:
      raise AnalysisError(f"{q}: the loop at line {loop.lineno} re-orders groups before the new "
                          "range is inserted / conditionally")
    name, d = lists.iteration(loop.iter, loop.lineno)
    if name is None:
      raise AnalysisError(f"{q}: `for {k} in {src(loop.iter)}` does not walk a collected key list")
    for u in sorted(set(uses)):
      consumers.append((u, name, d, loop))
  kinds = {u for u, *_ in consumers}
  if kinds != {"move", "absorb"}:
    raise AnalysisError(f"{q}: expected one re-append loop and one absorb loop, found {sorted(kinds)}")
  for u, name, d, loop in consumers:
    what = ("re-appended after the new range" if u == "move"
            else "concatenated into the new group")
    ctx.check(d == ASC, f"{q}:{u}-order", PAR, loop.lineno,
              f"the ranges in `{name}` are {what} in {d} line order (`for {loop.target.id} in "
              f"{src(loop.iter)}`; the list was collected {lists.direction_at(name, loop.lineno)} "
              "relative to the dict): the dict / the merged group is no longer sorted, "
              "Director._parse_src_tree feeds the open-ended directives to "
              "_LineSet.start_range out of order and its ValueError escapes the analysis",
              {"list": name, "collected": lists.direction_at(name, loop.lineno),
               "iter": src(loop.iter)})


_COLLECT = ("        if type(line_range) is LineRange:  # pylint: disable=unidiomatic-typecheck\n"
            "          keys_to_absorb.append(line_range)\n"
            "        else:\n"
            "          keys_to_move.append(line_range)\n"
            "      elif line_range.start_line > start_line:\n"
            "        keys_to_move.append(line_range)\n")
_MOVE = ("    for k in reversed(keys_to_move):\n"
         "      self.structured_comment_groups.move_to_end(k)\n")
_ABSORB = "    for k in reversed(keys_to_absorb):\n      new_group.extend("

VARIANTS = [
    {"name": "seeded-C15-r2m2", "rule": "R15.23", "patch": "seeded/C15-r2m2/patch.diff",
     "expect": "fire"},
    # different shape: the absorbed groups are concatenated back to front
    {"name": "absorb-descending", "rule": "R15.23", "file": PAR, "expect": "fire",
     "old": _ABSORB, "new": "    for k in keys_to_absorb:\n      new_group.extend("},
    # different shape: collection order flipped in place, consumer untouched
    {"name": "collected-keys-reversed-in-place", "rule": "R15.23", "file": PAR, "expect": "fire",
     "old": "        break\n    self.structured_comment_groups[cls(start_line, end_line)] = new_group = []\n",
     "new": "        break\n    keys_to_move.reverse()\n"
            "    self.structured_comment_groups[cls(start_line, end_line)] = new_group = []\n"},
    {"name": "director-walks-groups-backwards", "rule": "R15.23", "file": DIR, "expect": "fire",
     "old": "    for line_range, group in visitor.structured_comment_groups.items():\n      for comment in group:\n        if comment.tool == \"type\":",
     "new": "    for line_range, group in reversed(visitor.structured_comment_groups.items()):\n      for comment in group:\n        if comment.tool == \"type\":"},
    # benign: both directions flipped
    {"name": "twin-insert-front-walk-forward", "rule": "R15.23", "expect": "silent",
     "edits": [(PAR, _COLLECT, _COLLECT.replace("keys_to_move.append(line_range)",
                                                "keys_to_move.insert(0, line_range)")),
               (PAR, _MOVE, "    for k in keys_to_move:\n"
                            "      self.structured_comment_groups.move_to_end(k)\n")]},
    {"name": "twin-reverse-in-place", "rule": "R15.23", "file": PAR, "expect": "silent",
     "old": _MOVE,
     "new": "    keys_to_move.reverse()\n    for k in keys_to_move:\n"
            "      self.structured_comment_groups.move_to_end(k)\n"},
    {"name": "twin-move-sorted-by-start", "rule": "R15.23", "file": PAR, "expect": "silent",
     "old": _MOVE,
     "new": "    for k in sorted(keys_to_move, key=lambda r: r.start_line):\n"
            "      self.structured_comment_groups.move_to_end(k)\n"},
    # benign half of the seeded patch: pop() instead of index + del
    {"name": "twin-absorb-by-pop", "rule": "R15.23", "file": PAR, "expect": "silent",
     "old": "      new_group.extend(self.structured_comment_groups[k])\n      del self.structured_comment_groups[k]\n",
     "new": "      new_group.extend(self.structured_comment_groups.pop(k))\n"},
    {"name": "twin-slice-reversal", "rule": "R15.23", "file": PAR, "expect": "silent",
     "old": "    for k in reversed(keys_to_move):\n", "new": "    for k in keys_to_move[::-1]:\n"},
    # premise gone: the Director catches the ValueError -> not a violation, not a pass
    {"name": "valueerror-caught-by-director", "rule": "R15.23", "file": DIR, "expect": "error",
     "old": "          except _DirectiveError as e:\n            self._errorlog.invalid_directive(\n                self._filename, comment.line, str(e)\n            )",
     "new": "          except (_DirectiveError, ValueError) as e:\n            self._errorlog.invalid_directive(\n                self._filename, comment.line, str(e)\n            )"},
    # the list is read through a once-bound local alias (benign/C03-r1)
    {"name": "twin-benign-C03-r1-lineset-helper", "rule": "R15.23",
     "patch": "benign/C03-r1/patch.diff", "expect": "silent"},
    {"name": "twin-transitions-aliased", "rule": "R15.23", "file": DIR, "expect": "silent",
     "old": "    last = self._transitions[-1] if self._transitions else -1\n",
     "new": "    transitions = self._transitions\n"
            "    last = transitions[-1] if transitions else -1\n"},
    # the alias is of another list / re-bound: `last` is no longer known to be the last
    # transition, the premise cannot be re-derived -> analysis error, not a pass
    {"name": "alias-of-another-list", "rule": "R15.23", "file": DIR, "expect": "error",
     "old": "    last = self._transitions[-1] if self._transitions else -1\n",
     "new": "    transitions = self._lines\n"
            "    last = transitions[-1] if transitions else -1\n"},
    {"name": "alias-rebound", "rule": "R15.23", "file": DIR, "expect": "error",
     "old": "    last = self._transitions[-1] if self._transitions else -1\n",
     "new": "    transitions = self._transitions\n"
            "    transitions = sorted(transitions, reverse=True)\n"
            "    last = transitions[-1] if transitions else -1\n"},
    # refactored shape + the seeded order defect
    {"name": "aliased-transitions-and-director-walks-backwards", "rule": "R15.23",
     "expect": "fire",
     "edits": [(DIR, "    last = self._transitions[-1] if self._transitions else -1\n",
                "    transitions = self._transitions\n"
                "    last = transitions[-1] if transitions else -1\n"),
               (DIR, "    for line_range, group in visitor.structured_comment_groups.items():\n      for comment in group:\n        if comment.tool == \"type\":",
                "    for line_range, group in reversed(visitor.structured_comment_groups.items()):\n      for comment in group:\n        if comment.tool == \"type\":")]},
]
