"""C08 - solver answers do not depend on history: the invalidation discipline.

Decides, completely, the mutation clause: every write to state the solver
reads is dominated by Program::InvalidateSolver (in the writer, or in every
caller on every path from the Python surface in cfg.cc), with no solver query
in between.  Does NOT decide order effects inside one live solver instance.
"""
from sa.core import rule, AnalysisError
from sa import cxx
from rules import _cxxutil_c07c08 as U

TECHNIQUE = ("static analysis over clang's type-resolved AST: effect "
             "extraction (field writes), interprocedural must-dataflow "
             "(dominance by InvalidateSolver) from every Python-surface entry "
             "point in cfg.cc")
EXPLANATION = (
    "Invalidation discipline over the clang AST of typegraph.{h,cc}, solver.cc "
    "and cfg.cc (callees, overloads and fields resolved by the compiler). "
    "R8.1 computes the set of fields the solver reads (closure of the call "
    "graph from Solver::Solve) and compares it with the confirmed list; R8.2 "
    "enumerates every non-constructor function that writes one of those "
    "fields (assignment, ++/--, mutating container member call, through "
    "references/iterators/structured bindings); R8.3 proves by an "
    "interprocedural must-dataflow that from every function of the Python "
    "surface (cfg.cc) every such write is preceded on every path by "
    "Program::InvalidateSolver (directly, in the writer, or in a callee whose "
    "every path invalidates) with no solver query (Program::GetSolver) in "
    "between; R8.4 shows the solver object is created only by GetSolver, "
    "dropped only by InvalidateSolver, and queried only through GetSolver; "
    "InvalidateSolver must reach every exit after solver_.reset() / "
    "reset(nullptr) / `= nullptr` (a reset to a new object does not count), "
    "the only other exit accepted being a bare `return;` that is the whole "
    "branch taken when solver_ tests null (`if (!solver_) return;`: nothing "
    "to drop). R8.5: PathCacheTrie::InsertResult and GetResult walk the trie "
    "with the same key sequence root_[start][finish] then one level per "
    "blocked node keyed by node->id() (child looked up by find() or by "
    "children[..]), no iteration can be left early, a missing child is "
    "created on insert (insert/emplace, or operator[] followed by `if "
    "(!child) child = make_unique`) and answered by a miss on lookup; the "
    "walk may live in one private helper shared by both methods - a bool "
    "parameter bound to a literal at the call (create_missing) is evaluated "
    "and only the taken branches are examined, and a lookup that receives "
    "nullptr from the helper must test it first and return a miss. "
    "Argument: a Solver and all its caches are created by GetSolver and are "
    "functions of the read set only; if every write to the read set is "
    "preceded by solver_.reset() with no query between, then at any query "
    "the live solver was created after the last write, i.e. has only seen "
    "the current graph - exactly a replica rebuilt from scratch. Not decided: "
    "history effects between queries put to one solver instance (provisional "
    "memo entries and cycle skipping) - no mutation is involved there.")
ASSUMPTIONS = [
    "clang's AST (decl ids for callees and fields) is the trusted resolver; "
    "cfg.cc is parsed inside a wrapper namespace so that its global functions "
    "can be selected by -ast-dump-filter (same tokens, same flags)",
    "the Python surface of the typegraph is exactly the functions defined in "
    "cfg.cc; pytype's Python code cannot reach C++ state by other means",
    "constructors initialise fresh objects and are not mutators of existing "
    "solver-visible state; std:: container members outside the MUTATORS list "
    "do not modify the container",
    "R8.5: unordered_map::operator[] value-initialises a missing entry (a "
    "null unique_ptr), so `children[id]` followed by a null test is "
    "find-or-insert; a GetResult that uses operator[] is refused",
]

EXPLANATION += (
    " R8.6 (rules/c08_memo_key.py) decides one order effect inside a live "
    "solver: the value stored in solved_states_ is a function of its key. The "
    "functions of the search recursion (the strongly connected component of "
    "solver.cc's call graph containing the search driver and a writer of the "
    "memo: FindSolution, RecallOrFindSolution, and a split-off "
    "FindAndMemoizeSolution) are analysed by an information-flow analysis: "
    "sources are every parameter that is not the State key (current_depth, "
    "seen_states), every Solver field that some Solver method writes (the "
    "cache counters, query_metrics_), the memo wherever it is not looked up / "
    "stored with the key, and file-local helpers that read such a field; taint "
    "flows through initialisers, assignments, range-for and structured-binding "
    "variables, arguments of calls outside the recursion, and implicitly into "
    "every variable assigned under a tainted condition; results of calls into "
    "the recursion are clean by induction. Sinks: a returned value, a condition "
    "whose branches contain return/break/continue or a memo write, the value "
    "stored into the memo, the State handed to a recursive call. A depth "
    "cut-off (`if (current_depth > N) return true`), a visit budget on a member "
    "counter or a bound on seen_states.size() is a violation: the state would "
    "be memoised with an answer that depends on where the asking query started. "
    "Triaged (still not decided): the cycle cut-off, recognised as a membership "
    "test of the successor state in the StateSet parameter (count / contains / "
    "find != end, possibly hoisted into a once-bound bool) whose branch only "
    "`continue`s.")
ASSUMPTIONS += [
    "R8.6: functions outside solver.cc / solver.h called from the recursion "
    "(typegraph getters, remove_finished_goals, PathFinder) return values "
    "determined by their arguments and the graph; the path cache is covered by "
    "R8.5",
]

READ_SET = {
    "CFGNode::incoming_", "CFGNode::condition_", "CFGNode::bindings_",
    "CFGNode::id_", "Binding::origins_", "Binding::node_to_origin_",
    "Binding::variable_", "Binding::data_", "Binding::id_", "Origin::where",
    "Origin::source_sets", "Variable::cfg_node_to_bindings_", "Variable::id_",
    # read by the solver's metrics / bookkeeping only, confirmed by reading:
    "Variable::bindings_", "CFGNode::name_", "Program::cfg_nodes_",
    "Binding::program_", "CFGNode::program_", "Variable::program_",
    "CFGNode::outgoing_",
}
EXPLANATION += (
    " R8.7 (rules/c08_derived_cache.py): a value memoised inside a graph record "
    "is dropped by every writer of the state it was computed from. A field of "
    "CFGNode / Binding / Origin / Variable / Program written through `this` in "
    "a const method is a memo (it has to be `mutable`); the fields written by "
    "that method form the memo group (value and validity flag), the other "
    "fields of the record it reads are the sources. Every function of the "
    "typegraph (constructors excepted) that writes a source - container "
    "mutators and map operator[] count as writes, `m[k]` under `if "
    "(ContainsKey(m, k))` does not - must write a field of the group in its own "
    "body or in a function it calls directly; invalidating only in some of the "
    "writers (where a new binding is created, but not where "
    "RegisterBindingAtNode adds a node for an existing binding) is a violation: "
    "the history query / mutate / query is answered from the stale value. "
    "Records without such a field yield one `memo-free` instance each. Blind "
    "spots: a memo kept outside the record (in the solver: R8.1-R8.5), a memo "
    "filled by a non-const method, sources reached through another object, "
    "and whether the write to the group really resets it (any write counts).")

GRAPH_RECORDS = ("CFGNode", "Binding", "Origin", "Variable", "Program")
INV = "Program::InvalidateSolver()"
QUERY = "Program::GetSolver()"


def _ctor_key(ix, call):
  t = cxx.qual_type(call).replace(cxx.NS + "::", "").replace("const ", "").strip()
  base = t.split("<")[0].split("::")[-1]
  ct = (call.get("ctorType") or {}).get("qualType")
  if not ct:
    return None
  params = cxx.Fn._params_txt(type("T", (), {"sig": ct})())
  return f"{t}::{base}{params}"


class Summaries:
  """Interprocedural summaries: U(F) undominated writes, inv_at_exit, may_query."""

  def __init__(self, ix, fields):
    self.ix = ix
    self.fields = fields
    self.memo = {}
    self.stack = []

  def of(self, fn):
    if fn.key in self.memo:
      return self.memo[fn.key]
    if fn.key in self.stack:
      # recursion: pessimistic (does not invalidate, writes nothing new)
      return {"U": [], "inv_exit": False, "may_query": False, "writes": []}
    self.stack.append(fn.key)
    U, writes = [], []
    flags = {"q": False}

    def transfer(ev, st):
      if ev.kind == "call":
        if ev.what == INV:
          return st if ev.cond else st | {"inv"}
        if ev.what == QUERY:
          flags["q"] = True
          return st - {"inv"}
        callee = ev.fn
        if callee is None and ev.what.startswith("ctor:"):
          callee = self.ix.by_key.get(_ctor_key(self.ix, ev.node) or "")
        if callee is not None and callee.kind != "CXXDestructorDecl":
          s = self.of(callee)
          if "inv" not in st:
            for (field, where, line, path) in s["U"]:
              U.append((field, where, line, [fn.key] + path))
          if s["may_query"]:
            flags["q"] = True
            st = st - {"inv"}
          if s["inv_exit"] and not ev.cond:
            st = st | {"inv"}
        return st
      if ev.kind in ("write", "addr") and ev.what in self.fields:
        if fn.kind == "CXXConstructorDecl" and _is_this(ev):
          return st
        if (ev.extra or {}).get("how") == "operator[]" and \
            _guarded_by_contains(self.ix, fn, ev):
          return st   # map[key] under ContainsKey(map, key): a read
        line = ((ev.node.get("range") or {}).get("begin") or {}).get("line") or fn.line
        writes.append((ev.what, line, "inv" in st, (ev.extra or {}).get("how", "&")))
        if "inv" not in st:
          U.append((ev.what, fn.key, line, [fn.key]))
      return st

    fl = cxx.CxxFlow(self.ix, fn, transfer)
    normal = [s for k, _, s in fl.exits if s is not None]
    inv_exit = bool(normal) and all("inv" in s for s in normal)
    self.stack.pop()
    out = {"U": U, "inv_exit": inv_exit, "may_query": flags["q"],
           "writes": writes, "flow": fl}
    self.memo[fn.key] = out
    return out


def _decl_id(e):
  e = cxx.strip(e)
  if e is not None and e.get("kind") == "DeclRefExpr":
    return (e.get("referencedDecl") or {}).get("id")
  return None


def _guarded_by_contains(ix, fn, ev):
  """`m[k]` inside the then-branch of `if (ContainsKey(m, k))` (same field, same
  variable) cannot insert: it is a read."""
  kids = cxx.inner(ev.node)
  if len(kids) < 3:
    return False
  key_id = _decl_id(kids[2])
  if key_id is None:
    return False
  # path from the function body down to the event node
  path = []

  def find(n):
    if n is ev.node:
      return True
    for c in cxx.inner(n):
      if find(c):
        path.append((n, c))
        return True
    return False
  if fn.body is None or not find(fn.body):
    return False
  for parent, child in path:
    if parent.get("kind") != "IfStmt":
      continue
    parts = list(cxx.inner(parent))
    if parent.get("hasInit"):
      parts.pop(0)
    if parent.get("hasVar"):
      parts.pop(0)
    if len(parts) < 2 or child is not parts[1]:
      continue   # not the then-branch
    cond = cxx.strip(parts[0])
    if cond is None or cond.get("kind") != "CallExpr":
      continue
    key, _, nm, _ = ix.callee(cond)
    args = cxx.inner(cond)[1:]
    if nm != "ContainsKey" or len(args) != 2:
      continue
    f = ix.field_of(args[0])
    if f and f[0] == ev.what and _decl_id(args[1]) == key_id:
      return True
  return False


def _is_this(ev):
  base = (ev.extra or {}).get("base")
  b = cxx.strip(base) if base else None
  return b is None or b.get("kind") == "CXXThisExpr"


def _solver_reads(ix):
  """Fields of graph records read in the call-graph closure of Solver::Solve."""
  roots = [f for f in ix.by_key.values() if f.qual == "Solver::Solve"]
  if not roots:
    raise AnalysisError("anchor Solver::Solve not found")
  seen, todo, reads = set(), list(roots), {}
  while todo:
    fn = todo.pop()
    if fn.key in seen:
      continue
    seen.add(fn.key)
    units = list(fn.inits) + ([fn.body] if fn.body else [])
    for u in units:
      for n in cxx.walk(u):
        k = n.get("kind")
        if k == "MemberExpr":
          did = n.get("referencedMemberDecl")
          if did in ix.fields:
            fq = ix.fields[did]
            if fq.split("::")[0] in GRAPH_RECORDS:
              reads.setdefault(fq, fn.key)
        if k in ("CXXMemberCallExpr", "CallExpr", "CXXOperatorCallExpr"):
          _, callee, _, _ = ix.callee(n)
          if callee is not None:
            todo.append(callee)
        elif k == "CXXConstructExpr":
          c = ix.by_key.get(_ctor_key(ix, n) or "")
          if c is not None:
            todo.append(c)
  return reads, seen


def _state(ctx):
  def build():
    ix = cxx.get_index(ctx)
    reads, closure = _solver_reads(ix)
    fields = set(reads) | {f for f in READ_SET if f in ix.field_type}
    return ix, reads, closure, fields, Summaries(ix, fields)
  return ctx.memo(("c08",), build)


@rule("R8.1", "C08", floor=13)
def r8_1(ctx):
  """The solver's read set equals the confirmed list."""
  ix, reads, closure, fields, _ = _state(ctx)
  new = sorted(set(reads) - READ_SET)
  if new:
    raise AnalysisError(
        "the solver reads fields outside the confirmed read set: "
        + ", ".join(f"{f} (in {reads[f]})" for f in new)
        + " - triage them before the invalidation rule can be trusted")
  for f in sorted(reads):
    ctx.ok(f"read:{f}", "pytype/typegraph/solver.cc", 0, {"first_reader": reads[f]})
  ctx.note(f"R8.1: closure of Solver::Solve = {len(closure)} functions, "
           f"{len(reads)} graph fields read")


@rule("R8.2", "C08", floor=8)
def r8_2(ctx):
  """Every non-constructor writer of a read-set field, with local dominance."""
  ix, reads, closure, fields, summ = _state(ctx)
  for fn in sorted(ix.by_key.values(), key=lambda f: f.key):
    if not fn.file.startswith("pytype/typegraph/typegraph."):
      continue
    if fn.kind in ("CXXConstructorDecl", "CXXDestructorDecl"):
      continue
    s = summ.of(fn)
    for (field, line, dominated, how) in s["writes"]:
      ctx.ok(f"writer:{fn.key}:{field}", fn.file, line,
             {"how": how, "dominated_locally": dominated})


@rule("R8.3", "C08", floor=20)
def r8_3(ctx):
  """From every Python-surface function, every write is dominated by an invalidation."""
  ix, reads, closure, fields, summ = _state(ctx)
  surface = [f for f in ix.by_key.values() if f.file.endswith("cfg.cc")]
  if len(surface) < 40:
    raise AnalysisError(f"only {len(surface)} functions found in cfg.cc")
  reported = {}
  api_called = {}
  for fn in sorted(surface, key=lambda f: f.key):
    s = summ.of(fn)
    # typegraph API functions called from this surface function
    for ev in s["flow"].events:
      if ev.kind == "call" and ev.fn is not None and \
          ev.fn.file.startswith("pytype/typegraph/typegraph."):
        api_called.setdefault(ev.fn.key, set()).add(fn.qual)
    for (field, where, line, path) in s["U"]:
      # attribute the finding to the first typegraph function on the path
      api = next((p for p in path if p in ix.by_key and
                  ix.by_key[p].file.startswith("pytype/typegraph/typegraph.")),
                 fn.qual)
      reported.setdefault(api, []).append((field, where, line, path))
  for api in sorted(api_called):
    f = ix.by_key[api]
    if api in reported:
      field, where, line, path = reported[api][0]
      ctx.bad(api, ix.by_key[where].file if where in ix.by_key else f.file, line,
              f"write to {field} in {where} is reachable from the Python "
              f"surface ({', '.join(sorted(api_called[api]))}) via "
              f"{' -> '.join(path)} without a dominating "
              "Program::InvalidateSolver()",
              {"field": field, "writer": where, "path": path,
               "all": [(a, b) for a, b, _, _ in reported[api]][:8]})
    else:
      s = summ.of(f)
      ctx.ok(api, f.file, f.line,
             {"called_from": sorted(api_called[api])[:4],
              "writes": [(w[0], w[2]) for w in s["writes"]],
              "invalidates_on_every_path": s["inv_exit"]})
  for api in sorted(set(reported) - set(api_called)):
    field, where, line, path = reported[api][0]
    ctx.bad(api, "pytype/typegraph/cfg.cc", line,
            f"cfg.cc writes {field} directly in {where} without a dominating "
            "Program::InvalidateSolver()", {"field": field, "path": path})


@rule("R8.4", "C08", floor=3)
def r8_4(ctx):
  """solver_ is created only by GetSolver, dropped only by InvalidateSolver."""
  ix, reads, closure, fields, summ = _state(ctx)
  writers = {}
  getters = {}
  for fn in ix.by_key.values():
    if fn.file.endswith("_test.cc"):
      continue
    units = list(fn.inits) + ([fn.body] if fn.body else [])
    aliases = {}
    for u in units:
      for ev in cxx.events(ix, u, aliases):
        if ev.what == "Program::solver_":
          if ev.kind in ("write", "addr"):
            writers.setdefault(fn.key, []).append((ev.extra or {}).get("how"))
          elif ev.kind == "read":
            getters.setdefault(fn.key, 0)
            getters[fn.key] += 1
  want_writers = {QUERY: "creates", INV: "resets"}
  for k in sorted(writers):
    ctx.check(k in want_writers, f"solver_-writer:{k}", ix.by_key[k].file,
              ix.by_key[k].line,
              f"{k} modifies Program::solver_ ({writers[k]}); only GetSolver "
              "and InvalidateSolver may", {"how": writers[k]})
  for k in want_writers:
    if k not in writers:
      raise AnalysisError(f"{k} no longer writes Program::solver_")
  # InvalidateSolver: reset() on every path
  inv = ix.fn(INV)
  resets = []

  def drops(ev):
    """solver_.reset() / solver_.reset(nullptr) / solver_ = nullptr"""
    how = (ev.extra or {}).get("how")
    if how not in ("reset", "operator="):
      return False
    args = [cxx.strip(a) for a in cxx.inner(ev.node)[1:]]
    if how == "operator=":
      args = args[1:]     # CXXOperatorCallExpr: [callee, object, value]
    return all(a is None or a.get("kind") in ("CXXDefaultArgExpr", "CXXNullPtrLiteralExpr")
               for a in args)

  # path-sensitive in one respect: where a test has shown solver_ to be null
  # (`if (!solver_) return;`, the implicit else of `if (solver_) {..}`) there is
  # nothing to drop
  truthy, is_null_test = _solver_tests(ix)
  exits = []

  def run(block, ok):
    """ok = solver_ has been dropped (or is known to be null) on this path."""
    for st_ in U.stmts(block):
      k = st_.get("kind")
      if k == "IfStmt":
        init, var, cond, then, els = U.if_parts(st_)
        if init is not None or var is not None:
          raise AnalysisError("InvalidateSolver: if-with-initialiser not modelled")
        c = cxx.uncast(cxx.term(ix, cond))
        ok_then = True if is_null_test(c) else ok
        ok_else = True if truthy(c) else ok
        a = run(then, ok_then)
        b = run(els, ok_else) if els is not None else ok_else
        if a is None and b is None:
          return None
        ok = all(x for x in (a, b) if x is not None)
      elif k == "ReturnStmt":
        exits.append(("return", ok))
        return None
      elif k == "CompoundStmt":
        ok = run(st_, ok)
        if ok is None:
          return None
      elif k in ("ForStmt", "WhileStmt", "DoStmt", "CXXForRangeStmt", "SwitchStmt",
                 "CXXTryStmt", "GotoStmt", "BreakStmt", "ContinueStmt"):
        raise AnalysisError(f"InvalidateSolver: {k} not modelled")
      else:
        for ev in cxx.events(ix, st_, {}):
          if ev.kind == "write" and ev.what == "Program::solver_":
            ok = bool(drops(ev)) and not ev.cond
    return ok
  end = run(inv.body, False)
  if end is not None:
    exits.append(("end", end))
  ok = bool(exits) and all(o for _, o in exits)
  ctx.check(ok, "InvalidateSolver:resets-on-every-path", inv.file, inv.line,
            "Program::InvalidateSolver must drop solver_ on every path on which "
            "it is not known to be null", {"exits": exits})
  # readers of solver_: only GetSolver, InvalidateSolver, CalculateMetrics,
  # and the test-only accessor solver(), which nothing outside tests calls
  allowed = {QUERY, INV, "Program::CalculateMetrics()", "Program::solver()"}
  for k in sorted(getters):
    ctx.check(k in allowed, f"solver_-reader:{k}", ix.by_key[k].file,
              ix.by_key[k].line,
              f"{k} reads Program::solver_ directly; queries must go through "
              "GetSolver()")
  callers = []
  for fn in ix.by_key.values():
    if fn.body is None:
      continue
    for n in cxx.walk(fn.body):
      if n.get("kind") == "CXXMemberCallExpr":
        key, _, _, _ = ix.callee(n)
        if key == "Program::solver()":
          callers.append(fn.key)
  ctx.check(not callers, "Program::solver()-unused", "pytype/typegraph/typegraph.h", 0,
            f"the test-only accessor Program::solver() is called from {callers}: "
            "a Solver* obtained without GetSolver may be stale", {"callers": callers})


def _const_cond(ix, cond, consts):
  """Value of a condition over constant-bound bool parameters, else None."""
  from sa.cxx import term, uncast
  t = uncast(term(ix, cond))

  def ev(t):
    t = uncast(t)
    if not isinstance(t, tuple) or not t:
      return None
    if t[0] == "var" and t[2] in consts:
      return consts[t[2]]
    if t[0] == "bool":
      return t[1]
    if t[0] == "!":
      v = ev(t[1])
      return None if v is None else not v
    if t[0] in ("&&", "||"):
      a, b = ev(t[1]), ev(t[2])
      if t[0] == "&&":
        if a is False or b is False:
          return False
        return True if a is True and b is True else None
      if a is True or b is True:
        return True
      return False if a is False and b is False else None
    return None
  return ev(t)


def _pruned(ix, n, consts):
  """walk(n) that enters only the taken branch of an `if` whose condition is
  decided by the constant-bound parameters."""
  from sa.cxx import inner
  yield n
  if n.get("kind") == "IfStmt" and consts:
    _, _, cond, then, els = U.if_parts(n)
    v = _const_cond(ix, cond, consts)
    if v is not None:
      taken = then if v else els
      if taken is not None:
        yield from _pruned(ix, taken, consts)
      return
  if n.get("kind") == "LambdaExpr":
    return
  for c in inner(n):
    if c.get("kind"):
      yield from _pruned(ix, c, consts)


def _null_mapped_to_miss(ix, fn, holder):
  """In `fn`, the pointer `holder` returned by the walk helper is tested for
  nullptr before any other use and a null pointer is answered by a miss."""
  from sa.cxx import term, uncast, inner
  hv = ("var", holder.get("name"), holder["id"])
  seen_decl = False
  for s in U.stmts(fn.body):
    if not seen_decl:
      seen_decl = any(x is holder for x in cxx.walk(s))
      continue
    if s.get("kind") == "IfStmt":
      _, _, cond, then, els = U.if_parts(s)
      ds = U.flatten(uncast(term(ix, cond)), "||")
      null_test = any(
          d == ("!", hv) or (isinstance(d, tuple) and d[0] == "==" and
                             {uncast(d[1]), uncast(d[2])} == {hv, ("nullptr",)})
          for d in ds)
      # the null test must be the first disjunct (evaluated before any deref)
      first = ds[0] if ds else None
      first_ok = first == ("!", hv) or (isinstance(first, tuple) and first[0] == "==" and
                                        {uncast(first[1]), uncast(first[2])} == {hv, ("nullptr",)})
      rets = [x for x in U.stmts(then) if x.get("kind") == "ReturnStmt"]
      miss = bool(rets) and U.leaves(then) and any(
          x.get("kind") == "CXXNullPtrLiteralExpr" for x in cxx.walk(rets[-1]))
      if null_test and first_ok and miss:
        return True
    # any other statement that mentions the holder before the test: give up
    if any(x.get("kind") == "DeclRefExpr" and
           (x.get("referencedDecl") or {}).get("id") == holder["id"]
           for x in cxx.walk(s)):
      return False
  return False


def _solver_tests(ix):
  """(truthy, is_null_test): predicates over condition terms that establish
  `solver_` non-null / null."""
  from sa.cxx import term, uncast
  fld = ("field", "Program::solver_", ("this",))

  def truthy(t):
    t = uncast(t)
    if t == fld or t == ("mcall", "operator bool", fld) or t == ("mcall", "get", fld):
      return True
    if isinstance(t, tuple) and t[0] in ("!=", "opcall") and ("nullptr",) in [uncast(x) for x in t[1:]]:
      ops = [uncast(x) for x in t[1:] if uncast(x) != ("nullptr",)]
      if t[0] == "!=" or (t[0] == "opcall" and t[1] == "operator!="):
        return any(truthy(o) for o in ops if isinstance(o, tuple))
    return False

  def is_null_test(t):
    t = uncast(t)
    if isinstance(t, tuple) and t[0] == "!" and truthy(t[1]):
      return True
    if isinstance(t, tuple) and ("nullptr",) in [uncast(x) for x in t[1:]]:
      ops = [uncast(x) for x in t[1:] if uncast(x) != ("nullptr",)]
      if t[0] == "==" or (t[0] == "opcall" and t[1] == "operator=="):
        return any(truthy(o) for o in ops if isinstance(o, tuple))
    return False
  return truthy, is_null_test


def _trie_walk(ix, fn, lookup=False):
  """Facts about how a PathCacheTrie method walks the trie: root key, the
  per-level key, and what happens when a child is missing.  The walk may be
  written in the method itself or in one private helper of the class that
  both methods share; a bool parameter of the helper that the method binds
  to a literal is evaluated (only the taken branches are looked at)."""
  from sa.cxx import term, uncast, inner, strip
  facts = {}
  pnames = [p.get("name") for p in fn.params]
  own = {p["id"]: p.get("name") for p in fn.params}
  host, consts, names, holder = fn, {}, {p.get("name"): p.get("name") for p in fn.params}, None
  loops = [n for n in cxx.walk(fn.body) if n.get("kind") == "CXXForRangeStmt"]
  if not loops:
    cands = []
    for n in cxx.walk(fn.body):
      if n.get("kind") == "CXXMemberCallExpr":
        h = U.local_callee(ix, n)
        if h is not None and h.cls == fn.cls and h.key != fn.key and any(
            x.get("kind") == "CXXForRangeStmt" for x in cxx.walk(h.body)):
          cands.append((n, h))
    if len(cands) != 1:
      raise AnalysisError(f"{fn.key}: expected one loop over the blocked set")
    call, host = cands[0]
    names = {}
    for p, a in zip(host.params, inner(call)[1:]):
      t = uncast(term(ix, a))
      if isinstance(t, tuple) and t[0] == "var" and t[2] in own:
        names[p.get("name")] = own[t[2]]
      elif isinstance(t, tuple) and t[0] == "bool":
        consts[p["id"]] = t[1]
      else:
        raise AnalysisError(f"{fn.key}: argument {t} of {host.name} not understood")
    for d in cxx.walk(fn.body):
      if d.get("kind") == "VarDecl" and any(x is call for x in cxx.walk(d)):
        holder = d
    if holder is None:
      raise AnalysisError(f"{fn.key}: result of {host.name} is not bound to a local")
    facts["walk_in"] = host.name
    facts["consts"] = sorted(str(v) for v in consts.values())
    loops = [n for n in _pruned(ix, host.body, consts) if n.get("kind") == "CXXForRangeStmt"]
  if len(loops) != 1:
    raise AnalysisError(f"{fn.key}: expected one loop over the blocked set")
  nm = lambda v: names.get(v, f"<{host.name}>.{v}")
  # root: &root_[start][finish]
  for n in _pruned(ix, host.body, consts):
    if n.get("kind") == "VarDecl" and inner(n) and n.get("init"):
      t = term(ix, inner(n)[-1])
      ts = str(t)
      if "PathCacheTrie::root_" in ts and "index" in ts:
        keys = []
        cur = uncast(t)
        if isinstance(cur, tuple) and cur[0] == "&":
          cur = uncast(cur[1])
        while isinstance(cur, tuple) and cur[0] == "index":
          k = uncast(cur[2])
          keys.append(nm(k[1]) if isinstance(k, tuple) and k[0] == "var" else str(k))
          cur = uncast(cur[1])
        facts["root_keys"] = list(reversed(keys))
  lv, rng_e, body = U.range_for(loops[0])
  rng = uncast(term(ix, rng_e)) if rng_e is not None else None
  facts["loop_over"] = nm(rng[1]) if isinstance(rng, tuple) and rng[0] == "var" else str(rng)
  lvt = ("var", lv.get("name"), lv["id"])

  def key_of(e):
    k = uncast(term(ix, e))
    return ("id-of-loop-var" if isinstance(k, tuple) and k[0] == "mcall"
            and "CFGNode::id" in str(k[1]) and uncast(k[2]) == lvt else str(k))
  # child lookups: find(key) or children[key]
  keys = []
  subscripts = []
  for n in _pruned(ix, body, consts):
    if n.get("kind") == "CXXMemberCallExpr" and ix.callee(n)[2] == "find":
      keys.append(key_of(inner(n)[1]))
    if n.get("kind") == "CXXOperatorCallExpr" and ix.callee(n)[2] == "operator[]" and \
        len(inner(n)) == 3:
      ot = cxx.qual_type(strip(inner(n)[1]) or {})
      if "map" in ot and "TrieNode" in ot:
        keys.append(key_of(inner(n)[2]))
        subscripts.append(n)
    if n.get("kind") == "CXXMemberCallExpr" and \
        ix.callee(n)[2] in ("insert", "emplace", "try_emplace"):
      ids = [x for x in cxx.walk(n) if x.get("kind") == "CXXMemberCallExpr"
             and (ix.callee(x)[0] or "").startswith("CFGNode::id")]
      if ids:
        keys.append(key_of(ids[0]))
  if keys:
    bad = [k for k in keys if k != "id-of-loop-var"]
    facts["child_key"] = bad[0] if bad else "id-of-loop-var"
  # the missing-child branch
  miss_if = None
  for n in _pruned(ix, body, consts):
    if n.get("kind") == "IfStmt":
      _, _, c_e, then, els = U.if_parts(n)
      cond = uncast(term(ix, c_e))
      if isinstance(cond, tuple) and cond[0] == "opcall" and cond[1] == "operator==" and "end" in str(cond):
        miss_if = n
        sub = list(_pruned(ix, then, consts))
        kinds = [x.get("kind") for x in sub]
        if "ReturnStmt" in kinds:
          ret = [x for x in sub if x.get("kind") == "ReturnStmt"][0]
          lits = [x for x in cxx.walk(ret) if x.get("kind") in ("CXXBoolLiteralExpr", "CXXNullPtrLiteralExpr")]
          facts["missing_child"] = "return-miss" if any(
              x.get("kind") == "CXXNullPtrLiteralExpr" for x in lits) else "return-other"
        elif any(x.get("kind") == "CXXMemberCallExpr" and ix.callee(x)[2] in ("insert", "emplace", "try_emplace")
                 for x in sub):
          facts["missing_child"] = "create"
        elif "BreakStmt" in kinds:
          facts["missing_child"] = "break"
        elif "ContinueStmt" in kinds:
          facts["missing_child"] = "continue"
        else:
          facts["missing_child"] = "other"
  if miss_if is None and subscripts:
    # children[key] creates the (null) entry; `if (!child) child = make_unique`
    # fills it: find-or-insert
    facts["lookup"] = "operator[]"
    refs = [d for d in _pruned(ix, body, consts) if d.get("kind") == "VarDecl"
            and cxx.qual_type(d).rstrip().endswith("&")
            and any(x is subscripts[0] for x in cxx.walk(d))]
    filled = False
    if len(subscripts) == 1 and refs:
      rv = ("var", refs[0].get("name"), refs[0]["id"])
      for n in _pruned(ix, body, consts):
        if n.get("kind") == "IfStmt":
          _, _, c_e, then, els = U.if_parts(n)
          c = uncast(term(ix, c_e))
          is_null = (isinstance(c, tuple) and c[0] == "!" and rv in (
              uncast(c[1]), uncast(uncast(c[1])[2]) if isinstance(uncast(c[1]), tuple)
              and uncast(c[1])[0] == "mcall" and uncast(c[1])[1] == "operator bool" else None)) or \
              (isinstance(c, tuple) and c[0] == "opcall" and c[1] == "operator==" and
               rv in (uncast(c[2]), uncast(c[3])) and ("nullptr",) in (uncast(c[2]), uncast(c[3])))
          assigns = any(
              x.get("kind") == "CXXOperatorCallExpr" and ix.callee(x)[2] == "operator=" and
              uncast(term(ix, inner(x)[1])) == rv and "make_unique" in str(term(ix, inner(x)[2]))
              for x in cxx.walk(then))
          if is_null and assigns:
            filled = True
            miss_if = n
    facts["missing_child"] = "create" if filled else "other"
  # any other way of leaving an iteration early means a blocked node that
  # does not contribute a trie level
  inside = set()
  if miss_if is not None:
    inside = {id(x) for x in cxx.walk(miss_if)}
  skips = [x for x in _pruned(ix, body, consts)
           if x.get("kind") in ("BreakStmt", "ContinueStmt", "ReturnStmt", "GotoStmt")
           and id(x) not in inside]
  facts["level_skipped_at_lines"] = sorted(
      ((x.get("range") or {}).get("begin") or {}).get("line") or 0 for x in skips)
  if lookup and holder is not None and facts.get("missing_child") == "return-miss":
    if not _null_mapped_to_miss(ix, fn, holder):
      raise AnalysisError(
          f"{fn.key}: {host.name} reports a missing child by returning nullptr, "
          "but the caller does not test the pointer first and answer a miss")
    facts["null_answered_by_miss"] = True
  return facts, pnames


@rule("R8.5", "C08", floor=6)
def r8_5(ctx):
  """The path cache is keyed by exactly (start, finish, blocked set).

  InsertResult and GetResult must walk the trie with the same key sequence
  (root_[start][finish], then one level per blocked node id, in the set's
  order); a lookup that meets a missing child must report a miss - returning
  the result stored for a prefix of the blocked set would make the answer
  depend on which queries ran before.
  """
  ix, *_ = _state(ctx)
  ins = ix.find("internal::PathCacheTrie::InsertResult")[0]
  get = ix.find("internal::PathCacheTrie::GetResult")[0]
  fi, pi = _trie_walk(ix, ins)
  fg, pg = _trie_walk(ix, get, lookup=True)
  if fg.get("lookup") == "operator[]":
    raise AnalysisError("GetResult looks children up with operator[] (which "
                        "creates them): idiom not understood")
  for name, f, pn in (("InsertResult", fi, pi), ("GetResult", fg, pg)):
    ok = f.get("root_keys") == pn[:2] and f.get("loop_over") == pn[2] and \
        f.get("child_key") == "id-of-loop-var"
    ctx.check(ok, f"{name}:key-sequence", "pytype/typegraph/solver.cc", 0,
              f"{name} walks root_{f.get('root_keys')}, loops over "
              f"{f.get('loop_over')} keyed by {f.get('child_key')}; expected "
              f"root_[{pn[0]}][{pn[1]}], one level per node of {pn[2]} keyed "
              "by node->id()", f)
  for name, f in (("InsertResult", fi), ("GetResult", fg)):
    ctx.check(not f.get("level_skipped_at_lines"), f"{name}:every-blocked-node-is-a-level",
              "pytype/typegraph/solver.cc", (f.get("level_skipped_at_lines") or [0])[0],
              f"{name} can leave an iteration of the walk over the blocked set "
              f"early (line(s) {f.get('level_skipped_at_lines')}): such a blocked "
              "node is not part of the cache key, so two queries whose blocked "
              "sets differ only in it share one entry and the answer depends on "
              "which was asked first", f)
  ctx.check(fi.get("missing_child") == "create", "InsertResult:missing-child-created",
            "pytype/typegraph/solver.cc", ins.line,
            f"InsertResult must create the missing trie level; it does: {fi.get('missing_child')}", fi)
  ctx.check(fg.get("missing_child") == "return-miss", "GetResult:missing-child-is-a-miss",
            "pytype/typegraph/solver.cc", get.line,
            "GetResult must return a miss ({false, nullptr}) when a blocked "
            f"node has no child in the trie; it does: {fg.get('missing_child')} "
            "- the result cached for a prefix of the blocked set would be "
            "returned, so answers depend on earlier queries", fg)


def _tg(name):
  return f"pytype/typegraph/{name}"



# -- texts used by the refactored-shape variants ---------------------------------
_INS_OLD = (
    "    bool path_exists, std::deque<const CFGNode*> result_path) {\n"
    "  TrieNode* current_trie_node = &root_[start][finish];\n"
    "  std::unordered_map<CFGNode::IdType, std::unique_ptr<TrieNode>>*\n"
    "      current_children = &current_trie_node->children;\n\n"
    "  for (const CFGNode* node : blocked) {\n"
    "    auto it = current_children->find(node->id());\n"
    "    if (it == current_children->end()) {\n"
    "      auto inserted =\n"
    "          current_children->insert({node->id(), std::make_unique<TrieNode>()});\n"
    "      current_trie_node = inserted.first->second.get();\n"
    "      current_children = &current_trie_node->children;\n"
    "      continue;\n"
    "    }\n"
    "    current_trie_node = it->second.get();\n"
    "    current_children = &it->second->children;\n"
    "  }\n"
    "  current_trie_node->path = std::move(result_path);\n")
_GET_OLD = (
    "                                     const CFGNodeSet& blocked) {\n"
    "  TrieNode* current_trie_node = &root_[start][finish];\n"
    "  std::unordered_map<CFGNode::IdType, std::unique_ptr<TrieNode>>*\n"
    "      current_children = &current_trie_node->children;\n\n"
    "  for (const CFGNode* node : blocked) {\n"
    "    auto it = current_children->find(node->id());\n"
    "    if (it == current_children->end()) {\n"
    "      return {false, nullptr};\n"
    "    }\n"
    "    current_trie_node = it->second.get();\n"
    "    current_children = &it->second->children;\n"
    "  }\n\n"
    "  if (current_trie_node->path.has_value()) {\n")
_MISS = "      if (!create_missing) {\n        return nullptr;\n      }\n"
_NULL_TEST = "  if (current_trie_node == nullptr) {\n    return {false, nullptr};\n  }\n"


def _shared_walk(miss=_MISS, null_test=_NULL_TEST, ins_flag="true", get_flag="false",
                 key="node->id()"):
  """InsertResult and GetResult share PathCacheTrie::FindTrieNode(create_missing)."""
  return [
      (_tg("solver.h"), "      root_;\n",
       "      root_;\n  TrieNode* FindTrieNode(const CFGNode* start, const CFGNode* finish,\n"
       "                         const CFGNodeSet& blocked, bool create_missing);\n"),
      (_tg("solver.cc"), "QueryResult PathCacheTrie::InsertResult(\n",
       "TrieNode* PathCacheTrie::FindTrieNode(const CFGNode* start,\n"
       "                                      const CFGNode* finish,\n"
       "                                      const CFGNodeSet& blocked,\n"
       "                                      bool create_missing) {\n"
       "  TrieNode* trie_node = &root_[start][finish];\n"
       "  for (const CFGNode* node : blocked) {\n"
       "    auto& children = trie_node->children;\n"
       f"    auto it = children.find({key});\n"
       "    if (it == children.end()) {\n" + miss +
       f"      it = children.insert({{{key}, std::make_unique<TrieNode>()}}).first;\n"
       "    }\n"
       "    trie_node = it->second.get();\n"
       "  }\n"
       "  return trie_node;\n}\n\n"
       "QueryResult PathCacheTrie::InsertResult(\n"),
      (_tg("solver.cc"), _INS_OLD,
       "    bool path_exists, std::deque<const CFGNode*> result_path) {\n"
       "  TrieNode* current_trie_node =\n"
       f"      FindTrieNode(start, finish, blocked, /*create_missing=*/{ins_flag});\n"
       "  current_trie_node->path = std::move(result_path);\n"),
      (_tg("solver.cc"), _GET_OLD,
       "                                     const CFGNodeSet& blocked) {\n"
       "  TrieNode* current_trie_node =\n"
       f"      FindTrieNode(start, finish, blocked, /*create_missing=*/{get_flag});\n"
       + null_test +
       "  if (current_trie_node->path.has_value()) {\n"),
  ]


def _subscript_insert(key="node->id()", fill="    if (!child) {\n      child = std::make_unique<TrieNode>();\n    }\n"):
  """InsertResult written as find-or-insert with operator[] (no children alias)."""
  return [(_tg("solver.cc"), _INS_OLD,
           "    bool path_exists, std::deque<const CFGNode*> result_path) {\n"
           "  TrieNode* current_trie_node = &root_[start][finish];\n\n"
           "  for (const CFGNode* node : blocked) {\n"
           f"    std::unique_ptr<TrieNode>& child = current_trie_node->children[{key}];\n"
           + fill +
           "    current_trie_node = child.get();\n"
           "  }\n"
           "  current_trie_node->path = std::move(result_path);\n")]


_ADDORIGIN_VEC = ("Origin* Binding::AddOrigin(CFGNode* node,\n"
                  "                           const std::vector<Binding*>& source_set) {\n"
                  "  program_->InvalidateSolver();\n"
                  "  Origin* origin = FindOrAddOrigin(node);\n")
_ADDORIGIN_SET = ("Origin* Binding::AddOrigin(CFGNode* node, const SourceSet& source_set) {\n"
                  "  program_->InvalidateSolver();\n"
                  "  Origin* origin = FindOrAddOrigin(node);\n")
_INVALIDATE = ("  if (solver_) {\n"
               "    solver_metrics_.push_back(solver_->CalculateMetrics());\n"
               "  }\n"
               "  solver_.reset();\n")


def _delegating_addorigin(base_invalidates=True):
  """The AddOrigin(node, source_set) overloads delegate to AddOrigin(node)."""
  out = [
      (_tg("typegraph.cc"), _ADDORIGIN_VEC,
       "Origin* Binding::AddOrigin(CFGNode* node,\n"
       "                           const std::vector<Binding*>& source_set) {\n"
       "  Origin* origin = AddOrigin(node);\n"),
      (_tg("typegraph.cc"), _ADDORIGIN_SET,
       "Origin* Binding::AddOrigin(CFGNode* node, const SourceSet& source_set) {\n"
       "  Origin* origin = AddOrigin(node);\n"),
  ]
  if not base_invalidates:
    out.append((_tg("typegraph.cc"),
                "Origin* Binding::AddOrigin(CFGNode* node) {\n  program_->InvalidateSolver();\n",
                "Origin* Binding::AddOrigin(CFGNode* node) {\n"))
  return out


VARIANTS = [
    {"name": "connectto-no-invalidate", "rule": "R8.3", "file": _tg("typegraph.cc"), "expect": "fire",
     "old": "  program_->InvalidateSolver();\n  node->incoming_.push_back(this);",
     "new": "  node->incoming_.push_back(this);"},
    {"name": "connectto-invalidate-after-write", "rule": "R8.3", "file": _tg("typegraph.cc"), "expect": "fire",
     "old": "  program_->InvalidateSolver();\n  node->incoming_.push_back(this);\n  this->outgoing_.push_back(node);",
     "new": "  node->incoming_.push_back(this);\n  this->outgoing_.push_back(node);\n  program_->InvalidateSolver();"},
    {"name": "revert-D1-addorigin-sourceset", "rule": "R8.3", "file": _tg("typegraph.cc"), "expect": "fire",
     "old": "Origin* Binding::AddOrigin(CFGNode* node, const SourceSet& source_set) {\n  program_->InvalidateSolver();",
     "new": "Origin* Binding::AddOrigin(CFGNode* node, const SourceSet& source_set) {"},
    {"name": "revert-D2-set_condition", "rule": "R8.3", "file": _tg("typegraph.h"), "expect": "fire",
     "old": "    program_->InvalidateSolver();\n    this->condition_ = condition;",
     "new": "    this->condition_ = condition;"},
    {"name": "helper-invalidate-moved-after-push", "rule": "R8.3", "file": _tg("typegraph.cc"), "expect": "fire",
     "old": "    program_->InvalidateSolver();\n    auto binding =",
     "new": "    auto binding ="},
    {"name": "addorigin-node-conditional-invalidate", "rule": "R8.3", "file": _tg("typegraph.cc"), "expect": "fire",
     "old": "Origin* Binding::AddOrigin(CFGNode* node) {\n  program_->InvalidateSolver();",
     "new": "Origin* Binding::AddOrigin(CFGNode* node) {\n  if (origins_.empty()) program_->InvalidateSolver();"},
    {"name": "new-mutator-exposed", "rule": "R8.3", "expect": "fire",
     "edits": [(_tg("typegraph.h"), "  Binding* condition() const { return condition_; }",
                "  Binding* condition() const { return condition_; }\n  void ClearIncoming() { incoming_.clear(); }"),
               (_tg("cfg.cc"), "  self->cfg_node->ConnectTo(node->cfg_node);",
                "  self->cfg_node->ClearIncoming();\n  self->cfg_node->ConnectTo(node->cfg_node);")]},
    {"name": "query-between-invalidate-and-write", "rule": "R8.3", "file": _tg("typegraph.cc"), "expect": "fire",
     "old": "  program_->InvalidateSolver();\n  node->incoming_.push_back(this);",
     "new": "  program_->InvalidateSolver();\n  program_->GetSolver();\n  node->incoming_.push_back(this);"},
    {"name": "twin-invalidate-hoisted-to-entry", "rule": "R8.3", "file": _tg("typegraph.cc"), "expect": "silent",
     "old": "void CFGNode::ConnectTo(CFGNode* node) {\n  if (this == node) {",
     "new": "void CFGNode::ConnectTo(CFGNode* node) {\n  program_->InvalidateSolver();\n  if (this == node) {"},
    {"name": "twin-split-helper-called-after-invalidate", "rule": "R8.3", "expect": "silent",
     "edits": [(_tg("typegraph.cc"), "  node->incoming_.push_back(this);\n  this->outgoing_.push_back(node);",
                "  LinkEdge(node);"),
               (_tg("typegraph.cc"), "bool CFGNode::HasCombination(",
                "void CFGNode::LinkEdge(CFGNode* node) {\n  node->incoming_.push_back(this);\n  this->outgoing_.push_back(node);\n}\n\nbool CFGNode::HasCombination("),
               (_tg("typegraph.h"), "  void ConnectTo(CFGNode* node);",
                "  void ConnectTo(CFGNode* node);\n  void LinkEdge(CFGNode* node);")]},
    {"name": "solver-created-elsewhere", "rule": "R8.4", "file": _tg("typegraph.cc"), "expect": "fire",
     "old": "bool Binding::IsVisible(const CFGNode* viewpoint) const {\n  Solver* s = program_->GetSolver();",
     "new": "bool Binding::IsVisible(const CFGNode* viewpoint) const {\n  Solver* s = program_->solver();"},
    {"name": "twin-invalidate-reset-inside-the-non-null-branch", "rule": "R8.4", "file": _tg("typegraph.cc"), "expect": "silent",
     "old": "    solver_metrics_.push_back(solver_->CalculateMetrics());\n  }\n  solver_.reset();",
     "new": "    solver_metrics_.push_back(solver_->CalculateMetrics());\n    solver_.reset();\n  }"},
    {"name": "pathcache-lookup-returns-prefix", "rule": "R8.5", "file": _tg("solver.cc"), "expect": "fire",
     "old": "    if (it == current_children->end()) {\n      return {false, nullptr};\n    }",
     "new": "    if (it == current_children->end()) {\n      break;\n    }"},
    {"name": "pathcache-get-keyed-by-finish-only", "rule": "R8.5", "file": _tg("solver.cc"), "expect": "fire",
     "old": "                                     const CFGNodeSet& blocked) {\n  TrieNode* current_trie_node = &root_[start][finish];",
     "new": "                                     const CFGNodeSet& blocked) {\n  TrieNode* current_trie_node = &root_[finish][finish];"},
    {"name": "seeded-C08-r2m2-key-drops-later-nodes", "rule": "R8.5", "patch": "seeded/C08-r2m2/patch.diff", "expect": "fire"},
    # -- refactored shapes: must-silent twins and the same defects in the new shape
    {"name": "twin-benign-C07-r2-trie-without-alias", "rule": "R8.5",
     "patch": "benign/C07-r2/patch.diff", "expect": "silent"},
    {"name": "twin-benign-C08-r1-shared-trie-walk", "rule": "R8.5",
     "patch": "benign/C08-r1/patch.diff", "expect": "silent"},
    {"name": "twin-benign-C08-r3-invalidation-deduplicated", "rule": "R8.3",
     "patch": "benign/C08-r3/patch.diff", "expect": "silent"},
    {"name": "twin-benign-C08-r4-set-condition-moved", "rule": "R8.3",
     "patch": "benign/C08-r4/patch.diff", "expect": "silent"},
    {"name": "twin-shared-walk-helper", "rule": "R8.5", "expect": "silent", "edits": _shared_walk()},
    {"name": "shared-walk-miss-returns-prefix-node", "rule": "R8.5", "expect": "fire",
     "edits": _shared_walk(miss="      if (!create_missing) {\n        return trie_node;\n      }\n")},
    {"name": "shared-walk-miss-breaks", "rule": "R8.5", "expect": "fire",
     "edits": _shared_walk(miss="      if (!create_missing) {\n        break;\n      }\n")},
    {"name": "shared-walk-insert-does-not-create", "rule": "R8.5", "expect": "fire",
     "edits": _shared_walk(ins_flag="false")},
    {"name": "shared-walk-keyed-by-start", "rule": "R8.5", "expect": "fire",
     "edits": _shared_walk(key="start->id()")},
    {"name": "shared-walk-null-not-tested", "rule": "R8.5", "expect": "error",
     "edits": _shared_walk(null_test="")},
    {"name": "shared-walk-null-answered-by-hit", "rule": "R8.5", "expect": "error",
     "edits": _shared_walk(null_test="  if (current_trie_node == nullptr) {\n    current_trie_node = &root_[start][finish];\n  }\n")},
    {"name": "twin-insert-with-subscript", "rule": "R8.5", "expect": "silent", "edits": _subscript_insert()},
    {"name": "insert-with-subscript-keyed-by-finish", "rule": "R8.5", "expect": "fire",
     "edits": _subscript_insert(key="finish->id()")},
    {"name": "insert-with-subscript-skips-high-ids", "rule": "R8.5", "expect": "fire",
     "edits": _subscript_insert(fill="    if (node->id() > start->id()) break;\n"
                                     "    if (!child) {\n      child = std::make_unique<TrieNode>();\n    }\n")},
    {"name": "twin-addorigin-overloads-delegate", "rule": "R8.3", "expect": "silent",
     "edits": _delegating_addorigin()},
    {"name": "addorigin-overloads-delegate-base-not-invalidating", "rule": "R8.3", "expect": "fire",
     "edits": _delegating_addorigin(base_invalidates=False)},
    {"name": "twin-invalidate-early-return-when-no-solver", "rule": "R8.4", "file": _tg("typegraph.cc"),
     "expect": "silent", "old": _INVALIDATE,
     "new": "  if (!solver_) {\n    return;\n  }\n"
            "  solver_metrics_.push_back(solver_->CalculateMetrics());\n  solver_.reset();\n"},
    {"name": "twin-invalidate-early-return-nullptr-compare", "rule": "R8.4", "file": _tg("typegraph.cc"),
     "expect": "silent", "old": _INVALIDATE,
     "new": "  if (solver_ == nullptr) return;\n"
            "  solver_metrics_.push_back(solver_->CalculateMetrics());\n  solver_.reset();\n"},
    {"name": "invalidate-early-return-when-solver-present", "rule": "R8.4", "file": _tg("typegraph.cc"),
     "expect": "fire", "old": _INVALIDATE,
     "new": "  if (solver_) {\n    solver_metrics_.push_back(solver_->CalculateMetrics());\n    return;\n  }\n"
            "  solver_.reset();\n"},
    {"name": "invalidate-early-return-on-unrelated-test", "rule": "R8.4", "file": _tg("typegraph.cc"),
     "expect": "fire", "old": _INVALIDATE,
     "new": "  if (solver_metrics_.empty()) {\n    return;\n  }\n"
            "  if (solver_) solver_metrics_.push_back(solver_->CalculateMetrics());\n  solver_.reset();\n"},
    {"name": "invalidate-early-return-after-recreating", "rule": "R8.4", "file": _tg("typegraph.cc"),
     "expect": "fire", "old": _INVALIDATE,
     "new": "  if (!solver_) {\n    solver_ = std::make_unique<Solver>(this);\n    return;\n  }\n"
            "  solver_metrics_.push_back(solver_->CalculateMetrics());\n  solver_.reset();\n"},
    {"name": "invalidate-resets-to-new-solver", "rule": "R8.4", "file": _tg("typegraph.cc"),
     "expect": "fire", "old": "  solver_.reset();\n", "new": "  solver_.reset(new Solver(this));\n"},
]
