"""C13 extension: constructor slots are inherited.

R13.21  CPython's object_new / object_init tolerate excess constructor
        arguments exactly when the OTHER slot (tp_init / tp_new) of the type is
        not object's - and type slots are inherited.  special_builtins.Object
        models this with `_has_own(node, cls, method)`; the answer "cls's
        `method` differs from object's" has to come from a resolution of
        `method` along cls's MRO (attribute_handler.get_attribute & co.)
        compared with object's own member.  A test against cls's OWN member
        table (`method in cls`, `cls.members`, `cls.get_own_attributes()`)
        answers "defined in this very class body" instead: a subclass that
        merely inherits `__new__(cls, x)` then gets plain `object.__init__`
        and `Sub(1)` is reported as wrong-arg-count although CPython binds it.
        The rule also checks the cross-wise pairing in get_special_attribute:
        looking up `__new__` asks about `__init__` and vice versa, and each
        arm hands out the `<name>extra_args` variant of the slot looked up.
"""
import ast

from sa.core import rule, AnalysisError
from sa.pyindex import get_module, dotted, src, walk_no_nested, try_fold
from sa import flow

SB = "pytype/overlays/special_builtins.py"
_RESOLVERS = {"get_attribute", "get_class_attribute", "get_instance_attribute",
              "_lookup_from_mro", "_get_class_attribute", "_get_instance_attribute"}
_OWN_CALLS = {"get_own_attributes", "get_own_methods", "get_own_abstract_methods"}
_SLOTS = ("__new__", "__init__")


def _expand(e, fn, depth=0):
  """`e` plus the right-hand sides of the locals it mentions (two levels)."""
  out = [e]
  if depth >= 2:
    return out
  for n in ast.walk(e):
    if isinstance(n, ast.Name) and isinstance(n.ctx, ast.Load):
      for a in walk_no_nested(fn):
        if isinstance(a, ast.Assign):
          for t in a.targets:
            if any(isinstance(x, ast.Name) and x.id == n.id for x in ast.walk(t)):
              out += _expand(a.value, fn, depth + 1)
  return out


def _own_table_tests(exprs, cls):
  out = []
  for e in exprs:
    for n in ast.walk(e):
      if isinstance(n, ast.Compare) and len(n.ops) == 1 and \
          isinstance(n.ops[0], (ast.In, ast.NotIn)):
        c = n.comparators[0]
        d = dotted(c)
        if d in (cls, f"{cls}.members", f"{cls}.__dict__"):
          out.append(n)
        elif isinstance(c, ast.Call) and isinstance(c.func, ast.Attribute) and \
            c.func.attr in _OWN_CALLS and dotted(c.func.value) == cls:
          out.append(n)
      elif isinstance(n, ast.Call) and isinstance(n.func, ast.Attribute) and \
          n.func.attr in ("get", "__contains__") and \
          dotted(n.func.value) in (cls, f"{cls}.members"):
        out.append(n)
  return out


def _mro_resolutions(exprs, cls, method):
  out = []
  for e in exprs:
    for n in ast.walk(e):
      if isinstance(n, ast.Call) and isinstance(n.func, ast.Attribute) and \
          n.func.attr in _RESOLVERS:
        args = [dotted(a) for a in n.args] + [dotted(k.value) for k in n.keywords]
        if cls in args and method in args:
          out.append(n)
  return out


@rule("R13.21", "C13", floor=3)
def r13_21(ctx):
  """object.__new__/__init__ leniency is decided by MRO resolution."""
  mod = get_module(ctx, SB)
  fn = mod.func("Object._has_own")
  params = [a.arg for a in fn.args.args]
  if len(params) != 4:
    raise AnalysisError("Object._has_own: expected (self, node, cls, method)")
  _, _, cls, method = params
  rets = [r for r in walk_no_nested(fn) if isinstance(r, ast.Return)]
  if not rets:
    raise AnalysisError("Object._has_own: no return")
  verdict_rets = []
  for r in rets:
    if isinstance(r.value, ast.Constant):
      g = flow.guards_txt(mod.parent, r, stop=fn)
      own = _own_table_tests([ast.parse(t, mode="eval").body for t, _ in g], cls)
      if own:
        verdict_rets.append((r, [r.value] + [ast.parse(t, mode="eval").body for t, _ in g]))
        continue
      atoms = []
      for t, p in g:
        e = ast.parse(t, mode="eval").body
        parts = e.values if isinstance(e, ast.BoolOp) and p else [e]
        for x in parts:
          q = p
          while isinstance(x, ast.UnaryOp) and isinstance(x.op, ast.Not):
            x, q = x.operand, not q
          atoms.append((src(x), q))
      if r.value.value is False and atoms and all(
          (t.startswith(f"isinstance({cls},") and not q) or (t == f"{cls} is self" and q)
          or (t.startswith(f"{method} in ") and q) for t, q in atoms):
        continue
      raise AnalysisError(
          f"Object._has_own: constant `{src(r)}` under {g} not understood")
    else:
      verdict_rets.append((r, _expand(r.value, fn)))
  if not verdict_rets:
    raise AnalysisError("Object._has_own: no computed verdict")
  own, res = [], []
  for r, exprs in verdict_rets:
    own += _own_table_tests(exprs, cls)
    res += _mro_resolutions(exprs, cls, method)
  facts = {"verdict": [src(r)[:80] for r, _ in verdict_rets],
           "own_table_tests": [src(o) for o in own],
           "mro_resolutions": [src(x)[:80] for x in res]}
  construct = "Object._has_own:resolved-along-mro"
  line = verdict_rets[0][0].lineno
  if own:
    ctx.bad(construct, SB, line,
            f"_has_own decides by {[src(o) for o in own]}: a look-up in "
            f"`{cls}`'s OWN member table.  tp_new / tp_init are inherited, so "
            f"a class whose base overrides `{_SLOTS[0]}` has the slot without "
            "having the entry; object.__init__ then rejects the arguments the "
            "inherited __new__ accepts (false wrong-arg-count on `Sub(1)`)", facts)
  elif not res:
    raise AnalysisError(
        f"Object._has_own: verdict `{facts['verdict']}` neither resolves "
        f"`{method}` along the MRO nor tests the own table - not understood")
  else:
    # the resolved method must be compared with object's own member
    cmp_obj = any(
        isinstance(n, ast.Subscript) and dotted(n.value) == "self.members"
        and dotted(n.slice) == method
        for _, exprs in verdict_rets for e in exprs for n in ast.walk(e))
    is_cmp = any(isinstance(e, ast.Compare) and len(e.ops) == 1
                 and isinstance(e.ops[0], (ast.NotEq, ast.IsNot))
                 for r, exprs in verdict_rets
                 if not isinstance(r.value, ast.Constant) for e in exprs)
    ctx.check(cmp_obj and is_cmp, construct, SB, line,
              f"the method resolved on `{cls}` must be compared (!=) with "
              f"object's own `self.members[{method}]`; verdict is "
              f"{facts['verdict']}", facts)
  # cross-wise pairing in get_special_attribute
  gsa = mod.func("Object.get_special_attribute")
  calls = [c for c in ast.walk(gsa) if isinstance(c, ast.Call)
           and dotted(c.func) == "self._has_own"]
  if len(calls) != 2:
    raise AnalysisError(
        f"Object.get_special_attribute: expected two _has_own calls, found {len(calls)}")
  seen = {}
  for c in calls:
    node = c
    while node is not None and not isinstance(node, ast.If):
      node = mod.parent.get(node)
    if node is None:
      raise AnalysisError("get_special_attribute: _has_own outside an if-test")
    conj = node.test.values if isinstance(node.test, ast.BoolOp) and \
        isinstance(node.test.op, ast.And) else [node.test]
    looked = None
    for t in conj:
      if isinstance(t, ast.Compare) and len(t.ops) == 1 and isinstance(t.ops[0], ast.Eq) \
          and dotted(t.left) == "name":
        looked = try_fold(t.comparators[0])
    asked = try_fold(c.args[2]) if len(c.args) == 3 else None
    if looked not in _SLOTS or asked not in _SLOTS:
      raise AnalysisError(
          f"get_special_attribute: arm `{src(node.test)[:80]}` not understood")
    handed = sorted({try_fold(n.slice) for s in node.body for n in ast.walk(s)
                     if isinstance(n, ast.Subscript) and dotted(n.value) == "self.members"
                     and isinstance(n.ctx, ast.Load)} - {None})
    other = _SLOTS[1 - _SLOTS.index(looked)]
    seen[looked] = asked
    ctx.check(asked == other and handed == [f"{looked}extra_args"],
              f"Object.get_special_attribute:{looked}", SB, node.lineno,
              f"looking up object.{looked} asks _has_own about `{asked}` and "
              f"hands out {handed}: excess arguments to {looked} are fine "
              f"exactly when the class overrides `{other}`, and the lenient "
              f"variant is `{looked}extra_args`",
              {"looked_up": looked, "asks_about": asked, "hands_out": handed})
  if set(seen) != set(_SLOTS):
    raise AnalysisError(f"get_special_attribute: arms cover {sorted(seen)}")


_BODY = ("    self.load_lazy_attribute(method)\n    obj_method = self.members[method]\n"
         "    _, cls_method = self.ctx.attribute_handler.get_attribute(node, cls, method)\n"
         "    return obj_method.data != cls_method.data\n")

VARIANTS = [
    {"name": "seeded-C13-r2m2", "rule": "R13.21", "patch": "seeded/C13-r2m2/patch.diff",
     "expect": "fire"},
    {"name": "has-own-members-table", "rule": "R13.21", "file": SB, "expect": "fire",
     "old": _BODY,
     "new": "    return method in cls.members\n"},
    {"name": "has-own-own-attributes-shortcut", "rule": "R13.21", "file": SB, "expect": "fire",
     "old": _BODY,
     "new": "    if method not in cls.get_own_attributes():\n      return False\n" + _BODY},
    {"name": "new-asks-about-new", "rule": "R13.21", "file": SB, "expect": "fire",
     "old": "      if name == \"__new__\" and self._has_own(node, val, \"__init__\"):",
     "new": "      if name == \"__new__\" and self._has_own(node, val, \"__new__\"):"},
    {"name": "init-arm-hands-out-new-variant", "rule": "R13.21", "file": SB, "expect": "fire",
     "old": "        self.load_lazy_attribute(\"__init__extra_args\")\n        return self.members[\"__init__extra_args\"]",
     "new": "        self.load_lazy_attribute(\"__new__extra_args\")\n        return self.members[\"__new__extra_args\"]"},
    {"name": "has-own-unknown-helper", "rule": "R13.21", "file": SB, "expect": "error",
     "old": _BODY,
     "new": "    return self._overrides(cls, method)\n"},
    {"name": "twin-has-own-renamed-locals-eq-negated", "rule": "R13.21", "file": SB, "expect": "silent",
     "old": _BODY,
     "new": "    self.load_lazy_attribute(method)\n    handler = self.ctx.attribute_handler\n"
            "    _, found = handler.get_attribute(node, cls, method)\n"
            "    return found.data != self.members[method].data\n"},
    {"name": "twin-has-own-keyword-name-result-local", "rule": "R13.21", "file": SB, "expect": "silent",
     "old": _BODY,
     "new": "    self.load_lazy_attribute(method)\n    mine = self.members[method]\n"
            "    _, theirs = self.ctx.attribute_handler.get_attribute(node, cls, name=method)\n"
            "    differs = mine.data != theirs.data\n    return differs\n"},
]
