"""C07 / R7.8 - every origin of every new goal is tried as the next position.

The search driver continues, for a removal result, at every node from which
the new goals can still be explained: for EVERY goal in result.new_goals and
EVERY origin of that goal, origin->where is handed to FindNodeBackwards as the
finish node (directly, or through a local set of unique finish nodes), and
every position found is handed to the recursive search.  The rule states the
total-traversal obligation of that chain of loops: none of them may be left
early (`break`, `return` of anything but `true`), and no origin may be skipped
under a condition other than the de-duplication of its own finish node.
"""
from sa.core import rule, AnalysisError
from sa import cxx
from sa.cxx import term, uncast, inner, strip
from rules import _cxxutil_c07c08 as U
from rules import c07 as _c07

SC = "pytype/typegraph/solver.cc"
LOOPS = ("CXXForRangeStmt", "ForStmt", "WhileStmt", "DoStmt")


def _path_to(root, node):
  """Ancestors of `node` below `root` (root first, node last), else None."""
  path = []

  def find(n):
    if n is node:
      path.append(n)
      return True
    for c in inner(n):
      if c.get("kind") and find(c):
        path.append(n)
        return True
    return False
  if root is None or not find(root):
    return None
  return list(reversed(path))


def _loop_body(lp):
  kids = inner(lp)
  return kids[0] if lp.get("kind") == "DoStmt" else kids[-1]


def _exits(lp):
  """[(kind, node)] of the statements that leave loop `lp` or cut one of its
  iterations short: break / continue bound to lp, and any return / goto."""
  out = []

  def rec(n, depth, in_switch):
    for c in inner(n):
      k = c.get("kind")
      if not k or k == "LambdaExpr":
        continue
      if k == "BreakStmt":
        if depth == 0 and not in_switch:
          out.append(("break", c))
      elif k == "ContinueStmt":
        if depth == 0:
          out.append(("continue", c))
      elif k == "ReturnStmt":
        out.append(("return", c))
      elif k in ("GotoStmt", "IndirectGotoStmt", "CXXThrowExpr", "CoreturnStmt"):
        out.append(("goto", c))
      elif k in LOOPS:
        rec(c, depth + 1, False)
      elif k == "SwitchStmt":
        rec(c, depth, True)
      else:
        rec(c, depth, in_switch)
  body = _loop_body(lp)
  rec({"inner": [body]}, 0, False)
  return out


def _resolve(t, mapping, limit=6):
  for _ in range(limit):
    n = U.subst(t, mapping)
    if n == t:
      break
    t = n
  return t


class _Host:
  """One function of the chain (the driver or the helper that hosts the
  backward query) with its loop variables bound to `an element of <range>`."""

  def __init__(self, ix, fn, env):
    self.ix, self.fn = ix, fn
    self.env = U.once_bound_env(ix, fn, env)
    self.map = {}
    for n in cxx.walk(fn.body):
      if n.get("kind") == "CXXForRangeStmt":
        lv, rng, _ = U.range_for(n)
        if rng is None:
          raise AnalysisError(f"{fn.name}: range-for without a range")
        self.map[lv["id"]] = ("elem", uncast(term(ix, rng, self.env)))

  def term(self, e):
    return _resolve(uncast(term(self.ix, e, self.env)), self.map)

  def range_of(self, lp):
    lv, rng, _ = U.range_for(lp)
    return _resolve(uncast(term(self.ix, rng, self.env)), self.map)


def _is_goals(t):
  t = uncast(t)
  return isinstance(t, tuple) and t[0] == "field" and \
      str(t[1]).endswith("RemoveResult::new_goals")


def _is_origins(t):
  """goal->origins() for goal an element of result.new_goals."""
  t = uncast(t)
  return isinstance(t, tuple) and t[0] == "mcall" and \
      str(t[1]).startswith("Binding::origins") and len(t) == 3 and \
      isinstance(uncast(t[2]), tuple) and uncast(t[2])[0] == "elem" and \
      _is_goals(uncast(t[2])[1])


def _is_where_of_origin(t):
  """origin->where for origin an element of goal->origins() (see above)."""
  t = uncast(t)
  if not (isinstance(t, tuple) and t[0] == "field" and t[1] == "Origin::where"):
    return False
  b = uncast(t[2])
  while isinstance(b, tuple) and b and (
      (b[0] == "opcall" and b[1] in ("operator->", "operator*") and len(b) == 3) or
      (b[0] == "mcall" and b[1] == "get" and len(b) == 3) or
      (b[0] == "*" and len(b) == 2)):
    b = uncast(b[2] if b[0] in ("opcall", "mcall") else b[1])
  return isinstance(b, tuple) and b[0] == "elem" and _is_origins(b[1])


def _local_set(host, var, inside):
  """The VarDecl of local `var`, which must be declared inside `inside` (the
  body of the loop over removal results, or the helper): a set that outlives
  one removal result would carry nodes from one result to the next."""
  for n in cxx.walk(inside):
    if n.get("kind") == "VarDecl" and n.get("id") == var[2]:
      return n
  return None


def _dedupe(host, cond, pol, key, scope):
  """`cond` (taken with polarity `pol`) says: `key` was handed on before -
  the idiom `!S.insert(key).second` on a set S local to `scope`."""
  t = uncast(term(host.ix, cond, host.env))
  neg = 0
  while isinstance(t, tuple) and len(t) == 2 and t[0] == "!":
    t = uncast(t[1])
    neg += 1
  skip_when_true = (neg % 2 == 1)
  if not (isinstance(t, tuple) and t[0] in ("field", "member") and
          str(t[1]).endswith("second")):
    return False
  c = uncast(t[2])
  if not (isinstance(c, tuple) and c[0] == "mcall" and c[1] in ("insert", "emplace")
          and len(c) == 4):
    return False
  s = uncast(c[2])
  if not (isinstance(s, tuple) and s[0] == "var" and len(s) == 3 and
          _local_set(host, s, scope) is not None):
    return False
  if _resolve(uncast(c[3]), host.map) != key:
    return False
  # pol: the polarity under which the origin is *skipped*
  return skip_when_true == pol


@rule("R7.8", "C07", floor=4)
def r7_8(ctx):
  """The loops from result.new_goals to the recursive search are total."""
  ix = _c07._ix(ctx)
  fs = _c07._search_fn(ix)
  recursive = U.reaching(ix, fs.key)
  res_loop, _, res_body = _c07._results_loop(ix, fs)
  sites = []
  for n, env, fn in U.walk_inlined(ix, fs, depth=2, skip=recursive):
    if n.get("kind") == "CXXMemberCallExpr" and \
        (ix.callee(n)[0] or "").startswith("internal::PathFinder::FindNodeBackwards"):
      sites.append((n, env, fn))
  if len(sites) != 1:
    raise AnalysisError(f"{fs.name}: FindNodeBackwards call not found "
                        f"({len(sites)} call sites in the driver and its helpers)")
  call, env, hfn = sites[0]
  host = _Host(ix, hfn, env if hfn.key != fs.key else None)
  scope = res_body if hfn.key == fs.key else hfn.body
  if _path_to(scope, call) is None:
    raise AnalysisError("the backward query is outside the loop over removal results")
  args = inner(call)[1:]
  if len(args) != 3:
    raise AnalysisError("FindNodeBackwards: arguments not understood")
  finish = host.term(args[1])
  problems = {"goals": [], "origins": [], "finish-nodes": [], "positions": []}
  seen_roles = set()
  facts = {"host": hfn.name}

  def feeding(node, key, what):
    """Checks the loops of `scope` that enclose `node` (a contribution of
    `key` to the next stage) and returns their roles."""
    path = _path_to(scope, node)
    if path is None:
      raise AnalysisError(f"{what} is outside the loop over removal results")
    roles = []
    for idx, lp in enumerate(path):
      if lp.get("kind") not in LOOPS:
        continue
      if lp.get("kind") != "CXXForRangeStmt":
        raise AnalysisError(f"{what} is inside a {lp.get('kind')}; only range-for "
                            "loops over goals / origins / finish nodes are understood")
      r = host.range_of(lp)
      if _is_goals(r):
        role = "goals"
      elif _is_origins(r):
        role = "origins"
      elif isinstance(r, tuple) and r[0] == "var" and len(r) == 3:
        role = "finish-nodes"
      else:
        raise AnalysisError(f"{what} is inside a loop over {U.show(r)}, which is "
                            "neither result.new_goals, goal->origins() nor a local set")
      roles.append((role, lp, r))
      seen_roles.add(role)
      child = path[idx + 1]
      # the statement of the loop body that carries the contribution
      body = _loop_body(lp)
      carrier = path[idx + 2] if body.get("kind") == "CompoundStmt" and \
          len(path) > idx + 2 and path[idx + 1] is body else child
      for kind, x in _exits(lp):
        if kind == "break":
          problems[role].append(
              f"line {U.line(x)}: `break` leaves the loop over {role} - the "
              "remaining ones are never tried as the next position")
        elif kind == "goto":
          raise AnalysisError(f"line {U.line(x)}: goto/throw inside the loop over {role}")
        elif kind == "return":
          v = U.return_value(x)
          lit = U.bool_literal(v) if v is not None else None
          if lit is True:
            continue
          if lit is False or hfn.key != fs.key or v is None:
            problems[role].append(
                f"line {U.line(x)}: `return` inside the loop over {role} gives "
                "up on the remaining ones")
          else:
            raise AnalysisError(f"line {U.line(x)}: return of a computed value "
                                f"inside the loop over {role}")
        elif kind == "continue" and U.pos(x) < U.pos(carrier):
          # a guard clause in front of the contribution: skips this element
          p = _path_to(body, x)
          ifs = [(a, b) for a, b in zip(p, p[1:]) if a.get("kind") == "IfStmt"]
          if len(ifs) != 1:
            raise AnalysisError(f"line {U.line(x)}: `continue` before {what} "
                                "under a nested condition")
          _, _, cond, then, els = U.if_parts(ifs[0][0])
          pol = ifs[0][1] is then
          if not _dedupe(host, cond, pol, key, scope):
            raise AnalysisError(
                f"line {U.line(x)}: an element of the loop over {role} is skipped "
                f"before {what} under a condition that is not the de-duplication "
                "of its own finish node")
      # `if`s wrapping the contribution inside this loop's body
      nxt = [j for j in range(idx + 1, len(path)) if path[j].get("kind") in LOOPS]
      stop = nxt[0] if nxt else len(path) - 1
      for j in range(idx + 1, stop):
        a, b = path[j], path[j + 1]
        if a.get("kind") == "IfStmt":
          _, _, cond, then, els = U.if_parts(a)
          if b is cond:
            continue
          if not _dedupe(host, cond, b is not then, key, scope):
            raise AnalysisError(
                f"line {U.line(a)}: {what} happens only under a condition that is "
                "not the de-duplication of the finish node")
        elif a.get("kind") in ("SwitchStmt", "CXXTryStmt", "ConditionalOperator"):
          raise AnalysisError(f"line {U.line(a)}: {what} under {a.get('kind')}")
    return roles

  if _is_where_of_origin(finish):
    facts["shape"] = "fused: origin->where is queried inside the loops over goals and origins"
    roles = feeding(call, finish, "the backward query")
  elif isinstance(finish, tuple) and finish[0] == "elem" and \
      isinstance(finish[1], tuple) and finish[1][0] == "var" and len(finish[1]) == 3:
    S = finish[1]
    facts["shape"] = f"finish nodes collected in local set `{S[1]}` first"
    if _local_set(host, S, scope) is None:
      raise AnalysisError(f"the set of finish nodes `{S[1]}` is not a local of "
                          "the handling of one removal result")
    roles = feeding(call, finish, "the backward query")
    fills = []
    for n in cxx.walk(scope):
      if n.get("kind") in ("CXXMemberCallExpr", "CXXOperatorCallExpr", "BinaryOperator"):
        t = uncast(term(ix, n, host.env))
        if n.get("kind") == "CXXMemberCallExpr" and isinstance(t, tuple) and \
            t[0] == "mcall" and uncast(t[2]) == S:
          if t[1] in ("insert", "emplace") and len(t) == 4:
            fills.append((n, _resolve(uncast(t[3]), host.map)))
          elif t[1] in cxx.MUTATORS:
            raise AnalysisError(f"line {U.line(n)}: `{S[1]}.{t[1]}(..)` - the set of "
                                "finish nodes is changed in a way that is not understood")
        elif n.get("kind") == "CXXOperatorCallExpr" and isinstance(t, tuple) and \
            t[0] == "opcall" and t[1] == "operator=" and len(t) > 2 and uncast(t[2]) == S:
          raise AnalysisError(f"line {U.line(n)}: the set of finish nodes is reassigned")
    if not fills:
      raise AnalysisError(f"no insertion into the set of finish nodes `{S[1]}` found")
    for n, x in fills:
      if not _is_where_of_origin(x):
        raise AnalysisError(f"line {U.line(n)}: `{S[1]}` receives {U.show(x)}, not "
                            "origin->where of an origin of a new goal")
      if not U.pos(n) < U.pos(call):
        problems["finish-nodes"].append(
            f"line {U.line(n)}: finish nodes are collected after the backward query")
      roles += feeding(n, x, f"the insertion into `{S[1]}`")
  else:
    raise AnalysisError(f"the finish node of the backward query is {U.show(finish)}: "
                        "neither origin->where of an origin of a new goal nor an "
                        "element of a local set")
  if not {"goals", "origins"} <= seen_roles:
    raise AnalysisError("the loops over result.new_goals and goal->origins() that "
                        "feed the backward query were not found")
  # positions: the loops (inside the loop over removal results) around the
  # recursive search
  dhost = host if hfn.key == fs.key else _Host(ix, fs, None)
  rec_calls = [n for n in cxx.walk(res_body)
               if n.get("kind") in ("CXXMemberCallExpr", "CallExpr") and
               ix.callee(n)[1] is not None and ix.callee(n)[1].key in recursive]
  if not rec_calls:
    raise AnalysisError("the recursive search call was not found in the loop "
                        "over removal results")
  n_pos = 0
  for rc in rec_calls:
    path = _path_to(res_body, rc)
    for lp in path:
      if lp.get("kind") not in LOOPS:
        continue
      n_pos += 1
      for kind, x in _exits(lp):
        if kind == "break":
          problems["positions"].append(
              f"line {U.line(x)}: `break` leaves the loop around the recursive "
              "search - the remaining positions are never tried")
        elif kind == "goto":
          raise AnalysisError(f"line {U.line(x)}: goto/throw around the recursive search")
        elif kind == "return":
          v = U.return_value(x)
          lit = U.bool_literal(v) if v is not None else None
          if lit is True:
            continue
          if lit is False:
            problems["positions"].append(
                f"line {U.line(x)}: `return false` inside the loop around the "
                "recursive search gives up on the remaining positions")
          else:
            raise AnalysisError(f"line {U.line(x)}: return of a computed value "
                                "inside the loop around the recursive search")
  if not n_pos:
    raise AnalysisError("the recursive search is not inside a loop over positions")
  facts["loops"] = sorted(seen_roles) + ["positions"]
  for role in ("goals", "origins", "finish-nodes", "positions"):
    f = dict(facts)
    if role == "finish-nodes" and role not in seen_roles:
      f["note"] = "no intermediate set: the query is made inside the origins loop"
    ctx.check(not problems[role], f"FindSolution:{role}-loop-total", SC, U.line(call),
              "; ".join(problems[role]) or "-", f)


def _tg(n):
  return f"pytype/typegraph/{n}"


_COLLECT = (
    "    for (const Binding* goal : result.new_goals) {\n"
    "      for (const auto& origin : goal->origins()) {\n"
    "        unique_finish_nodes.insert(origin->where);\n"
    "      }\n"
    "    }\n")
_QUERY_HEAD = (
    "    for (const CFGNode* finish_node : unique_finish_nodes) {\n"
    "      internal::QueryResult origin_path =\n"
    "          path_finder_.FindNodeBackwards(state.pos(), finish_node, blocked);\n"
    "      if (origin_path.path_exists) {\n")
_INSERT_POS = "        new_positions.insert(where);\n      }\n    }\n"
# the correct fused shape: dedupe by `!visited.insert(x).second`, no early exit
_FUSED = (
    "    for (const Binding* goal : result.new_goals) {\n"
    "      for (const auto& origin : goal->origins()) {\n"
    "        const CFGNode* finish_node = origin->where;\n"
    "        if (!unique_finish_nodes.insert(finish_node).second) {\n"
    "          continue;\n"
    "        }\n"
    "        internal::QueryResult origin_path =\n"
    "            path_finder_.FindNodeBackwards(state.pos(), finish_node, blocked);\n"
    "        if (!origin_path.path_exists) {\n"
    "          continue;\n"
    "        }\n"
    "        const CFGNode* where = finish_node;\n"
    "        for (const CFGNode* node : *origin_path.path) {\n"
    "          if (node != state.pos()) {\n"
    "            where = node;\n"
    "            break;\n"
    "          }\n"
    "        }\n"
    "        new_positions.insert(where);\n"
    "      }\n"
    "    }\n")
_UNFUSED = _COLLECT + _QUERY_HEAD + (
    "        const CFGNode* where = finish_node;\n"
    "        // Check if we found conditions on the way.\n"
    "        for (const CFGNode* node : *origin_path.path) {\n"
    "          if (node != state.pos()) {\n"
    "            where = node;\n"
    "            break;\n"
    "          }\n"
    "        }\n") + _INSERT_POS

VARIANTS = [
    {"name": "seeded-C07-r4m2-first-reachable-origin-only", "rule": "R7.8",
     "patch": "seeded/C07-r4m2/patch.diff", "expect": "fire"},
    {"name": "collect-only-first-origin", "rule": "R7.8", "file": _tg("solver.cc"), "expect": "fire",
     "old": _COLLECT, "new": _COLLECT.replace("insert(origin->where);\n", "insert(origin->where);\n        break;\n")},
    {"name": "collect-stops-after-first-goal-with-origins", "rule": "R7.8", "file": _tg("solver.cc"), "expect": "fire",
     "old": _COLLECT, "new": _COLLECT.replace("      }\n    }\n", "      }\n      if (!unique_finish_nodes.empty()) break;\n    }\n")},
    {"name": "query-loop-stops-at-first-reachable-finish", "rule": "R7.8", "file": _tg("solver.cc"), "expect": "fire",
     "old": _INSERT_POS, "new": "        new_positions.insert(where);\n        break;\n      }\n    }\n"},
    {"name": "query-loop-gives-up-on-unreachable-finish", "rule": "R7.8", "file": _tg("solver.cc"), "expect": "fire",
     "old": _QUERY_HEAD, "new": _QUERY_HEAD.replace("      if (origin_path.path_exists) {\n", "      if (!origin_path.path_exists) {\n        return false;\n      }\n      if (origin_path.path_exists) {\n")},
    {"name": "positions-loop-stops-at-cycle", "rule": "R7.8", "file": _tg("solver.cc"), "expect": "fire",
     "old": "        // Cycle detected. We ignore it unless it is the only solution.\n        continue;",
     "new": "        // Cycle detected. We ignore it unless it is the only solution.\n        break;"},
    {"name": "fused-shape-breaks-after-first-hit", "rule": "R7.8", "file": _tg("solver.cc"), "expect": "fire",
     "old": _UNFUSED, "new": _FUSED.replace("        new_positions.insert(where);\n", "        new_positions.insert(where);\n        break;\n")},
    {"name": "twin-fused-shape-dedupe-by-insert-second", "rule": "R7.8", "file": _tg("solver.cc"), "expect": "silent",
     "old": _UNFUSED, "new": _FUSED},
    {"name": "twin-continue-guard-after-query", "rule": "R7.8", "file": _tg("solver.cc"), "expect": "silent",
     "old": _QUERY_HEAD, "new": _QUERY_HEAD.replace("      if (origin_path.path_exists) {\n", "      if (!origin_path.path_exists) {\n        continue;\n      }\n      {\n")},
    {"name": "twin-hoisted-origin-where-renamed", "rule": "R7.8", "file": _tg("solver.cc"), "expect": "silent",
     "old": _COLLECT,
     "new": ("    for (const Binding* new_goal : result.new_goals) {\n"
             "      const auto& goal_origins = new_goal->origins();\n"
             "      for (const auto& o : goal_origins) {\n"
             "        const CFGNode* bound_at = o->where;\n"
             "        unique_finish_nodes.insert(bound_at);\n"
             "      }\n"
             "    }\n")},
    {"name": "twin-benign-C07-r3-FindNewPositions-helper", "rule": "R7.8",
     "patch": "benign/C07-r3/patch.diff", "expect": "silent"},
    {"name": "fused-shape-skips-origins-under-unknown-condition", "rule": "R7.8", "file": _tg("solver.cc"), "expect": "error",
     "old": _COLLECT, "new": _COLLECT.replace("        unique_finish_nodes.insert(origin->where);\n",
                                              "        if (origin->where == state.pos()) continue;\n        unique_finish_nodes.insert(origin->where);\n")},
]
