"""Helpers of the C09 / C04 rule modules (owner: c09c04).

C++ part: a small symbolic evaluator over clang's JSON AST (`Sym`) that turns
the statements of a function into a normal form the schema rules match
against, so that behaviour-preserving spellings coincide:

* calls to file-local / same-class helper functions are inlined (expression
  helpers `return E;` by substitution, void helpers statement by statement),
  with the parameter/return conversions kept as explicit ("cast", T, x) nodes
  when T is narrower than 64 bit;
* single-assignment locals, references and pointers are substituted by their
  definition (a local that is reassigned is an AnalysisError, never a guess);
  `p->m`, `*p`, `&x`, `v.data()[i]` are normalised;
* `for (T i = 0; i < B; i++)` and `for (auto& r : C)` are both
  ("loop", index variable, bound, body); the range-for binds r to C[i] and has
  bound ("count", C);
* `if (c) continue; rest` inside a loop is `if (!c) { rest }`;
* lambdas: `lambda_bodies` / `walk_sem` visit the instantiated call operator
  exactly once (clang dumps a lambda body twice, and a generic lambda as an
  uninstantiated pattern plus its specialisations).

Value locals whose definition reads storage (`std::size_t n = num_nodes_;`)
are never substituted - the read would move to the place of use; using such a
local is an AnalysisError.
"""
from sa import cxx
from sa.core import AnalysisError
from sa.cxx import inner, strip, qual_type

ASSIGN_OPS = {"=", "|=", "&=", "^=", "+=", "-=", "*=", "/=", "%=", "<<=", ">>="}
INCDEC = {"pre++", "post++", "pre--", "post--"}
W64 = {"long", "long long", "std::int64_t", "int64_t", "unsigned long",
       "unsigned long long", "std::uint64_t", "uint64_t", "__int64_t",
       "__uint64_t", "std::size_t", "size_t"}
NARROW = {"int", "unsigned int", "unsigned", "short", "unsigned short", "char",
          "signed char", "unsigned char", "bool", "std::int32_t", "int32_t",
          "std::uint32_t", "uint32_t", "std::int16_t", "std::uint16_t",
          "std::int8_t", "std::uint8_t"}
PURE_STD_METHODS = {"size", "empty", "data", "begin", "end", "cbegin", "cend",
                    "at", "front", "back", "get", "find", "count"}


def canon_type(t):
  t = (t or "").strip()
  changed = True
  while changed:
    changed = False
    for p in ("const ", "volatile "):
      if t.startswith(p):
        t = t[len(p):].strip()
        changed = True
    for s in (" const", " volatile"):
      if t.endswith(s):
        t = t[:-len(s)].strip()
        changed = True
  return t


def desugared(n):
  t = n.get("type") or {}
  return t.get("desugaredQualType") or t.get("qualType", "")


def line_of(n):
  return ((n.get("range") or {}).get("begin") or {}).get("line") or 0


# -- lambdas ------------------------------------------------------------------------

def lambda_bodies(lam):
  """[(call-operator decl, body)] of a LambdaExpr: the specialisations of a
  generic lambda, else its call operator."""
  out = []
  for rec in inner(lam):
    if rec.get("kind") != "CXXRecordDecl":
      continue
    for m in inner(rec):
      if m.get("kind") == "CXXMethodDecl" and m.get("name") == "operator()":
        out.append(m)
      elif m.get("kind") == "FunctionTemplateDecl" and m.get("name") == "operator()":
        specs = [c for c in inner(m) if c.get("kind") == "CXXMethodDecl" and any(
            x.get("kind") == "TemplateArgument" for x in inner(c))]
        if not specs:
          raise AnalysisError("generic lambda is never instantiated: its body "
                              "has no resolved calls")
        out.extend(specs)
  res = []
  for m in out:
    body = [c for c in inner(m) if c.get("kind") == "CompoundStmt"]
    if body:
      res.append((m, body[0]))
  if not res:
    raise AnalysisError("lambda without a call operator body")
  return res


def walk_sem(n):
  """Pre-order walk that enters a lambda only through its instantiated call
  operator(s): every evaluated expression is visited exactly once."""
  todo = [n]
  while todo:
    x = todo.pop()
    if not x:
      continue
    yield x
    if x.get("kind") == "LambdaExpr":
      kids = [b for _, b in lambda_bodies(x)]
      # capture initialisers are expressions evaluated at the lambda's site
      kids += [c for c in inner(x) if c.get("kind") not in (
          "CXXRecordDecl", "CompoundStmt") and c.get("kind")]
      todo.extend(reversed(kids))
    else:
      todo.extend(reversed(inner(x)))


def calls_to(ix, root, qual):
  """Call nodes under `root` whose resolved callee has qualified name `qual`."""
  out = []
  if root is None:
    return out
  for n in walk_sem(root):
    if n.get("kind") in ("CXXMemberCallExpr", "CallExpr"):
      key = ix.callee(n)[0]
      if key and key.split("(")[0] == qual:
        out.append(n)
  return out


# -- term helpers ---------------------------------------------------------------------

def uncast(t):
  """Strips every conversion (positions where only the index value matters:
  node ids are assumed to fit in int)."""
  while isinstance(t, tuple) and t and t[0] == "cast":
    t = t[2]
  return t


def uncast_v(t):
  """Strips conversions that keep all 64 bits of a matrix cell value."""
  while isinstance(t, tuple) and t and t[0] == "cast" and canon_type(t[1]) in W64:
    t = t[2]
  return t


def is_int(t, v):
  t = uncast(t)
  return isinstance(t, tuple) and t[0] == "int" and t[1] == v


def deref(t):
  if t == ("this",):
    return t
  if isinstance(t, tuple) and len(t) == 2 and t[0] == "&":
    return t[1]
  return ("*", t)


def addr(t):
  if isinstance(t, tuple) and len(t) == 2 and t[0] == "*":
    return t[1]
  return ("&", t)


def index(base, idx):
  if isinstance(base, tuple) and base and base[0] == "data":
    base = base[1]
  return ("index", base, idx)


def neg(t):
  if isinstance(t, tuple) and len(t) == 2 and t[0] == "!":
    return t[1]
  return ("!", t)


def truth(t):
  """Canonical form of `t` used as a condition (same truth value)."""
  while isinstance(t, tuple) and t:
    if t[0] == "cast" and (canon_type(t[1]) == "bool" or canon_type(t[1]) in W64):
      t = t[2]
    elif t[0] == "?:" and len(t) == 4 and t[2] == ("bool", True) and t[3] == ("bool", False):
      t = t[1]
    elif t[0] == "!=" and len(t) == 3 and is_int(t[2], 0):
      t = t[1]
    elif t[0] == "!=" and len(t) == 3 and is_int(t[1], 0):
      t = t[2]
    elif t[0] == "!" and len(t) == 2 and isinstance(t[1], tuple):
      sub = truth(t[1])
      if len(sub) == 2 and sub[0] == "!":
        t = sub[1]
        continue
      return ("!", sub)
    else:
      break
  return t


def subterms(t):
  if isinstance(t, tuple):
    yield t
    for x in t:
      if isinstance(x, tuple):
        yield from subterms(x)


def pure_term(t):
  """No side effect and no call whose effect is unknown."""
  for s in subterms(t):
    if not s:
      continue
    h = s[0]
    if h in ASSIGN_OPS and len(s) == 3:
      return False
    if h in INCDEC:
      return False
    if h in ("call", "opcall"):
      if h == "opcall" and s[1] in ("operator->", "operator*", "operator[]",
                                    "operator==", "operator!="):
        continue
      return False
    if h == "mcall" and s[1] not in PURE_STD_METHODS and \
        not str(s[1]).endswith(" const"):
      return False
    if h == "?":
      return False
  return True


def reads_memory(t):
  """The term's value depends on storage that a later statement may change."""
  for s in subterms(t):
    if s and s[0] in ("field", "index", "*", "data", "mcall", "call", "opcall",
                      "member", "?"):
      return True
  return False


def _is_value_type(ty):
  return not (ty.endswith("&") or ty.endswith("*"))


def assigned_locals(fn):
  """Decl ids of locals/parameters that are (re)assigned in fn's body."""
  out = set()
  for n in cxx.walk(fn.body):
    k = n.get("kind")
    if k in ("BinaryOperator", "CompoundAssignOperator") and \
        n.get("opcode", "").endswith("=") and n.get("opcode") not in ("==", "!=", "<=", ">="):
      l = strip(inner(n)[0])
      if l is not None and l.get("kind") == "DeclRefExpr":
        out.add((l.get("referencedDecl") or {}).get("id"))
    if k == "UnaryOperator" and n.get("opcode") in ("++", "--"):
      l = strip(inner(n)[0])
      if l is not None and l.get("kind") == "DeclRefExpr":
        out.add((l.get("referencedDecl") or {}).get("id"))
  return out


class Item:
  """One statement of the normal form."""
  __slots__ = ("kind", "term", "var", "bound", "body", "orelse", "line", "node")

  def __init__(self, kind, node=None, term=None, var=None, bound=None,
               body=None, orelse=None):
    self.kind, self.node, self.term, self.var = kind, node, term, var
    self.bound, self.body, self.orelse = bound, body, orelse
    self.line = line_of(node) if node else 0

  def __repr__(self):
    return f"<{self.kind} {self.term if self.term is not None else ''}>"


class Sym:
  """Symbolic evaluation with helper inlining.

  inline_ok(Fn) says which user functions may be inlined (same class / same
  file).  `inlined` records the helpers that were (key -> Fn)."""

  MAX_DEPTH = 4

  def __init__(self, ix, inline_ok):
    self.ix = ix
    self.inline_ok = inline_ok
    self.inlined = {}
    self._fresh = 0
    self._assigned = {}
    self._depth = 0
    self.opaque = {}      # decl id -> name: value copies of mutable state

  def assigned(self, fn):
    if fn.key not in self._assigned:
      self._assigned[fn.key] = assigned_locals(fn)
    return self._assigned[fn.key]

  # -- expressions ----------------------------------------------------------------
  def term(self, e, env=None):
    env = env if env is not None else {}
    if e is None or not e:
      return None
    k = e.get("kind")
    kids = inner(e)
    if k in cxx.EXPLICIT_CASTS:
      return ("cast", qual_type(e), self.term(kids[-1], env))
    if k == "ImplicitCastExpr":
      sub = self.term(kids[0], env) if kids else None
      ck = e.get("castKind")
      if ck == "IntegralCast":
        ty = canon_type(desugared(e))
        if ty in NARROW:
          return ("cast", ty, sub)
      elif ck == "IntegralToBoolean":
        return ("cast", "bool", sub)
      return sub
    if k in cxx.TRANSPARENT:
      return self.term(kids[0], env) if kids else None
    if k == "IntegerLiteral":
      return ("int", int(e.get("value", "0")), qual_type(e))
    if k == "CXXBoolLiteralExpr":
      return ("bool", bool(e.get("value")))
    if k == "CXXNullPtrLiteralExpr":
      return ("nullptr",)
    if k == "CXXThisExpr":
      return ("this",)
    if k == "DeclRefExpr":
      rd = e.get("referencedDecl") or {}
      if rd.get("id") in env:
        return env[rd["id"]]
      if rd.get("id") in self.opaque:
        raise AnalysisError(
            f"local `{rd.get('name')}` holds a copy of state that may change "
            "before its use; it cannot be replaced by its definition")
      if rd.get("kind") in ("FunctionDecl", "CXXMethodDecl"):
        return ("fn", self.ix.canon.get(rd.get("id"), rd.get("name")))
      return ("var", rd.get("name"), rd.get("id"))
    if k == "MemberExpr":
      did = e.get("referencedMemberDecl")
      base = self.term(kids[0], env) if kids else ("this",)
      if e.get("isArrow"):
        base = deref(base)
      if did in self.ix.fields:
        return ("field", self.ix.fields[did], base)
      return ("member", e.get("name"), base)
    if k in ("BinaryOperator", "CompoundAssignOperator"):
      return (e.get("opcode"), self.term(kids[0], env), self.term(kids[1], env))
    if k == "UnaryOperator":
      op = e.get("opcode")
      x = self.term(kids[0], env)
      if op in ("++", "--"):
        return (("post" if e.get("isPostfix") else "pre") + op, x)
      if op == "*":
        return deref(x)
      if op == "&":
        return addr(x)
      return (op, x)
    if k == "ArraySubscriptExpr":
      return index(self.term(kids[0], env), self.term(kids[1], env))
    if k == "ConditionalOperator":
      return ("?:",) + tuple(self.term(c, env) for c in kids)
    if k == "CXXOperatorCallExpr":
      _, _, nm, _ = self.ix.callee(e)
      args = [self.term(c, env) for c in kids[1:]]
      if nm == "operator[]" and len(args) == 2:
        return index(args[0], args[1])
      return ("opcall", nm) + tuple(args)
    if k == "CXXMemberCallExpr":
      key, fn, nm, obj = self.ix.callee(e)
      args = [self.term(c, env) for c in kids[1:]]
      o = self.term(obj, env) if obj is not None else None
      m = strip(kids[0]) if kids else None
      if m is not None and m.get("isArrow") and o is not None:
        o = deref(o)
      if nm == "data" and not args and fn is None:
        return ("data", o)
      if fn is not None and o == ("this",) and self.inline_ok(fn):
        r = self.inline_expr(fn, args)
        if r is not None:
          return r
      return ("mcall", key if fn is not None else nm, o) + tuple(args)
    if k == "CallExpr":
      key, fn, nm, obj = self.ix.callee(e)
      args = [self.term(c, env) for c in kids[1:]]
      if fn is not None and self.inline_ok(fn) and fn.kind in ("FunctionDecl", "CXXMethodDecl"):
        r = self.inline_expr(fn, args)
        if r is not None:
          return r
      return ("call", key) + tuple(args)
    if k == "CXXConstructExpr" and len(kids) == 1:
      return self.term(kids[0], env)
    return ("?", k)

  def _param_env(self, fn, args, strict=False):
    if len(args) != len(fn.params):
      return None
    asg = self.assigned(fn)
    env = {}
    for p, a in zip(fn.params, args):
      if p["id"] in asg or not pure_term(a):
        return None
      ty = canon_type(desugared(p))
      if not (ty.endswith("&") or ty.endswith("*") or ty in W64 or ty in NARROW):
        return None   # a by-value object parameter is a copy, not an alias
      if strict and _is_value_type(ty) and reads_memory(a):
        return None   # a snapshot of state the helper's statements may change
      env[p["id"]] = ("cast", ty, a) if ty in NARROW else a
    return env

  def ret_type(self, fn):
    return canon_type(fn.sig.split("(")[0])

  def inline_expr(self, fn, args):
    """Value of a call to a helper whose body is `[single-assignment locals;]
    return E;` - None when the helper has another shape."""
    if fn.body is None or self._depth >= self.MAX_DEPTH:
      return None
    stmts = [s for s in inner(fn.body) if s.get("kind") != "NullStmt"]
    if not stmts or stmts[-1].get("kind") != "ReturnStmt" or not inner(stmts[-1]):
      return None
    if any(s.get("kind") != "DeclStmt" for s in stmts[:-1]):
      return None
    env = self._param_env(fn, args)
    if env is None:
      return None
    self._depth += 1
    try:
      for s in stmts[:-1]:
        for it in self._decl(s, env, fn):
          if it.var is None or it.var[2] not in env:
            return None     # a local that could not be substituted
      body = self.term(inner(stmts[-1])[0], env)
    finally:
      self._depth -= 1
    self.inlined[fn.key] = fn
    rt = self.ret_type(fn)
    return ("cast", rt, body) if rt in NARROW else body

  # -- statements -----------------------------------------------------------------
  def _decl(self, s, env, fn):
    out = []
    for v in inner(s):
      if v.get("kind") != "VarDecl":
        out.append(Item("other", s))
        continue
      var = ("var", v.get("name"), v["id"])
      kids = [c for c in inner(v) if c.get("kind")]
      t = self.term(kids[-1], env) if kids else None
      ty = canon_type(desugared(v))
      substitutable = ty.endswith("&") or ty.endswith("*") or ty in W64 or ty in NARROW
      if t is not None and substitutable and pure_term(t) and \
          _is_value_type(ty) and reads_memory(t):
        # `std::size_t n = num_nodes_;` is the value at this point, not at the use
        self.opaque[v["id"]] = v.get("name")
      elif t is not None and substitutable and pure_term(t):
        if v["id"] in self.assigned(fn):
          raise AnalysisError(
              f"{fn.qual}: local `{v.get('name')}` is reassigned; its uses "
              "cannot be replaced by its definition")
        env[v["id"]] = t
      out.append(Item("decl", s, term=t, var=var))
    return out

  def flatten(self, stmts, env, fn):
    out = []
    for s in stmts:
      out.extend(self._stmt(s, env, fn))
    return out

  def _block(self, s, env, fn):
    if s is None or not s:
      return []
    if s.get("kind") == "CompoundStmt":
      return self.flatten(inner(s), env, fn)
    return self._stmt(s, env, fn)

  def _stmt(self, s, env, fn):
    k = s.get("kind")
    if k is None or k == "NullStmt":
      return []
    if k == "CompoundStmt":
      return self.flatten(inner(s), env, fn)
    if k == "DeclStmt":
      return self._decl(s, env, fn)
    if k == "ReturnStmt":
      return [Item("return", s, term=self.term(inner(s)[0], env) if inner(s) else None)]
    if k == "BreakStmt":
      return [Item("break", s)]
    if k == "ContinueStmt":
      return [Item("continue", s)]
    if k == "IfStmt":
      if s.get("hasInit") or s.get("hasVar"):
        return [Item("other", s)]
      parts = inner(s)
      cond = self.term(parts[0], env)
      then = self._block(parts[1], env, fn)
      orelse = self._block(parts[2], env, fn) if len(parts) > 2 else []
      return [Item("if", s, term=cond, body=then, orelse=orelse)]
    if k == "ForStmt":
      return [self._for(s, env, fn)]
    if k == "CXXForRangeStmt":
      return [self._range_for(s, env, fn)]
    if k in ("WhileStmt", "DoStmt", "SwitchStmt", "CXXTryStmt", "GotoStmt",
             "LabelStmt", "CaseStmt", "DefaultStmt", "AttributedStmt"):
      return [Item("other", s)]
    # expression statement
    c = strip(s)
    if c is not None and c.get("kind") in ("CallExpr", "CXXMemberCallExpr"):
      items = self._inline_stmt(c, env)
      if items is not None:
        return items
    return [Item("expr", s, term=self.term(s, env))]

  def _inline_stmt(self, call, env):
    key, fn, nm, obj = self.ix.callee(call)
    if fn is None or fn.body is None or not self.inline_ok(fn) or \
        self._depth >= self.MAX_DEPTH or self.ret_type(fn) != "void":
      return None
    if call.get("kind") == "CXXMemberCallExpr":
      o = self.term(obj, env) if obj is not None else None
      m = strip(inner(call)[0])
      if m is not None and m.get("isArrow") and o is not None:
        o = deref(o)
      if o != ("this",):
        return None
    args = [self.term(c, env) for c in inner(call)[1:]]
    env2 = self._param_env(fn, args, strict=True)
    if env2 is None:
      raise AnalysisError(f"call of {fn.qual}: arguments/parameters cannot be "
                          "substituted (side effect or reassigned parameter)")
    self._depth += 1
    try:
      items = self.flatten(inner(fn.body), env2, fn)
    finally:
      self._depth -= 1
    if items and items[-1].kind == "return" and items[-1].term is None:
      items = items[:-1]

    def has_return(its):
      for it in its:
        if it.kind == "return":
          return True
        if it.kind in ("if", "loop") and (has_return(it.body or []) or has_return(it.orelse or [])):
          return True
      return False
    if has_return(items):
      raise AnalysisError(f"{fn.qual}: early return inside an inlined helper")
    self.inlined[fn.key] = fn
    return items

  def _loop_body(self, body, env, fn):
    items = self._block(body, env, fn)
    # `if (c) continue; rest`  ==  `if (!c) { rest }`
    for i, it in enumerate(items):
      if it.kind == "if" and not it.orelse and len(it.body) == 1 and \
          it.body[0].kind == "continue":
        rest = items[i + 1:]
        guard = Item("if", it.node, term=neg(it.term), body=rest, orelse=[])
        return items[:i] + [guard]
    return items

  def _for(self, s, env, fn):
    init, _, cond, inc, body = (inner(s) + [None] * 5)[:5]
    if not init or init.get("kind") != "DeclStmt" or len(inner(init)) != 1:
      raise AnalysisError("for-loop init outside the accepted idiom")
    v = inner(init)[0]
    if not inner(v) or not is_int(self.term(inner(v)[-1], env), 0):
      raise AnalysisError("for-loop does not start at 0")
    var = ("var", v.get("name"), v["id"])
    c = self.term(cond, env)
    if not (isinstance(c, tuple) and c[0] == "<" and uncast(c[1]) == var):
      raise AnalysisError(f"for-loop condition outside the accepted idiom: {c}")
    i = self.term(inc, env)
    if not (isinstance(i, tuple) and (
        (i[0] in ("post++", "pre++") and uncast(i[1]) == var) or
        (i[0] == "+=" and uncast(i[1]) == var and is_int(i[2], 1)))):
      raise AnalysisError(f"for-loop increment outside the accepted idiom: {i}")
    if body is None:
      raise AnalysisError("for-loop without body")
    items = self._loop_body(body, env, fn)
    return Item("loop", s, var=var, bound=uncast(c[2]), body=items)

  def _range_for(self, s, env, fn):
    kids = inner(s)
    body, loopvar = kids[-1], kids[-2]
    rng = None
    for c in kids[:-2]:
      if c.get("kind") == "DeclStmt" and inner(c) and \
          inner(c)[0].get("name", "").startswith("__range"):
        rng = inner(c)[0]
    if rng is None or not inner(rng) or loopvar.get("kind") != "DeclStmt" or \
        len(inner(loopvar)) != 1:
      raise AnalysisError("range-for outside the accepted idiom")
    first = kids[0]
    if first and first.get("kind") and not (
        first.get("kind") == "DeclStmt" and inner(first) and inner(first)[0] is rng):
      raise AnalysisError("range-for with an init-statement")
    r = self.term(inner(rng)[-1], env)
    if not pure_term(r):
      raise AnalysisError("range-for over an expression with side effects")
    lv = inner(loopvar)[0]
    ty = canon_type(desugared(lv))
    if not ty.endswith("&"):
      raise AnalysisError(f"range-for variable `{lv.get('name')}` is a copy of "
                          "the element, not a reference")
    if lv["id"] in self.assigned(fn):
      raise AnalysisError(f"range-for variable `{lv.get('name')}` is reassigned")
    self._fresh += 1
    var = ("var", f"#{lv.get('name')}", f"fresh{self._fresh}")
    env[lv["id"]] = index(r, var)
    items = self._loop_body(body, env, fn)
    return Item("loop", s, var=var, bound=("count", r), body=items)
