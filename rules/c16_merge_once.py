"""C16 / R16.22 (PENDING: fires on today's tree - genuine defect, see below).

Obligation (blocks partition the instruction stream): a pass that copies the
instruction list of one block into another one (`A.code.extend(B.code)`,
`A.code += B.code`, `A.code = A.code + B.code`) puts B's instruction objects
into A.  That keeps "each instruction is in exactly one block" only if every
source block B is consumed by at most one destination: the loop that performs
the copies must walk pairs whose *source* component is unique (the key of a
dict, an element of a set, the loop's own index/element, or a component
protected by an `if src in done: continue` / `done.add(src)` guard).

Today `blocks._remove_jmp_to_get_anext_and_merge` builds
  merge_list.append((block_idx, op_to_block[code.end_async_for_target]))
once per instruction that has `end_async_for_target`, and
`opcodes._add_async_for_jump_back_targets` gives the *same* END_ASYNC_FOR to
every JUMP_BACKWARD of one `async for` loop (the compiler emits one per path
that reaches the end of the loop body: each arm of an `if`, `continue`, an
inner loop's exit).  So the END_ASYNC_FOR block is appended to several blocks.

Failing input (3.12, scratch build /tmp/vmx @ HEAD):
  async def f(xs):
    async for x in xs:
      if x:
        y = 1
blocks.process_code(pyc.compile_src(src, python_version=(3, 12), ...)):
  block id 15 ['21:END_ASYNC_FOR'] and block id 16 ['16:LOAD_CONST',
  '17:STORE_FAST', '21:END_ASYNC_FOR'] - the same Opcode object sits in two
  blocks of OrderedCode.order (and block 15 keeps the id of the JUMP_BACKWARD
  that was popped from it: Block.id != code[0].index).  With an inner `while`
  two blocks consist of that one shared instruction, so
  `first_op_to_block = {block.code[0]: block ...}` maps it to one of them only.
No difference in the inferred types was found (the duplicated END_ASYNC_FOR
is executed once per copy with the state of its own predecessor).

Suggested fix (checked on /tmp/vmx by monkey-patching: no instruction in two
blocks, Block.id == code[0].index everywhere, same inferred pyi for if / elif+
continue / inner-while bodies): do not copy at all - keep the JUMP_BACKWARD and
re-point it at the handler,
    for block in blocks:
      last = block.code[-1]
      if last.end_async_for_target:
        last.target = last.end_async_for_target
and let compute_order add the edge; or merge the END_ASYNC_FOR block into ONE
of the back-jump blocks and give the others an edge to it.  After the fix:
rename this file to c16_merge_once.py (R16.20 in c16_pairing.py anchors on the
`.code.extend(..)` consumer and has to be re-anchored if the copy goes away).
"""
import ast

from sa.core import rule, AnalysisError
from sa.pyindex import get_module, dotted, src
from sa import flow

BLOCKS = "pytype/blocks/blocks.py"
_DEFS = (ast.FunctionDef, ast.AsyncFunctionDef)


def _code_of(e):
  """`X` if e is `X.code`, else None."""
  if isinstance(e, ast.Attribute) and e.attr == "code":
    return e.value
  return None


def _copy_site(n):
  """(stmt, destination block expr, source block expr) when `n` copies the
  instruction list of one block into another block's list."""
  if isinstance(n, ast.Expr) and isinstance(n.value, ast.Call):
    c = n.value
    if isinstance(c.func, ast.Attribute) and c.func.attr == "extend" and len(c.args) == 1:
      d, s = _code_of(c.func.value), _code_of(c.args[0])
      if d is not None and s is not None:
        return n, d, s
  if isinstance(n, ast.AugAssign) and isinstance(n.op, ast.Add):
    d, s = _code_of(n.target), _code_of(n.value)
    if d is not None and s is not None:
      return n, d, s
  if isinstance(n, ast.Assign) and len(n.targets) == 1 and isinstance(n.value, ast.BinOp) \
      and isinstance(n.value.op, ast.Add):
    d, l, s = _code_of(n.targets[0]), _code_of(n.value.left), _code_of(n.value.right)
    if d is not None and l is not None and s is not None and src(d) == src(l):
      return n, d, s
  return None


def _target_paths(t, path=()):
  if isinstance(t, ast.Name):
    yield t.id, path
  elif isinstance(t, (ast.Tuple, ast.List)):
    for i, e in enumerate(t.elts):
      yield from _target_paths(e, path + (i,))


def _single_binding(fn, name):
  """The one expression a local is bound to (None: several / none)."""
  vals = [n.value for n in ast.walk(fn) if isinstance(n, ast.Assign)
          and any(isinstance(t, ast.Name) and t.id == name for t in n.targets)]
  stores = [n for n in ast.walk(fn) if isinstance(n, ast.Name) and n.id == name
            and isinstance(n.ctx, ast.Store)]
  return vals[0] if len(vals) == 1 and len(stores) == 1 else None


def _is_keyed_collection(fn, e, depth=0):
  """e evaluates to a collection without repeated elements / keys."""
  if isinstance(e, (ast.Set, ast.SetComp, ast.Dict, ast.DictComp)):
    return True
  if isinstance(e, ast.Call):
    d = dotted(e.func)
    if d in ("set", "frozenset", "dict"):
      return True
    if d in ("sorted", "list", "tuple", "reversed") and len(e.args) >= 1:
      return _is_keyed_collection(fn, e.args[0], depth)
    if isinstance(e.func, ast.Attribute) and e.func.attr in ("keys", "items") and not e.args:
      return True
  if isinstance(e, ast.Name) and depth < 3:
    v = _single_binding(fn, e.id)
    return v is not None and _is_keyed_collection(fn, v, depth + 1)
  return False


def _unique_source(mod, fn, stmt, source):
  """(True, why) / (False, why) / raises AnalysisError: is every source block
  consumed by at most one execution of the copy statement `stmt`?"""
  if isinstance(source, ast.Subscript) and isinstance(source.slice, ast.Name):
    var = source.slice.id
  elif isinstance(source, ast.Name):
    var = source.id
  else:
    raise AnalysisError(f"{BLOCKS}: {fn.name}: source block `{src(source)}` of the copy "
                        "is not a name or `<list>[<name>]`")
  # the innermost loop that binds the source variable
  loop = None
  cur = stmt
  while cur in mod.parent and cur is not fn:
    cur = mod.parent[cur]
    if isinstance(cur, ast.For) and any(nm == var for nm, _ in _target_paths(cur.target)):
      loop = cur
      break
  if loop is None:
    inside = any(isinstance(p, (ast.For, ast.While)) for p in _ancestors(mod, stmt, fn))
    if not inside:
      return True, "copied once (not in a loop)"
    raise AnalysisError(f"{BLOCKS}: {fn.name}: `{var}` (source of the copy) is not bound "
                        "by an enclosing for-loop")
  path = next(p for nm, p in _target_paths(loop.target) if nm == var)
  # (1) dedupe guard in the loop body: `if var in done: continue` ... done.add(var)
  for t, pol in flow.guards(mod.parent, stmt, stop=loop):
    if not pol and isinstance(t, ast.Compare) and len(t.ops) == 1 and \
        isinstance(t.ops[0], ast.In) and dotted(t.left) == var and \
        isinstance(t.comparators[0], ast.Name):
      done = t.comparators[0].id
      marks = [c for c in ast.walk(loop) if isinstance(c, ast.Call)
               and isinstance(c.func, ast.Attribute) and dotted(c.func.value) == done
               and ((c.func.attr == "add" and len(c.args) == 1 and dotted(c.args[0]) == var)
                    or c.func.attr in ("setdefault", "update"))]
      stores = [s for s in ast.walk(loop) if isinstance(s, ast.Subscript)
                and isinstance(s.ctx, ast.Store) and dotted(s.value) == done
                and dotted(s.slice) == var]
      if marks or stores:
        return True, f"guarded by `{src(t)}` and recorded in `{done}`"
  it = loop.iter
  # (2) the loop's own element / index
  if isinstance(it, ast.Call) and dotted(it.func) == "enumerate" and path in ((0,), (1,)):
    return True, "the loop's own index / element"
  if isinstance(it, ast.Call) and dotted(it.func) == "range" and path == ():
    return True, "the loop's own index"
  # (3) keys of a dict / elements of a set
  if _is_keyed_collection(fn, it):
    items = isinstance(it, ast.Call) and isinstance(it.func, ast.Attribute) and it.func.attr == "items"
    v = _single_binding(fn, it.id) if isinstance(it, ast.Name) else None
    items = items or (isinstance(v, ast.Call) and isinstance(v.func, ast.Attribute)
                      and v.func.attr == "items")
    if path == () and not items:
      return True, "element of a set / key of a dict"
    if items and path == (0,):
      return True, "key of a dict"
    if path == ():
      raise AnalysisError(f"{BLOCKS}: {fn.name}: loop over items() binds `{var}` to a pair")
    return False, (f"`{var}` is component {path[0]} of the elements of `{src(it)}`; only "
                   "the elements as a whole (the dict keys) are known to be distinct")
  # (4) a list of tuples filled by append in this function
  if isinstance(it, ast.Name) and len(path) == 1:
    v = _single_binding(fn, it.id)
    if isinstance(v, ast.List) and not v.elts:
      apps = [c for c in ast.walk(fn) if isinstance(c, ast.Call)
              and isinstance(c.func, ast.Attribute) and c.func.attr == "append"
              and dotted(c.func.value) == it.id]
      if not apps:
        raise AnalysisError(f"{BLOCKS}: {fn.name}: `{it.id}` is never filled")
      whys = []
      for c in apps:
        a = c.args[0] if len(c.args) == 1 else None
        if not isinstance(a, ast.Tuple) or len(a.elts) <= path[0]:
          raise AnalysisError(f"{BLOCKS}: {fn.name}: `{src(c)}` does not append a tuple")
        comp = a.elts[path[0]]
        loops = [p for p in _ancestors(mod, c, fn) if isinstance(p, (ast.For, ast.While))]
        own = None
        if isinstance(comp, ast.Name) and len(loops) == 1 and isinstance(loops[0], ast.For):
          lp = loops[0]
          if isinstance(lp.iter, ast.Call) and dotted(lp.iter.func) in ("enumerate", "range") \
              and any(nm == comp.id for nm, _ in _target_paths(lp.target)):
            own = lp
        if own is None:
          whys.append(f"`{src(c)}` runs once per element of {len(loops)} nested loop(s) and "
                      f"its component {path[0]}, `{src(comp)}`, is not the index of the "
                      "enclosing loop: two elements can name the same source block")
      if whys:
        return False, whys[0]
      return True, f"`{it.id}` holds each loop index at most once"
  raise AnalysisError(f"{BLOCKS}: {fn.name}: whether `{var}` (source of the copy, taken "
                      f"from `{src(it)}`) repeats is not understood")


def _ancestors(mod, node, stop):
  out = []
  cur = node
  while cur in mod.parent and cur is not stop:
    cur = mod.parent[cur]
    out.append(cur)
  return out


@rule("R16.22", "C16", floor=1)
def r16_22(ctx):
  """A block's instructions are copied into at most one other block."""
  mod = get_module(ctx, BLOCKS)
  n = 0
  for fn in [f for f in ast.walk(mod.tree) if isinstance(f, _DEFS)]:
    for node in ast.walk(fn):
      site = _copy_site(node)
      if site is None or mod.enclosing_function(node) is not fn:
        continue
      stmt, dst, source = site
      n += 1
      ok, why = _unique_source(mod, fn, stmt, source)
      ctx.check(ok, f"{fn.name}:copy:{src(source)}", BLOCKS, stmt.lineno,
                f"`{src(stmt)}` puts the instructions of block `{src(source)}` into "
                f"`{src(dst)}`, and the same source block can be consumed more than "
                f"once: {why}.  The shared instruction objects then sit in two blocks "
                "of the order (e.g. the END_ASYNC_FOR of an `async for` whose body "
                "reaches its end on two paths: `async for x in xs: if x: y = 1`), "
                "which breaks 'each instruction is in exactly one block'",
                {"copy": src(stmt), "source_unique": ok, "why": why})
  ctx.ok("blocks:block-code-copy-sites", BLOCKS, 0, {"sites": n})


_MERGE_HEAD = ("  for block_idx, block_idx_to_merge in merge_list:\n"
               "    # Remove JUMP_BACKWARD instruction as we don't want to execute it.\n")

VARIANTS = [
    # today's tree fires (known finding D64); the repaired shape must be silent
    {"name": "twin-fixed-merge-each-handler-block-once", "rule": "R16.22", "file": BLOCKS,
     "expect": "silent", "old": _MERGE_HEAD,
     "new": "  merged = set()\n"
            "  for block_idx, block_idx_to_merge in merge_list:\n"
            "    if block_idx_to_merge in merged:\n"
            "      blocks[block_idx].code[-1].target = blocks[block_idx_to_merge].code[0]\n"
            "      continue\n"
            "    merged.add(block_idx_to_merge)\n"},
    # (variants that fire R16.22 on a respelling of today's copy are not
    # judgeable while D64 is a known finding: their violation has the known key;
    # removing the copy altogether is refused by R16.20, whose anchor is the copy)
    {"name": "copy-removed-jump-retargeted-r16-20-anchor-gone", "rule": "R16.22", "file": BLOCKS,
     "expect": "error",
     "old": "    blocks[block_idx].code.extend(blocks[block_idx_to_merge].code)\n",
     "new": "    blocks[block_idx].connect_outgoing(blocks[block_idx_to_merge])\n"},
]
