"""C06 extension: both sides give a generic class the same template order.

`M[int, str]` is positional.  The analyser decides what the positions of an
inferred class mean in abstract/_base.py `_compute_template` and output.py
prints instance types in that order; the stub reader recomputes the template
of the printed class in pytd/visitors.py `AdjustTypeParameters.EnterClass`.
The two computations have to be the same function of the class header, or a
downstream module sees the type arguments of `a.m` swapped.

R6.21 does not compare the texts of the two functions.  It evaluates both
ASTs (rules/_minieval.py; the helpers they call in pytype/pytd/mro.py and in
their own class are evaluated from their ASTs as well, each with the name
resolution of the module that defines it, so MergeSequences may be split into
private helpers of mro.py) on every class header
of a small scope - one or two bases parameterised by one or two of the type
variables K, V, T in every order, three one-variable bases, and two bases
over K, V next to a `Generic[...]` base listing the variables in every order -
and demands the same outcome: the same sequence of type-variable names, or an
error on both sides.  Anything outside the evaluated fragment is an
ANALYSIS-ERROR.
"""
import itertools

from sa.core import rule, AnalysisError
from sa.pyindex import get_module
from rules import _minieval as me

VISITORS = "pytype/pytd/visitors.py"
BASE = "pytype/abstract/_base.py"
MRO = "pytype/pytd/mro.py"

_TVARS = ("K", "V", "T")


def _resolve_module(ctx, mod, alias):
  """The pytype module (PyModule) that `alias` names in `mod`."""
  target = mod.imports.get(alias)
  if not target or not target.startswith("pytype."):
    return None
  rel = target.replace(".", "/") + ".py"
  if not ctx.exists(rel):
    return None
  return get_module(ctx, rel)


def _make_resolver(ctx, mod, extra, _cache=None):
  """Calls of `<imported pytype module>.<function>` and of helpers defined in
  the same module are evaluated from that function's AST; a function is
  evaluated with the resolver of the module that defines it, so the private
  helpers it calls by bare name (mro.MergeSequences -> _PickSequence) are
  found where Python would find them.  `extra` maps further dotted names to
  Python callables."""
  cache = {} if _cache is None else _cache
  if mod.rel in cache:
    return cache[mod.rel]

  def resolver(name, args, kw):
    if name in extra:
      return extra[name](*args, **kw)
    head, _, fname = name.rpartition(".")
    if not head and fname in mod.functions and "." not in fname:
      home = mod                     # a helper defined in the same module
    elif head and "." not in head:
      home = _resolve_module(ctx, mod, head)
    else:
      home = None
    if home is not None and fname in home.functions:
      fn = home.functions[fname]
      params = [p.arg for p in fn.args.posonlyargs + fn.args.args]
      if len(args) > len(params):
        raise me.Outside(f"call of {name}")
      it = me.Interp(fn, resolver=_make_resolver(ctx, home, extra, cache))
      return it.call({**dict(zip(params, args)), **kw})
    return NotImplemented
  cache[mod.rel] = resolver
  return resolver


# -- the stub reader's side -------------------------------------------------------

def _pytd_side(ctx, header):
  mod = get_module(ctx, VISITORS)
  fn = mod.func("AdjustTypeParameters.EnterClass")
  methods = mod.methods("AdjustTypeParameters")

  def tparam(n):
    return me.Obj(("pytd.TypeParameter",), {"name": n, "scope": None},
                  structural=True)

  def template_item(type_param):
    return me.Obj(("pytd.TemplateItem",),
                  {"type_param": type_param, "name": type_param.attrs["name"]},
                  structural=True)
  def param(p):
    if isinstance(p, str):
      return tparam(p)
    return me.Obj(("pytd.GenericType",),
                  {"name": p[0], "parameters": tuple(param(q) for q in p[1])},
                  structural=True)
  bases = tuple(
      me.Obj(("pytd.GenericType",),
             {"name": name, "parameters": tuple(param(p) for p in params)},
             structural=True)
      for name, params in header)
  node = me.Obj(("pytd.Class",), {"name": "M", "bases": bases})
  self_ = me.Obj(("AdjustTypeParameters",),
                 {"class_template": [], "class_typeparams": set(),
                  "class_name": None},
                 cls_methods={k: v for k, v in methods.items() if k != "EnterClass"})
  res = _make_resolver(ctx, mod, {"pytd.TemplateItem": template_item})
  me.Interp(fn, resolver=res).call({"self": self_, "node": node})
  stack = self_.attrs["class_template"]
  if len(stack) != 1 or not isinstance(stack[0], (list, tuple)):
    raise me.Outside("EnterClass did not push exactly one template onto "
                     "self.class_template")
  out = []
  for t in stack[0]:
    if not (isinstance(t, me.Obj) and "name" in t.attrs):
      raise me.Outside("template element is not a TemplateItem")
    out.append(t.attrs["name"])
  return out


# -- the analyser's side ------------------------------------------------------------

def _abstract_side(ctx, header):
  mod = get_module(ctx, BASE)
  fn = mod.func("_compute_template")
  scoped = {}

  def tparam(n):
    def with_scope(scope):
      key = (n, scope)
      if key not in scoped:
        scoped[key] = me.Obj(("_abstract.TypeParameter",),
                             {"name": n, "scope": scope}, structural=True)
      return scoped[key]
    return me.Obj(("_abstract.TypeParameter",), {"name": n, "scope": None},
                  {"with_scope": with_scope}, structural=True)
  def parameterized(name, params):
    # the generic class `name` declares formal parameters _T0, _T1, ...; the
    # base in the header binds them to the class's own type variables (or to
    # further parameterised classes)
    formals = [f"_T{i}" for i in range(len(params))]
    return me.Obj(
        ("_abstract.ParameterizedClass",),
        {"full_name": name, "name": name.rsplit(".", 1)[-1],
         "template": tuple(me.Obj(("_abstract.TypeParameter",), {"name": f})
                           for f in formals),
         "formal_type_parameters": {
             f: tparam(p) if isinstance(p, str) else parameterized(*p)
             for f, p in zip(formals, params)}})
  bases = [parameterized(name, params) for name, params in header]
  ctx_obj = me.Obj(("Context",), {"convert": me.Obj(("Converter",), {
      "unsolvable": me.Obj(("_abstract.Unsolvable",), {"full_name": "typing.Any"})})})
  val = me.Obj(("_abstract.InterpreterClass",),
               {"full_name": "M", "name": "M", "ctx": ctx_obj},
               {"bases": lambda: list(bases)})
  res = _make_resolver(ctx, mod, {
      "abstract_utils.get_atomic_value": lambda v, *a, **k: v})
  out = me.Interp(fn, resolver=res).call({"val": val})
  names = []
  for t in out:
    if not (isinstance(t, me.Obj) and "name" in t.attrs):
      raise me.Outside("template element is not a TypeParameter")
    names.append(t.attrs["name"])
  return names


def _headers():
  """Class headers of the scope: lists of (base name, type variables)."""
  seqs = [p for r in (1, 2) for p in itertools.permutations(_TVARS, r)]
  names = ("Box", "Pair", "Tri")
  for n in (1, 2):
    for combo in itertools.product(seqs, repeat=n):
      yield [(names[i], c) for i, c in enumerate(combo)]
  for combo in itertools.product(_TVARS, repeat=3):   # three one-variable bases
    yield [(names[i], (c,)) for i, c in enumerate(combo)]
  seqs2 = [p for r in (1, 2) for p in itertools.permutations(_TVARS[:2], r)]
  for combo in itertools.product(seqs2, repeat=2):
    used = sorted({v for c in combo for v in c})
    for g in itertools.permutations(used):
      for pos in (0, 2):
        h = [("Box", combo[0]), ("Pair", combo[1])]
        h.insert(pos, ("typing.Generic", g))
        yield h
  # a Generic base that does not list every variable
  yield [("typing.Generic", ("K",)), ("Box", ("K",)), ("Pair", ("K",))]


def _run(side, ctx, header, tag):
  try:
    return ("template", side(ctx, header))
  except me.Outside as e:
    raise AnalysisError(f"{tag}: outside the evaluated fragment: {e}") from e
  except me.Raised as e:
    return ("error", e.name)
  except me.Diverged:
    return ("diverges", None)


def _spell_param(p):
  return p if isinstance(p, str) else \
      f"{p[0]}[{', '.join(_spell_param(q) for q in p[1])}]"


def _spell(header):
  return "class M(" + ", ".join(
      _spell_param((n.rsplit(".", 1)[-1], p)) for n, p in header) + ")"


def compare_headers(ctx, headers):
  """(first disagreement per kind, number compared per kind, #accepted)."""
  count = {"plain": 0, "generic": 0}
  first = {"plain": None, "generic": None}
  accepted = 0
  for header in headers:
    kind = "generic" if any(n == "typing.Generic" for n, _ in header) else "plain"
    a = _run(_pytd_side, ctx, header, "AdjustTypeParameters.EnterClass")
    b = _run(_abstract_side, ctx, header, "_compute_template")
    count[kind] += 1
    if a[0] == "template" and b[0] == "template":
      accepted += 1
    same = (a[0] == b[0] == "error") or (a[0] == "template" and a == b)
    if not same and first[kind] is None:
      first[kind] = {"class": _spell(header), "stub_reader": list(a),
                     "analyser": list(b)}
  return first, count, accepted


def report(ctx, first, count, label=""):
  line = get_module(ctx, VISITORS).func("AdjustTypeParameters.EnterClass").lineno
  for kind in ("plain", "generic"):
    if not count[kind]:
      continue
    bad = first[kind]
    ctx.check(bad is None, f"template-order:{label}{kind}-bases", VISITORS, line,
              f"for `{bad and bad['class']}` the stub reader "
              f"(AdjustTypeParameters.EnterClass) computes {bad and bad['stub_reader']} but "
              f"the analyser (_compute_template) computes {bad and bad['analyser']}: "
              "the positional type arguments of an instance printed by one side are "
              "assigned to different type variables by the other",
              bad or {"class_headers_compared": count[kind]})


@rule("R6.21", "C06", floor=2)
def r6_21(ctx):
  """Template order of a generic class: analyser == stub reader."""
  first, count, accepted = compare_headers(ctx, _headers())
  if accepted == 0:
    raise AnalysisError("no class header of the scope is accepted by both sides")
  report(ctx, first, count)


_MERGE = ("    try:\n"
          "      template = mro.MergeSequences(templates)\n"
          "    except ValueError as e:\n"
          "      raise ContainerError(\n"
          "          f\"Illegal type parameter order in class {node.name}\"\n"
          "      ) from e\n")

VARIANTS = [
    {"name": "seeded-C06-r2m1", "rule": "R6.21", "patch": "seeded/C06-r2m1/patch.diff",
     "expect": "fire"},
    {"name": "analyser-merges-bases-right-to-left", "rule": "R6.21", "file": BASE,
     "expect": "fire",
     "old": "      template.extend(mro.MergeSequences(seqs))",
     "new": "      template.extend(mro.MergeSequences(seqs[::-1]))"},
    {"name": "reader-ignores-generic-order", "rule": "R6.21", "file": VISITORS,
     "expect": "fire",
     "old": "      templates = [generic_template]\n",
     "new": "      templates = templates + [generic_template]\n"},
    {"name": "reader-collects-bases-in-reverse", "rule": "R6.21", "file": VISITORS,
     "expect": "fire",
     "old": "          templates.append(params)\n",
     "new": "          templates.insert(0, params)\n"},
    {"name": "twin-reader-merge-without-try", "rule": "R6.21", "file": VISITORS,
     "expect": "silent", "old": _MERGE,
     "new": "    merged = [list(t) for t in templates]\n"
            "    try:\n"
            "      template = mro.MergeSequences(merged)\n"
            "    except ValueError:\n"
            "      raise ContainerError(\"Illegal type parameter order in class \" + node.name)\n"},
    # mro.MergeSequences split into private helpers (_PickSequence/_InOtherTail,
    # `while any(seqs)`): helpers are resolved in the module that defines them
    {"name": "twin-benign-C10-r1-MergeSequences-split-into-helpers", "rule": "R6.21",
     "patch": "benign/C10-r1/patch.diff", "expect": "silent"},
    {"name": "C10-r1+analyser-merges-bases-right-to-left", "rule": "R6.21",
     "patch": "benign/C10-r1/defect_analyser_merges_right_to_left.diff", "expect": "fire"},
    {"name": "C10-r1+reader-collects-bases-in-reverse", "rule": "R6.21",
     "patch": "benign/C10-r1/defect_reader_collects_in_reverse.diff", "expect": "fire"},
    {"name": "twin-analyser-builds-seqs-with-comprehension", "rule": "R6.21", "file": BASE,
     "expect": "silent",
     "old": "      template.extend(mro.MergeSequences(seqs))",
     "new": "      merged = mro.MergeSequences([list(s) for s in seqs])\n"
            "      template = template + merged"},
]
