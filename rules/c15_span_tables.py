"""C15 extension (R15.31): a table that is subscripted WITHOUT a membership
guard by a key drawn from a span is filled for every key of the span.

The branch tracker of pattern matching keeps tables keyed by source line
(`_Matches.match_cases`: opcode line -> line of the match statement).  They are
filled once from *spans* - objects with two endpoint fields (the `start`/`end`
line of a case pattern) - and later subscripted with the line of whatever
opcode is being executed (`<tracker>.match_cases[op.line]`).  An opcode of a
case pattern may sit on ANY line of the pattern, so a reader that does not
test `key in table` first relies on the table holding every line
`start..end` of every span; otherwise KeyError leaves the analysis (nothing
in vm.run_instruction catches it).

The rule re-derives, in pytype/pattern_matching.py:
  tables     dict attributes created in a class's __init__ and filled (in any
             method of the class) with a key that comes from a span object: a
             loop variable / parameter `c` of which at least two different
             attributes are used as keys, set elements or range bounds in
             that method;
  fills      per table and span object: *complete* (`for i in range(c.A,
             c.B + 1): self.T[i] = v`, `self.T.update({i: v for i in
             range(..)})`, `self.T.update(dict.fromkeys(range(..), v))`;
             once-bound locals holding c.A / c.B are followed) or *endpoint*
             (`self.T[c.A] = v`);
  consumers  every `<recv>.T[<key>]` read in the VM-layer modules, classified
             as guarded (the path condition contains `<key> in <recv>.T`, or
             a KeyError handler encloses it) or unguarded.
A table with an unguarded consumer must have a complete fill for every span
object it is filled from, and the range must include both endpoints (a bound
`range(c.A, c.B)` leaves out c.B, which sibling tables use as a key).  A table
whose consumers all guard (or use .get) may hold endpoints only.
"""
import ast

from sa.core import rule, AnalysisError
from sa.pyindex import get_module, src, walk_no_nested
from sa import flow

PRODUCERS = ("pytype/pattern_matching.py",)
CONSUMERS = ("pytype/pattern_matching.py", "pytype/vm.py", "pytype/vm_utils.py",
             "pytype/tracer_vm.py")


def _self_attr(e):
  if isinstance(e, ast.Attribute) and isinstance(e.value, ast.Name) and e.value.id == "self":
    return e.attr
  return None


def _is_dict_ctor(v):
  if isinstance(v, ast.Dict) and not v.keys:
    return True
  if isinstance(v, ast.Call):
    n = src(v.func)
    return n in ("dict", "collections.defaultdict", "defaultdict", "collections.OrderedDict")
  return False


def _conjuncts(test, pol=True):
  while isinstance(test, ast.UnaryOp) and isinstance(test.op, ast.Not):
    test, pol = test.operand, not pol
  if isinstance(test, ast.BoolOp):
    if (isinstance(test.op, ast.And) and pol) or (isinstance(test.op, ast.Or) and not pol):
      return [c for v in test.values for c in _conjuncts(v, pol)]
    return []
  if isinstance(test, ast.Compare) and len(test.ops) == 1:
    if isinstance(test.ops[0], ast.In) and pol:
      return [("in", test.left, test.comparators[0])]
    if isinstance(test.ops[0], ast.NotIn) and not pol:
      return [("in", test.left, test.comparators[0])]
  return []


class _Method:
  """Fills of one method, with once-bound locals resolved to span attributes."""

  def __init__(self, mod, cname, mname, fn, tables):
    self.mod, self.cname, self.mname, self.fn = mod, cname, mname, fn
    self.alias = {}   # local name -> Attribute node c.F it was bound to (once)
    stores = {}
    for n in walk_no_nested(fn):
      if isinstance(n, ast.Name) and isinstance(n.ctx, ast.Store):
        stores.setdefault(n.id, []).append(n)
    for name, sts in stores.items():
      if len(sts) != 1:
        continue
      par = mod.parent.get(sts[0])
      if isinstance(par, ast.Assign) and len(par.targets) == 1 and par.targets[0] is sts[0]:
        if self._span_attr(par.value, follow=False):
          self.alias[name] = par.value
      elif isinstance(par, ast.Tuple) and isinstance(mod.parent.get(par), ast.Assign):
        asg = mod.parent[par]
        if len(asg.targets) == 1 and asg.targets[0] is par and isinstance(asg.value, ast.Tuple) \
            and len(asg.value.elts) == len(par.elts):
          v = asg.value.elts[par.elts.index(sts[0])]
          if self._span_attr(v, follow=False):
            self.alias[name] = v
    self.bindable = set(stores) | {a.arg for a in fn.args.args[1:]}
    self.fills = []      # (table, kind, span object name, detail, line)
    self.uses = {}       # span object name -> set of attrs used as key / element / bound
    self._collect(tables)

  def _span_attr(self, e, follow=True):
    """(object name, attr) for `c.F` (or a once-bound local holding it)."""
    if isinstance(e, ast.Attribute) and isinstance(e.value, ast.Name) and e.value.id != "self":
      return e.value.id, e.attr
    if follow and isinstance(e, ast.Name) and e.id in self.alias:
      return self._span_attr(self.alias[e.id], follow=False)
    return None

  def _use(self, e):
    sa = self._span_attr(e)
    if sa:
      self.uses.setdefault(sa[0], set()).add(sa[1])
    return sa

  def _range(self, call):
    """('complete' | 'partial' | None, obj, detail) for a range(..) call over a span."""
    if not (isinstance(call, ast.Call) and isinstance(call.func, ast.Name) and call.func.id == "range"):
      return None
    if len(call.args) != 2 or call.keywords:
      return None
    lo, hi = call.args
    lo_sa = self._span_attr(lo)
    hi_plus = None
    if isinstance(hi, ast.BinOp) and isinstance(hi.op, ast.Add):
      for a, b in ((hi.left, hi.right), (hi.right, hi.left)):
        if isinstance(b, ast.Constant) and b.value == 1 and self._span_attr(a):
          hi_plus = self._span_attr(a)
    hi_sa = self._span_attr(hi)
    mentioned = [self._span_attr(n) for n in ast.walk(call) if self._span_attr(n)]
    if not mentioned:
      return None
    objs = {m[0] for m in mentioned}
    for m in mentioned:
      self.uses.setdefault(m[0], set()).add(m[1])
    if len(objs) != 1:
      raise AnalysisError(f"{self.cname}.{self.mname}: `{src(call)}` mixes fields of several objects")
    obj = objs.pop()
    if lo_sa and hi_plus and lo_sa[1] != hi_plus[1]:
      return "complete", obj, f"{lo_sa[1]}..{hi_plus[1]} inclusive"
    if lo_sa and hi_sa and lo_sa[1] != hi_sa[1]:
      return "partial", obj, f"`{src(call)}` leaves out {obj}.{hi_sa[1]}"
    if hi_plus and not lo_sa and isinstance(lo, ast.BinOp) and isinstance(lo.op, ast.Add):
      inner = [self._span_attr(x) for x in (lo.left, lo.right) if self._span_attr(x)]
      if inner:
        return "partial", obj, f"`{src(call)}` leaves out {obj}.{inner[0][1]}"
    raise AnalysisError(f"{self.cname}.{self.mname}: the range `{src(call)}` over the fields of "
                        f"`{obj}` has a shape the rule cannot decide")

  def _collect(self, tables):
    mod, fn = self.mod, self.fn
    for n in walk_no_nested(fn):
      # self.T[k] = v
      if isinstance(n, ast.Subscript) and isinstance(n.ctx, ast.Store) and _self_attr(n.value):
        t = _self_attr(n.value)
        k = n.slice
        sa = self._use(k)
        if sa:
          if t in tables:
            self.fills.append((t, "endpoint", sa[0], f"{sa[0]}.{sa[1]}", n.lineno))
          continue
        if isinstance(k, ast.Name) and t in tables:
          loop = self._loop_of(n, k.id)
          if loop is not None:
            r = self._range(loop.iter)
            if r:
              self.fills.append((t, r[0], r[1], r[2], n.lineno))
      # self.T.update({i: v for i in range(..)}) / self.T.update(dict.fromkeys(range(..), v))
      elif isinstance(n, ast.Call) and isinstance(n.func, ast.Attribute) and n.func.attr == "update" \
          and _self_attr(n.func.value) in tables and len(n.args) == 1:
        t, a = _self_attr(n.func.value), n.args[0]
        r = None
        if isinstance(a, ast.DictComp) and len(a.generators) == 1 and not a.generators[0].ifs \
            and isinstance(a.generators[0].target, ast.Name) and isinstance(a.key, ast.Name) \
            and a.key.id == a.generators[0].target.id:
          r = self._range(a.generators[0].iter)
        elif isinstance(a, ast.Call) and src(a.func) == "dict.fromkeys" and a.args:
          r = self._range(a.args[0])
        if r:
          self.fills.append((t, r[0], r[1], r[2], n.lineno))
        elif any(self._span_attr(x) for x in ast.walk(a)):
          raise AnalysisError(f"{self.cname}.{self.mname}: `{src(n)[:80]}` fills a table from a "
                              "span in a shape the rule cannot decide")
      # sibling uses of endpoints: set elements, .add(c.F), comprehension elements
      elif isinstance(n, ast.Call) and isinstance(n.func, ast.Attribute) and n.func.attr == "add" \
          and _self_attr(n.func.value) and len(n.args) == 1:
        self._use(n.args[0])
      elif isinstance(n, (ast.SetComp, ast.ListComp, ast.GeneratorExp)):
        self._use(n.elt)

  def _loop_of(self, node, name):
    cur = node
    while cur is not self.fn and cur in self.mod.parent:
      cur = self.mod.parent[cur]
      if isinstance(cur, ast.For) and isinstance(cur.target, ast.Name) and cur.target.id == name:
        return cur
    return None


def producer_model(ctx, rel):
  """{(class, table): {"fills": [...], "spans": {obj: attrs}}} for span-derived tables."""
  mod = get_module(ctx, rel)
  out = {}
  for cname in mod.classes:
    methods = mod.methods(cname)
    init = methods.get("__init__")
    if init is None:
      continue
    tables = {}
    for n in walk_no_nested(init):
      if isinstance(n, ast.Assign) and len(n.targets) == 1 and _self_attr(n.targets[0]) \
          and _is_dict_ctor(n.value):
        tables[_self_attr(n.targets[0])] = n.lineno
    if not tables:
      continue
    for mname, fn in methods.items():
      m = _Method(mod, cname, mname, fn, tables)
      spans = {o for o, attrs in m.uses.items() if len(attrs) >= 2}
      for t, kind, obj, detail, line in m.fills:
        if obj not in spans:
          continue
        e = out.setdefault((cname, t), {"fills": [], "line": tables[t], "methods": set()})
        e["fills"].append({"method": mname, "kind": kind, "span": obj, "detail": detail,
                           "line": line, "endpoints": sorted(m.uses[obj])})
        e["methods"].add(mname)
  return mod, out


def _catches_keyerror(mod, node, fn):
  cur = node
  while cur is not fn and cur in mod.parent:
    par = mod.parent[cur]
    if isinstance(par, ast.Try) and cur in par.body:
      for h in par.handlers:
        names = {"BaseException"} if h.type is None else {
            src(t).split(".")[-1] for t in (h.type.elts if isinstance(h.type, ast.Tuple) else [h.type])}
        if names & {"KeyError", "LookupError", "Exception", "BaseException"}:
          return True
    cur = par
  return False


def _qual(mod, fn):
  for cname in mod.classes:
    for mname, f in mod.methods(cname).items():
      if f is fn:
        return f"{cname}.{mname}"
  return fn.name if fn is not None else "<module>"


def consumers(ctx, names, skip):
  """[(rel, qual, table, key src, guarded?, line)] for every `<recv>.T[key]` read."""
  out = []
  for rel in CONSUMERS:
    text = ctx.read(rel)
    if not any(f".{t}[" in text for t in names):
      continue
    mod = get_module(ctx, rel)
    for n in ast.walk(mod.tree):
      if not (isinstance(n, ast.Subscript) and isinstance(n.ctx, ast.Load)
              and isinstance(n.value, ast.Attribute) and n.value.attr in names):
        continue
      fn = mod.enclosing_function(n)
      if fn is None:
        raise AnalysisError(f"{rel}:{n.lineno}: table read at module level")
      qual = _qual(mod, fn)
      if (rel, qual) in skip or fn.name == "__repr__":
        continue
      stmt = mod.enclosing_stmt(n)
      key_s, tab_s = src(n.slice), src(n.value)
      guarded = _catches_keyerror(mod, n, fn)
      for t, p in flow.guards(mod.parent, stmt, stop=fn):
        for c in _conjuncts(t, p):
          if src(c[1]) == key_s and src(c[2]) == tab_s:
            guarded = True
      # `a in T and T[a]` inside one expression
      cur = n
      while cur is not stmt and cur in mod.parent:
        par = mod.parent[cur]
        if isinstance(par, ast.BoolOp) and isinstance(par.op, ast.And):
          for v in par.values[:par.values.index(cur)]:
            for c in _conjuncts(v, True):
              if src(c[1]) == key_s and src(c[2]) == tab_s:
                guarded = True
        if isinstance(par, ast.IfExp) and cur is par.body:
          for c in _conjuncts(par.test, True):
            if src(c[1]) == key_s and src(c[2]) == tab_s:
              guarded = True
        cur = par
      if guarded:
        # the names of the key must not be re-bound between the test and the read
        stores = [x for x in ast.walk(fn) if isinstance(x, ast.Name) and isinstance(x.ctx, ast.Store)
                  and x.id in {y.id for y in ast.walk(n.slice) if isinstance(y, ast.Name)}]
        if len(stores) > 1:
          raise AnalysisError(f"{rel}:{qual}: the key `{key_s}` of a guarded table read is bound "
                              "more than once; cannot decide whether the guard is current")
      out.append((rel, qual, n.value.attr, key_s, guarded, n.lineno))
  return out


@rule("R15.31", "C15", floor=6)
def r15_31(ctx):
  """Span-filled tables read without a membership guard hold the whole span."""
  judged = 0
  for prel in PRODUCERS:
    mod, model = producer_model(ctx, prel)
    if not model:
      raise AnalysisError(f"{prel}: no dict attribute is filled from a span object (two endpoint "
                          "fields) any more: the premise of the rule is gone")
    names = {t for _, t in model}
    skip = {(prel, f"{c}.{m}") for (c, t), e in model.items() for m in e["methods"]}
    cons = consumers(ctx, names, skip)
    for (cname, t), e in sorted(model.items()):
      mine = [c for c in cons if c[2] == t]
      unguarded = [c for c in mine if not c[4]]
      for rel, qual, _, key_s, guarded, line in mine:
        ctx.ok(f"table-read:{qual}:{t}", rel, line,
               {"key": key_s, "membership_guard_on_path": guarded})
      spans = {}
      for f in e["fills"]:
        spans.setdefault((f["method"], f["span"]), []).append(f)
      problems = []
      for (mname, obj), fs in sorted(spans.items()):
        kinds = {f["kind"] for f in fs}
        if "complete" in kinds:
          continue
        if not unguarded:
          continue
        part = [f["detail"] for f in fs if f["kind"] == "partial"]
        ends = sorted(f["detail"] for f in fs if f["kind"] == "endpoint")
        what = ("; ".join(part) if part else f"only the endpoint keys {ends} are entered")
        problems.append(
            f"{cname}.{mname} fills self.{t} from the span `{obj}` (fields {fs[0]['endpoints']}) but "
            f"not for every key of the span: {what}")
      judged += 1
      facts = {"fills": [{k: f[k] for k in ("method", "kind", "span", "detail")} for f in e["fills"]],
               "unguarded_reads": sorted({f"{c[1]}[{c[3]}]" for c in unguarded}),
               "guarded_reads": sorted({f"{c[1]}[{c[3]}]" for c in mine if c[4]})}
      if problems:
        who = ", ".join(sorted({f"{c[1]} (`{t}[{c[3]}]`, line {c[5]})" for c in unguarded})[:4])
        ctx.bad(f"span-table:{cname}.{t}", prel, e["line"],
                "; ".join(problems) + f". The table is subscripted without a membership test by "
                f"{who}: the key is the line of the opcode being executed, which can be any line "
                "inside a span, so a missing inner key raises KeyError out of the analysis",
                facts)
      else:
        ctx.ok(f"span-table:{cname}.{t}", prel, e["line"], facts)
  if not judged:
    raise AnalysisError("no span-filled table was judged")


PM = "pytype/pattern_matching.py"
_FILL = ("      for i in range(c.start, c.end + 1):\n"
         "        self.match_cases[i] = start\n")

VARIANTS = [
    {"name": "seeded-C15-r4m1", "rule": "R15.31", "patch": "seeded/C15-r4m1/patch.diff",
     "expect": "fire"},
    {"name": "match-cases-half-open-range", "rule": "R15.31", "file": PM, "expect": "fire",
     "old": _FILL,
     "new": ("      for i in range(c.start, c.end):\n"
             "        self.match_cases[i] = start\n")},
    {"name": "match-cases-first-line-only", "rule": "R15.31", "file": PM, "expect": "fire",
     "old": _FILL, "new": "      self.match_cases[c.start] = start\n"},
    {"name": "match-cases-range-skips-first-line", "rule": "R15.31", "file": PM, "expect": "fire",
     "old": _FILL,
     "new": ("      for i in range(c.start + 1, c.end + 1):\n"
             "        self.match_cases[i] = start\n")},
    {"name": "match-cases-endpoints-via-locals", "rule": "R15.31", "file": PM, "expect": "fire",
     "old": _FILL,
     "new": ("      first, last = c.start, c.end\n"
             "      self.match_cases[first] = start\n"
             "      self.match_cases[last] = start\n")},
    # twins
    {"name": "twin-fill-by-dict-comprehension", "rule": "R15.31", "file": PM, "expect": "silent",
     "old": _FILL,
     "new": "      self.match_cases.update({i: start for i in range(c.start, c.end + 1)})\n"},
    {"name": "twin-fill-by-fromkeys", "rule": "R15.31", "file": PM, "expect": "silent",
     "old": _FILL,
     "new": "      self.match_cases.update(dict.fromkeys(range(c.start, 1 + c.end), start))\n"},
    {"name": "twin-fill-renamed-locals", "rule": "R15.31", "file": PM, "expect": "silent",
     "old": _FILL,
     "new": ("      first, last = c.start, c.end\n"
             "      for line in range(first, last + 1):\n"
             "        self.match_cases[line] = start\n")},
    {"name": "twin-fill-in-helper-method", "rule": "R15.31", "expect": "silent",
     "edits": [(PM, _FILL, "      self._add_case_lines(c, start)\n"),
               (PM, "  def register_case(self, match_line, case_line):\n",
                "  def _add_case_lines(self, case, match_line):\n"
                "    for line in range(case.start, case.end + 1):\n"
                "      self.match_cases[line] = match_line\n\n"
                "  def register_case(self, match_line, case_line):\n")]},
    # a range the rule cannot read is refused, not guessed
    {"name": "range-over-two-objects-is-refused", "rule": "R15.31", "file": PM, "expect": "error",
     "old": _FILL,
     "new": ("      for i in range(c.start, cases[-1].end + 1 if c.as_name else c.end + 1):\n"
             "        self.match_cases[i] = start\n")},
]
