"""C06 extension: the imports map is closed under "parent package".

R6.23  With an imports map, `ModuleLoader.find_import` accepts a directory as a
       package only when `<dir>/__init__` is a key of the map (on the python
       path a bare directory is enough).  For the hand-off through an
       imports-map entry (and through a pickled stub, which is located the same
       way) to see the same modules as the hand-off through the python path,
       the map that `ImportsMapBuilder.build_from_items` returns must therefore
       contain, for EVERY key `k` and EVERY proper ancestor directory `d` of
       `k`, the key `d/__init__` - the given file when the items name one,
       the empty file (os.devnull) otherwise - and nothing else.

The obligation is a relational specification of the builder, decided
exhaustively on a small scope: the builder's methods are evaluated *from their
AST* with rules/_minieval.py (nothing is imported or run from /repo; os.path
and path_utils are modelled by the host's posixpath, `log.*` by a no-op) on
every set of up to 2 module files drawn from all directory chains of depth
<= 3 over two directory names, with a module name that sorts before and one
that sorts after the directory names and explicit `__init__` files, plus every
set of 3 files out of 11 paths of depth <= 2, plus inputs with a repeated short
path and the `%` (unused) pseudo-path.  How the ancestors are collected (bottom-up walk
with an early exit, top-down over prefixes, a comprehension, a helper) is
irrelevant; anything the evaluator does not model is an analysis error.
"""
import ast
import itertools
import posixpath

from sa.core import rule, AnalysisError
from sa.pyindex import get_module
from rules import _minieval as me

LOADER = "pytype/imports_map_loader.py"
BUILDER = "ImportsMapBuilder"
ENTRY = "build_from_items"
DEVNULL = "/dev/null"


class _Interp(me.Interp):
  """_minieval.Interp plus `f(*xs, **kw)` calls."""

  def expr(self, e, env):
    if isinstance(e, ast.Call) and (
        any(isinstance(a, ast.Starred) for a in e.args)
        or any(k.arg is None for k in e.keywords)):
      self.tick()
      f = self.expr(e.func, env)
      args = list(self._elts(e.args, env))
      kw = {}
      for k in e.keywords:
        if k.arg is None:
          v = self.expr(k.value, env)
          if not isinstance(v, dict):
            raise me.Outside("** of a non-dict")
          kw.update(v)
        else:
          kw[k.arg] = self.expr(k.value, env)
      if isinstance(f, me.Sym):
        if self.resolver is not None:
          try:
            r = self.resolver(f.name, args, kw)
          except me._HOST_ERRORS as ex:     # pylint: disable=protected-access
            raise me.Raised(type(ex).__name__, ex.args) from ex
          if r is not NotImplemented:
            return r
        return me.Obj((f.name,), {"args": tuple(args), **kw}, structural=True)
      if not callable(f):
        raise me.Outside(f"call of {f!r}")
      try:
        return f(*args, **kw)
      except me._HOST_ERRORS as ex:         # pylint: disable=protected-access
        raise me.Raised(type(ex).__name__, ex.args) from ex
    return super().expr(e, env)

  def sub(self, fn):
    return _Interp(fn, self.globals, self.max_steps, self.resolver)


def _abspath(p):
  return p if p.startswith("/") else "/cwd/" + p


def _world(mod):
  """Globals of the evaluated module: os / os.path / path_utils by posixpath."""
  path_fns = {n: getattr(posixpath, n) for n in (
      "dirname", "basename", "join", "split", "splitext", "normpath", "isabs",
      "commonprefix")}
  path_fns["abspath"] = _abspath
  os_path = me.Obj(("module os.path",), {"sep": "/"}, methods=path_fns)
  os_ = me.Obj(("module os",), {"path": os_path, "sep": "/", "devnull": DEVNULL,
                                "curdir": ".", "pardir": ".."})
  path_utils = me.Obj(("module path_utils",), {"sep": "/"}, methods=path_fns)
  pathlib_outside = None
  del pathlib_outside
  g = {}
  for alias, target in mod.imports.items():
    if target == "os":
      g[alias] = os_
    elif target == "os.path":
      g[alias] = os_path
    elif target.endswith("path_utils"):
      g[alias] = path_utils
  return g


def _resolver(mod):
  import collections

  def resolver(name, args, kw):
    head = name.split(".")[0]
    if head in ("log", "logging", "logger"):
      return None
    if name in ("collections.defaultdict", "defaultdict"):
      if len(args) == 1 and args[0] in (set, list, dict):
        return collections.defaultdict(args[0])
      raise me.Outside("defaultdict factory")
    if "." not in name and name in mod.functions:
      fn = mod.functions[name]
      params = [p.arg for p in fn.args.posonlyargs + fn.args.args]
      if len(args) > len(params):
        raise me.Outside(f"call of {name}")
      return _Interp(fn, _world(mod), 20000, resolver).call(
          {**dict(zip(params, args)), **kw})
    if name.endswith("ImportsMap"):
      return NotImplemented              # opaque structural record items/unused
    raise me.Outside(f"call of {name}, which the world model does not define")
  return resolver


# -- the scope ------------------------------------------------------------------

_DIRS = ("b", "c")
_LEAVES = ("a", "z")      # "a" sorts before, "z" after every directory name


def _paths(max_depth):
  out = []
  for d in range(0, max_depth + 1):
    for chain in itertools.product(_DIRS, repeat=d):
      for leaf in _LEAVES:
        out.append("/".join(chain + (leaf,)))
      if 1 <= d <= 2:
        out.append("/".join(chain + ("__init__",)))
  return out


_TRIPLE_UNIVERSE = ("a", "z", "b/a", "b/z", "b/__init__", "b/b/a", "b/b/z", "b/c/a",
                    "b/c/z", "b/b/__init__", "c/a")


def scope_inputs():
  """-> lists of (short_path_with_extension, file) items."""
  def emit(keys):
    return [(k + ".py", f"gen/{k.replace('/', '_')}.pyi") for k in keys]
  for n in (1, 2):
    for keys in itertools.combinations(_paths(3), n):
      yield emit(keys)
  for keys in itertools.combinations(_TRIPLE_UNIVERSE, 3):
    yield emit(keys)
  # a repeated short path (the first file by base name wins, the other is
  # unused) and the `%` pseudo-path
  yield [("b/c/a.py", "gen/2.pyi"), ("b/c/a.py", "gen/1.pyi"), ("b/z.py", "gen/3.pyi")]
  yield [("%", "gen/unused.pyi"), ("b/a.py", "gen/1.pyi"), ("b/c/z.py", "gen/2.pyi")]


def _ancestors(key):
  out = []
  d = posixpath.dirname(key)
  while d:
    out.append(d)
    d = posixpath.dirname(d)
  return out


def expected(items):
  """The specification: -> {key: set of admissible files}."""
  given = {}
  for short, path in items:
    k = posixpath.splitext(short)[0]
    if k != "%":
      given.setdefault(k, set()).add(_abspath(path))
  want = dict(given)
  for k in given:
    for d in _ancestors(k):
      want.setdefault(d + "/__init__", {DEVNULL})
  return given, want


MAX_SHOWN = 3


def decide(ctx, mod):
  def run():
    cls = mod.cls(BUILDER)
    methods = mod.methods(BUILDER)
    if ENTRY not in methods:
      raise AnalysisError(f"{LOADER}: {BUILDER}.{ENTRY} not found")
    fn = methods[ENTRY]
    params = [p.arg for p in fn.args.posonlyargs + fn.args.args]
    if len(params) != 2:
      raise AnalysisError(f"{BUILDER}.{ENTRY}: expected (self, items)")
    world, resolver = _world(mod), _resolver(mod)
    out = {"inputs": 0, "missing_parent": [], "lost_key": [], "extra": [],
           "overridden_init": []}
    for items in scope_inputs():
      out["inputs"] += 1
      me_self = me.Obj((BUILDER,), {"options": me.Obj(("options",), {})},
                       cls_methods=methods)
      try:
        got = _Interp(fn, world, 40000, resolver).call(
            {params[0]: me_self, params[1]: list(items)})
      except me.Raised as e:
        raise AnalysisError(
            f"{BUILDER}.{ENTRY} raises {e.name} on {items}: not modelled") from e
      except me.Diverged as e:
        raise AnalysisError(
            f"{BUILDER}.{ENTRY} does not terminate within the step budget on "
            f"{items}") from e
      except me.Outside as e:
        raise AnalysisError(
            f"{BUILDER}.{ENTRY}: small-scope evaluation left the modelled "
            f"fragment: {e}") from e
      table = got.attrs.get("items") if isinstance(got, me.Obj) else None
      if table is None and isinstance(got, me.Obj) and got.attrs.get("args"):
        table = got.attrs["args"][0]
      if not isinstance(table, dict):
        raise AnalysisError(
            f"{BUILDER}.{ENTRY}: result {got!r:.80} is not an ImportsMap(items=..)")
      given, want = expected(items)
      shown = [s for s, _ in items]
      for k, files in want.items():
        if k not in table:
          kind = "lost_key" if k in given else "missing_parent"
          out[kind].append({"items": shown, "absent": k})
        elif table[k] not in files:
          kind = "overridden_init" if k in given else "extra"
          out[kind].append({"items": shown, "key": k, "maps_to": table[k],
                            "expected": sorted(files)})
      for k in table:
        if k not in want:
          out["extra"].append({"items": shown, "key": k, "maps_to": table[k]})
    del cls
    return out
  return ctx.memo(("c06-imports-map-scope", mod.rel), run)


@rule("R6.23", "C06", floor=3)
def r6_23(ctx):
  """The imports map contains `<d>/__init__` for every ancestor directory of
  every key (small-scope evaluation of ImportsMapBuilder.build_from_items)."""
  mod = get_module(ctx, LOADER)
  res = decide(ctx, mod)
  line = mod.methods(BUILDER)[ENTRY].lineno
  n = res["inputs"]

  def report(construct, bad, reason):
    facts = {"inputs_evaluated": n, "counterexamples": len(bad),
             "first": bad[:MAX_SHOWN]}
    if bad:
      ctx.bad(construct, LOADER, line, reason.format(**bad[0]) +
              f" ({len(bad)} of {n} inputs of the scope)", facts)
    else:
      ctx.ok(construct, LOADER, line, facts)

  report(f"{BUILDER}.{ENTRY}:every-ancestor-directory-has-an-__init__-entry",
         res["missing_parent"],
         "for the items {items} the imports map has no `{absent}` entry: with "
         "an imports map find_import accepts a directory as a package only "
         "through that key, so the modules below it cannot be imported through "
         "an imports-map entry / pickled stub although the same stubs on the "
         "python path work")
  report(f"{BUILDER}.{ENTRY}:every-given-module-is-a-key",
         res["lost_key"] + res["overridden_init"],
         "for the items {items} the imports map loses or redirects a given "
         "module")
  report(f"{BUILDER}.{ENTRY}:synthetic-entries-only-for-ancestors-and-empty",
         res["extra"],
         "for the items {items} the imports map has the entry `{key}` -> "
         "{maps_to}, which is neither a given module nor the empty __init__ of "
         "an ancestor directory")


_WALK = ("      intermediate_dir = short_path\n"
         "      while True:\n"
         "        intermediate_dir = os.path.dirname(intermediate_dir)\n"
         "        if not intermediate_dir or intermediate_dir in intermediate_dirs:\n"
         "          break\n"
         "        intermediate_dirs.add(intermediate_dir)\n")

VARIANTS = [
    {"name": "seeded-C06-r3m1", "rule": "R6.23", "patch": "seeded/C06-r3m1/patch.diff",
     "expect": "fire"},
    {"name": "ancestor-walk-collects-only-the-parent", "rule": "R6.23", "file": LOADER,
     "expect": "fire", "old": _WALK,
     "new": "      intermediate_dir = os.path.dirname(short_path)\n"
            "      if intermediate_dir:\n"
            "        intermediate_dirs.add(intermediate_dir)\n"},
    {"name": "ancestor-walk-stops-below-the-top-level-directory", "rule": "R6.23",
     "file": LOADER, "expect": "fire",
     "old": "        if not intermediate_dir or intermediate_dir in intermediate_dirs:\n",
     "new": "        if os.sep not in intermediate_dir or intermediate_dir in intermediate_dirs:\n"},
    {"name": "ancestor-walk-exits-when-any-sibling-was-seen", "rule": "R6.23",
     "file": LOADER, "expect": "fire",
     "old": "        if not intermediate_dir or intermediate_dir in intermediate_dirs:\n",
     "new": "        if not intermediate_dir or os.path.dirname(intermediate_dir) in intermediate_dirs:\n"},
    {"name": "synthetic-__init__-overrides-a-given-one", "rule": "R6.23", "file": LOADER,
     "expect": "fire",
     "old": "      if intermediate_dir_init not in dir_paths:\n",
     "new": "      if intermediate_dir_init not in intermediate_dirs:\n"},
    {"name": "twin-ancestors-top-down-without-early-exit", "rule": "R6.23", "file": LOADER,
     "expect": "silent", "old": _WALK,
     "new": "      parts = short_path.split(os.sep)[:-1]\n"
            "      for depth in range(1, len(parts) + 1):\n"
            "        intermediate_dirs.add(os.path.join(*parts[:depth]))\n"},
    {"name": "twin-ancestors-top-down-skip-seen-with-continue", "rule": "R6.23",
     "file": LOADER, "expect": "silent", "old": _WALK,
     "new": "      parts = short_path.split(os.sep)[:-1]\n"
            "      for depth in range(1, len(parts) + 1):\n"
            "        intermediate_dir = os.path.join(*parts[:depth])\n"
            "        if intermediate_dir in intermediate_dirs:\n"
            "          continue\n"
            "        intermediate_dirs.add(intermediate_dir)\n"},
    {"name": "twin-ancestor-walk-in-a-helper-method", "rule": "R6.23", "expect": "silent",
     "edits": [(LOADER, _WALK,
                "      self._collect_ancestors(short_path, intermediate_dirs)\n"),
               (LOADER, "  def build_from_file(self, path: str | None)",
                "  def _collect_ancestors(self, short_path, seen):\n"
                "    parent = os.path.dirname(short_path)\n"
                "    while parent and parent not in seen:\n"
                "      seen.add(parent)\n"
                "      parent = os.path.dirname(parent)\n\n"
                "  def build_from_file(self, path: str | None)")]},
    {"name": "twin-ancestors-by-comprehension", "rule": "R6.23", "file": LOADER,
     "expect": "silent", "old": _WALK,
     "new": "      parts = short_path.split(\"/\")\n"
            "      intermediate_dirs.update(\"/\".join(parts[:i]) for i in range(1, len(parts)))\n"},
    {"name": "twin-synthetic-init-via-setdefault", "rule": "R6.23", "file": LOADER,
     "expect": "silent",
     "old": "      if intermediate_dir_init not in dir_paths:\n"
            "        log.warning(\"Created empty __init__ %r\", intermediate_dir_init)\n"
            "        dir_paths[intermediate_dir_init] = os.devnull\n",
     "new": "      dir_paths.setdefault(intermediate_dir_init, os.devnull)\n"},
    {"name": "twin-ancestor-walk-with-walrus-and-path_utils", "rule": "R6.23", "file": LOADER,
     "expect": "silent", "old": _WALK,
     "new": "      d = short_path\n"
            "      while (d := path_utils.dirname(d)) and d not in intermediate_dirs:\n"
            "        intermediate_dirs.add(d)\n"},
    {"name": "ancestor-walk-through-an-unmodelled-library", "rule": "R6.23", "file": LOADER,
     "expect": "error", "old": _WALK,
     "new": "      intermediate_dirs.update(str(p) for p in pathlib.PurePath(short_path).parents)\n"},
]
