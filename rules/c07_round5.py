"""C07 / R7.50 - the path cache is keyed by every input of the cached search.

A function that memoises a backward path query in the PathCacheTrie (looks the
answer up with GetResult, computes it on a miss, stores it with InsertResult)
must (a) look up and store under the same key, and (b) use a key that
determines every parameter the computation reads: each such parameter has to
be a key component itself (or an exact copy of it).  A key that is a proper
part of an input (a sub-range, a filtered copy, a copy with elements erased),
or that leaves an input out, lets two different queries share one entry, so
the solver's answer depends on which of them was asked first instead of on the
graph ("reported possible exactly when some backward path explains it").
"""
from sa.core import rule, AnalysisError
from sa import cxx
from sa.cxx import term, uncast, inner, strip
from rules import _cxxutil_c07c08 as U

SC = "pytype/typegraph/solver.cc"
CACHE = "internal::PathCacheTrie"
LOOKUP, STORE = CACHE + "::GetResult", CACHE + "::InsertResult"
WHOLE = {"begin": "end", "cbegin": "cend"}
SHRINKS = {"erase", "clear", "pop_back", "pop_front", "pop", "resize", "extract",
           "remove", "unique", "swap", "assign", "reset", "merge"}
GROWS = {"insert", "emplace", "emplace_hint", "push_back", "emplace_back", "push_front"}
LOOPS = ("CXXForRangeStmt", "ForStmt", "WhileStmt", "DoStmt")


def _ntype(t):
  t = t.replace("devtools_python_typegraph::", "").replace("internal::", "")
  return t.replace("const ", "").replace("&", "").replace(" ", "")


def _cache_kind(ix, n):
  if n.get("kind") != "CXXMemberCallExpr":
    return None
  key = ix.callee(n)[0] or ""
  if key.split("(")[0] == LOOKUP:
    return "lookup"
  if key.split("(")[0] == STORE:
    return "store"
  return None


class _Scan:
  """Cache calls and variable reads of a function, file-local helpers inlined."""

  def __init__(self, ix, fn, nkey, exclude=frozenset(), depth=2):
    self.ix, self.nkey, self.exclude = ix, nkey, exclude
    self.sites = []    # (kind, call, env, fn)
    self.reads = []    # (DeclRefExpr, env, fn)
    self._fn(fn, None, depth, ())

  def _fn(self, fn, env, depth, stack):
    env = U.once_bound_env(self.ix, fn, env)
    self._rec(fn.body, fn, env, depth, stack, False)

  def _rec(self, n, fn, env, depth, stack, quiet):
    k = n.get("kind")
    if not k or id(n) in self.exclude:
      return
    if k == "DeclRefExpr":
      if not quiet:
        self.reads.append((n, env, fn))
      return
    kids = inner(n)
    ck = _cache_kind(self.ix, n)
    if ck:
      self.sites.append((ck, n, env, fn))
      self._rec(kids[0], fn, env, depth, stack, quiet)
      for i, a in enumerate(kids[1:]):
        self._rec(a, fn, env, depth, stack, quiet or i < self.nkey)
      return
    h = U.local_callee(self.ix, n) if depth > 0 else None
    if h is not None and h.key != fn.key and h.key not in stack and h.cls != CACHE:
      henv = dict(env)
      henv.update(U.bind_params(self.ix, h, n, env))
      self._fn(h, henv, depth - 1, stack + (fn.key,))
      # what the helper does with its arguments is read off its inlined body
      self._rec(kids[0], fn, env, depth, stack, quiet)
      for a in kids[1:]:
        self._rec(a, fn, env, depth, stack, True)
      return
    for c in kids:
      self._rec(c, fn, env, depth, stack, quiet)


def _memo_functions(ix):
  """[(Fn, sites)] - the innermost functions (outside the cache class) through
  which the cache is both consulted and filled."""
  get = ix.find(LOOKUP)
  put = ix.find(STORE)
  if len(get) != 1 or len(put) != 1:
    raise AnalysisError("the path cache has overloaded GetResult / InsertResult")
  nkey = len(get[0].params)
  kt = [_ntype(cxx.qual_type(p)) for p in get[0].params]
  if nkey < 1 or [_ntype(cxx.qual_type(p)) for p in put[0].params[:nkey]] != kt:
    raise AnalysisError("GetResult's parameters are not the leading parameters of "
                        "InsertResult: the cache key is not understood")
  direct = set()
  for f in ix.by_key.values():
    if f.body is None or f.cls == CACHE:
      continue
    if any(_cache_kind(ix, n) for n in cxx.walk(f.body)):
      if f.file not in U.LOCAL_FILES:
        raise AnalysisError(f"{f.key} uses the path cache from outside solver.cc/.h")
      direct.add(f.key)
  if not direct:
    raise AnalysisError("no user of PathCacheTrie::GetResult / InsertResult found")
  graph = U.call_graph(ix)
  cands = set(direct)
  for _ in range(2):
    cands |= {k for k, outs in graph.items() if outs & cands}
  scans = {}
  for k in sorted(cands):
    f = ix.by_key[k]
    if f.cls == CACHE:
      continue
    sc = _Scan(ix, f, nkey)
    kinds = {s[0] for s in sc.sites}
    if kinds == {"lookup", "store"}:
      scans[k] = sc
  inner_most = [k for k in scans
                if not any(o != k and o in scans and o in _reach(graph, k) for o in scans)]
  covered = set()
  for k in inner_most:
    covered |= {s[3].key for s in scans[k].sites}
  if not inner_most or direct - covered:
    raise AnalysisError("the path cache is consulted and filled in functions that "
                        f"are not one memo function and its helpers: {sorted(direct - covered)}")
  return [(ix.by_key[k], nkey) for k in sorted(inner_most)]


def _reach(graph, k):
  seen, todo = set(), [k]
  while todo:
    x = todo.pop()
    for o in graph.get(x, ()):
      if o not in seen:
        seen.add(o)
        todo.append(o)
  return seen


def _find_decl(fn, vid):
  for n in cxx.walk(fn.body):
    if n.get("kind") == "VarDecl" and n.get("id") == vid:
      return n
  return None


def _obj_of(ix, call):
  """(method name, decl id of the object) of `x.m(..)` with x a plain variable."""
  if call.get("kind") != "CXXMemberCallExpr":
    return None, None
  _, _, nm, obj = ix.callee(call)
  o = strip(obj) if obj is not None else None
  if o is not None and o.get("kind") == "DeclRefExpr":
    return nm, (o.get("referencedDecl") or {}).get("id")
  return nm, None


def _whole_range(t1, t2):
  """The container term o when (t1, t2) is (o.begin(), o.end())."""
  t1, t2 = uncast(t1), uncast(t2)
  if isinstance(t1, tuple) and isinstance(t2, tuple) and len(t1) == 3 and len(t2) == 3 \
      and t1[0] == t2[0] == "mcall" and t1[2] == t2[2] and WHOLE.get(t1[1]) == t2[1]:
    return t1[2]
  return None


def _path(root, node):
  out = []

  def find(n):
    if n is node:
      out.append(n)
      return True
    for c in inner(n):
      if c.get("kind") and find(c):
        out.append(n)
        return True
    return False
  return list(reversed(out)) if find(root) else None


def _derivation(ix, fn, env, vid):
  """How the key local `vid` of `fn` is built.

  -> (verdict, source term, why, region) with verdict "copy" (the local holds
  exactly the elements / value of `source`), "part" (it can hold a proper part
  of `source`), or "unknown"; region = ids of the AST nodes that only build it."""
  decl = _find_decl(fn, vid)
  if decl is None:
    return "unknown", None, "is not a local of the function that uses it as key", set()
  name = decl.get("name")
  region = {id(x) for x in cxx.walk(decl)}
  if vid in _assigned(fn.body):
    return "unknown", None, f"`{name}` is assigned after its declaration", region
  kids = [c for c in inner(decl) if c.get("kind")]
  base, why = None, None              # None = starts empty
  if decl.get("init") and kids:
    e = strip(kids[-1])
    if e is None or e.get("kind") != "CXXConstructExpr":
      t = uncast(term(ix, kids[-1], env))
      if _ntype(cxx.qual_type(decl)) == _ntype(cxx.qual_type(strip(kids[-1]) or {})) and \
          isinstance(t, tuple) and t[0] != "?":
        base = ("copy", t)
      else:
        return "unknown", None, f"`{name}` is initialised by an expression that is not understood", region
    else:
      args = [c for c in inner(e) if c.get("kind") and c.get("kind") != "CXXDefaultArgExpr"]
      if len(args) == 0:
        base = None
      elif len(args) == 1:
        t = uncast(term(ix, args[0], env))
        if _ntype(cxx.qual_type(args[0])) != _ntype(cxx.qual_type(decl)) or \
            not isinstance(t, tuple) or t[0] == "?":
          return "unknown", None, f"`{name}` is converted from {U.show(t)}", region
        base = ("copy", t)
      elif len(args) == 2:
        t1, t2 = term(ix, args[0], env), term(ix, args[1], env)
        o = _whole_range(t1, t2)
        if o is not None:
          base = ("copy", o)
        else:
          u1, u2 = uncast(t1), uncast(t2)
          objs = {u[2] for u in (u1, u2)
                  if isinstance(u, tuple) and len(u) >= 3 and u[0] == "mcall"}
          if len(objs) == 1 and all(isinstance(u, tuple) and u[0] == "mcall" for u in (u1, u2)):
            o = next(iter(objs))
            base = ("part", o)
            why = (f"`{name}` is built from the range [{U.show(u1)}, {U.show(u2)}), "
                   f"which need not be all of {U.show(o)}")
          else:
            return "unknown", None, f"`{name}` is built from ({U.show(u1)}, {U.show(u2)})", region
      else:
        return "unknown", None, f"`{name}` has a constructor call that is not understood", region
  # later mutations through member calls
  top = U.stmts(fn.body)
  for n in cxx.walk(fn.body):
    nm, oid = _obj_of(ix, n)
    if oid != vid or nm not in cxx.MUTATORS:
      continue
    p = _path(fn.body, n)
    holder = p[1] if p and len(p) > 1 else None
    if holder is None or not any(holder is s for s in top):
      return "unknown", None, f"`{name}` is changed in a nested statement", region
    others = U.written_vars(holder) - {vid} - _declared_in(holder)
    if others or any(_cache_kind(ix, x) or U.local_callee(ix, x) for x in cxx.walk(holder)):
      return "unknown", None, (f"the statement that fills `{name}` also does "
                               "other work"), region
    region |= {id(x) for x in cxx.walk(holder)}
    margs = inner(n)[1:]
    if nm in SHRINKS:
      if base is None:
        return "unknown", None, f"`{name}.{nm}(..)` on a set that holds nothing yet", region
      base = ("part", base[1])
      why = why or (f"`{name}` starts as a copy of {U.show(base[1])} and then "
                    f"`{name}.{nm}(..)` takes elements out")
      continue
    if nm not in GROWS:
      return "unknown", None, f"`{name}.{nm}(..)` is not understood", region
    loops = [x for x in p if x.get("kind") in LOOPS]
    conds = [x for x in p if x.get("kind") in ("IfStmt", "ConditionalOperator", "SwitchStmt")]
    if not loops:
      if conds:
        o = base[1] if base else None
        if o is None:
          return "unknown", None, f"`{name}` is filled under a condition", region
        continue      # adding more to a copy keeps it at least a copy; not a part
      if len(margs) == 2:
        o = _whole_range(term(ix, margs[0], env), term(ix, margs[1], env))
        if o is not None and base is None:
          base = ("copy", o)
          continue
      return "unknown", None, f"`{name}.{nm}(..)` with arguments that are not understood", region
    if len(loops) != 1 or loops[0].get("kind") != "CXXForRangeStmt" or len(margs) != 1:
      return "unknown", None, f"`{name}` is filled in a loop that is not a plain range-for", region
    loopvar, rng, body = U.range_for(loops[0])
    a = strip(margs[0])
    if rng is None or a is None or a.get("kind") != "DeclRefExpr" or \
        (a.get("referencedDecl") or {}).get("id") != loopvar.get("id"):
      return "unknown", None, f"`{name}` is filled with something other than the loop's elements", region
    o = uncast(term(ix, rng, env))
    skipping = conds or any(x.get("kind") in ("BreakStmt", "ContinueStmt", "ReturnStmt", "GotoStmt")
                            for x in cxx.walk(body))
    if base is not None:
      return "unknown", None, f"`{name}` is initialised and then filled in a loop", region
    if skipping:
      base = ("part", o)
      why = (f"`{name}` receives the elements of {U.show(o)} only under a "
             "condition (the loop that fills it can skip elements)")
    else:
      base = ("copy", o)
  if base is None:
    return "part", None, f"`{name}` stays empty", region
  return base[0], base[1], why, region


def _assigned(body):
  out = set()
  for n in cxx.walk(body):
    k = n.get("kind")
    kids = inner(n)
    if k in ("BinaryOperator", "CompoundAssignOperator") and kids and \
        (n.get("opcode") == "=" or k == "CompoundAssignOperator"):
      out.add(U._decl_id(kids[0]))
    elif k == "CXXOperatorCallExpr" and len(kids) > 1:
      c = strip(kids[0])
      if c is not None and (c.get("referencedDecl") or {}).get("name", "") in U.ASSIGN_OPS:
        out.add(U._decl_id(kids[1]))
    elif k == "UnaryOperator" and n.get("opcode") in ("++", "--", "&") and kids:
      out.add(U._decl_id(kids[0]))
  out.discard(None)
  return out


def _declared_in(stmt):
  return {n["id"] for n in cxx.walk(stmt) if n.get("kind") == "VarDecl" and n.get("id")}


def _resolve_key(ix, t, fn, env, notes, regions, depth=0):
  """Key component term with exact-copy locals replaced by what they copy."""
  t = uncast(t)
  if isinstance(t, tuple) and len(t) == 3 and t[0] == "var" and depth < 4 and \
      t[2] not in {p["id"] for p in fn.params}:
    verdict, srcterm, why, region = _derivation(ix, fn, env, t[2])
    regions |= region
    if verdict == "copy":
      return _resolve_key(ix, srcterm, fn, env, notes, regions, depth + 1)
    notes[t[2]] = (verdict, srcterm, why, t[1])
  return t


@rule("R7.50", "C07", floor=5)
def r7_50(ctx):
  """The path cache is looked up and filled under one key, and that key contains every parameter the cached search reads."""
  ix = cxx.get_index(ctx)
  for host, nkey in _memo_functions(ix):
    first = _Scan(ix, host, nkey)
    pids = {p["id"]: i for i, p in enumerate(host.params)}
    changed = U.written_vars(host.body) | _assigned(host.body)
    notes, regions = {}, set()
    keys = []
    for kind, call, env, fn in first.sites:
      args = inner(call)[1:1 + nkey]
      if len(args) != nkey:
        raise AnalysisError(f"{host.name}: cache call with fewer than {nkey} key arguments")
      keys.append((kind, call, fn,
                   tuple(_resolve_key(ix, term(ix, a, env), fn, env, notes, regions)
                         for a in args)))
    for _, _, _, ts in keys:
      for t in ts:
        if "'?'" in repr(t):
          raise AnalysisError(f"{host.name}: key component not understood: {U.show(t)}")
        for v in U._free_vars(t):
          if v in changed and v in pids:
            raise AnalysisError(f"{host.name}: parameter used in the cache key is "
                                "reassigned in the function")
    lookups = [k for k in keys if k[0] == "lookup"]
    ref = lookups[0][3]
    # (a) one key for lookup and store
    counters = {"lookup": 0, "store": 0}
    for kind, call, fn, ts in keys:
      counters[kind] += 1
      if ts is ref and call is lookups[0][1]:
        continue
      label = "GetResult" if kind == "lookup" else "InsertResult"
      ctx.check(ts == ref, f"{host.name}:{label}#{counters[kind]}:same-key-as-lookup", host.file,
                U.line(call),
                f"{host.name} looks the path up under ({', '.join(U.show(t) for t in ref)}) "
                f"but this {label} uses ({', '.join(U.show(t) for t in ts)}): the entry "
                "found by a later lookup is not the one computed for its own query, "
                "so the answer depends on which query ran first",
                {"lookup_key": [U.show(t) for t in ref], "this_key": [U.show(t) for t in ts]})
    # (b) the key determines every parameter the computation reads
    second = _Scan(ix, host, nkey, exclude=frozenset(regions))
    read_by = {}
    for n, env, fn in sorted(second.reads, key=lambda r: r[2].key != host.key):
      for v in U._free_vars(uncast(term(ix, n, env))):
        if v in pids:
          read_by.setdefault(v, []).append(n)
    key_terms = set(ref)
    for p in host.params:
      pid = p["id"]
      pname = p.get("name") or f"#{pids[pid]}"
      construct = f"{host.name}:param{pids[pid]}:in-cache-key"
      reads = read_by.get(pid, [])
      facts = {"parameter": pname, "read_by_search_at_lines": sorted({U.line(n) for n in reads})[:8],
               "key": [U.show(t) for t in ref]}
      if not reads:
        ctx.ok(construct, host.file, host.line, dict(facts, role="not read by the computation"))
        continue
      if any(isinstance(t, tuple) and len(t) == 3 and t[0] == "var" and t[2] == pid
             for t in key_terms):
        ctx.ok(construct, host.file, host.line, facts)
        continue
      if pid in changed:
        raise AnalysisError(f"{host.name}: parameter `{pname}` is reassigned")
      partial = [(nm, why) for vid, (verdict, srcterm, why, nm) in notes.items()
                 if verdict == "part" and srcterm is not None and pid in U._free_vars(srcterm)
                 and any(t[0] == "var" and len(t) == 3 and t[2] == vid for t in key_terms)]
      mentioned = any(pid in U._free_vars(t) for t in key_terms) or any(
          srcterm is not None and pid in U._free_vars(srcterm)
          for vid, (verdict, srcterm, why, nm) in notes.items())
      where = U.line(reads[0])
      if partial:
        nm, why = partial[0]
        ctx.bad(construct, host.file, where,
                f"{host.name} computes its result from all of `{pname}` (read at line "
                f"{where}) but caches it under `{nm}`, which holds only part of it: {why}. "
                "Two queries that differ only in the left-out part share one cache "
                "entry, so the second is answered with the first one's path verdict",
                facts)
      elif not mentioned:
        unknown = [nm for vid, (verdict, srcterm, why, nm) in notes.items() if verdict == "unknown"]
        if unknown:
          raise AnalysisError(f"{host.name}: key component `{unknown[0]}` is built in a way "
                              f"that is not understood: {notes and [w for _, _, w, _ in notes.values()][0]}")
        ctx.bad(construct, host.file, where,
                f"{host.name} computes its result from parameter `{pname}` (read at line "
                f"{where}) but the cache key ({', '.join(U.show(t) for t in ref)}) does "
                "not contain it: queries that differ only in it share one cache entry",
                facts)
      else:
        raise AnalysisError(f"{host.name}: parameter `{pname}` enters the cache key only "
                            "through an expression whose injectivity is not decidable here: "
                            f"({', '.join(U.show(t) for t in ref)})")


def _tg(name):
  return f"pytype/typegraph/{name}"


_GET = "  QueryResult result = path_trie_.GetResult(start, finish, blocked);\n"
_PUT_NO = "    return path_trie_.InsertResult(start, finish, blocked,\n"
_PUT_YES = "  return path_trie_.InsertResult(start, finish, blocked, true, std::move(path));\n"


def _rekey(prefix, key, start="start", finish="finish"):
  """All three cache calls of FindNodeBackwards use (start, finish, key)."""
  return [(_tg("solver.cc"), _GET,
           prefix + f"  QueryResult result = path_trie_.GetResult({start}, {finish}, {key});\n"),
          (_tg("solver.cc"), _PUT_NO,
           f"    return path_trie_.InsertResult({start}, {finish}, {key},\n"),
          (_tg("solver.cc"), _PUT_YES,
           f"  return path_trie_.InsertResult({start}, {finish}, {key}, true, std::move(path));\n")]


VARIANTS = [
    {"name": "seeded-C07-r5m2-key-truncated-at-start", "rule": "R7.50",
     "patch": "seeded/C07-r5m2/patch.diff", "expect": "fire"},
    {"name": "key-keeps-only-conditional-blocked-nodes", "rule": "R7.50", "expect": "fire",
     "edits": _rekey("  CFGNodeSet key;\n  for (const CFGNode* b : blocked) {\n"
                     "    if (b->condition()) key.insert(b);\n  }\n", "key")},
    {"name": "key-copy-with-start-erased", "rule": "R7.50", "expect": "fire",
     "edits": _rekey("  CFGNodeSet key(blocked);\n  key.erase(start);\n  key.erase(finish);\n", "key")},
    {"name": "key-ignores-blocked", "rule": "R7.50", "expect": "fire",
     "edits": _rekey("  const CFGNodeSet none;\n", "none")},
    {"name": "key-ignores-finish", "rule": "R7.50", "expect": "fire",
     "edits": _rekey("", "blocked", finish="start")},
    {"name": "positive-result-stored-under-last-node", "rule": "R7.50", "file": _tg("solver.cc"),
     "expect": "fire", "old": _PUT_YES,
     "new": "  return path_trie_.InsertResult(node, finish, blocked, true, std::move(path));\n"},
    {"name": "negative-result-stored-under-swapped-endpoints", "rule": "R7.50",
     "file": _tg("solver.cc"), "expect": "fire", "old": _PUT_NO,
     "new": "    return path_trie_.InsertResult(finish, start, blocked,\n"},
    {"name": "twin-key-through-aliases", "rule": "R7.50", "expect": "silent",
     "edits": _rekey("  const CFGNodeSet& avoid = blocked;\n  const CFGNode* const from = start;\n",
                     "avoid", start="from")},
    {"name": "twin-key-is-whole-range-copy", "rule": "R7.50", "expect": "silent",
     "edits": _rekey("  const CFGNodeSet key(blocked.begin(), blocked.end());\n", "key")},
    {"name": "twin-key-copied-in-unconditional-loop", "rule": "R7.50", "expect": "silent",
     "edits": _rekey("  CFGNodeSet key;\n  for (const CFGNode* b : blocked) {\n"
                     "    key.insert(b);\n  }\n", "key")},
    {"name": "twin-endpoints-swapped-in-every-cache-call", "rule": "R7.50", "expect": "silent",
     "edits": _rekey("", "blocked", start="finish", finish="start")},
    {"name": "twin-store-through-helper", "rule": "R7.50", "expect": "silent",
     "edits": [
         (_tg("solver.h"), "  PathCacheTrie path_trie_;\n",
          "  PathCacheTrie path_trie_;\n"
          "  QueryResult Remember(const CFGNode* from, const CFGNode* to,\n"
          "                       const CFGNodeSet& avoid, bool found,\n"
          "                       std::deque<const CFGNode*> nodes);\n"),
         (_tg("solver.cc"), "QueryResult PathFinder::FindNodeBackwards(",
          "QueryResult PathFinder::Remember(const CFGNode* from, const CFGNode* to,\n"
          "                                 const CFGNodeSet& avoid, bool found,\n"
          "                                 std::deque<const CFGNode*> nodes) {\n"
          "  return path_trie_.InsertResult(from, to, avoid, found, std::move(nodes));\n"
          "}\n\n"
          "QueryResult PathFinder::FindNodeBackwards("),
         (_tg("solver.cc"), _PUT_NO, "    return Remember(start, finish, blocked,\n"),
         (_tg("solver.cc"), _PUT_YES,
          "  return Remember(start, finish, blocked, true, std::move(path));\n")]},
    {"name": "twin-benign-C07-r2-restructured-path-search", "rule": "R7.50",
     "patch": "benign/C07-r2/patch.diff", "expect": "silent"},
    {"name": "key-through-unknown-normaliser", "rule": "R7.50", "expect": "error",
     "edits": _rekey("", "blocked", start="start->incoming().front()")},
]
