"""C13 extension: while a call record is normalised, the `*xs` expansion and the
record that is handed on agree on the set of keyword names.

R13.24  A call that mixes a splat with keywords (`f(*xs, b=2)`) reaches pytype
        as CALL_FUNCTION_EX: ALL explicit keywords arrive packed in the `**`
        dictionary.  `Args.simplify` unpacks that dictionary into the keyword
        map of the record it returns, and - through self-helpers such as
        `_unpack_and_match_args` - decides how many leading parameters an
        indefinite `*xs` has to fill by asking which parameters are passed by
        keyword (`p in <keyword map>`).  CPython binds keywords first-class:
        a parameter passed by keyword is never filled from the splat.  So the
        keyword map consulted by the expansion must hold exactly the names the
        returned record holds; if it misses the unpacked ones, the splat is
        expanded over parameters that are also passed by keyword and the
        binder reports duplicate-keyword-argument on a call CPython accepts.

        The rule follows the keyword maps through `simplify` path by path:
        abstract objects (the record's own `self.namedargs`, copies of it,
        fresh dicts, the unpacked `**` dict) with a content over the
        components {explicit, unpacked}; aliasing is tracked, so an in-place
        merge (`update_args_dict(m, d, node)` - recognised by what the function
        does, `m.update(d)`, `m |= d`) is seen through every alias while a
        merge into a copy is not.  Every membership test against a keyword map
        - in simplify itself or in a self-helper it calls (read through
        `self.namedargs` or through a parameter; lambdas and comprehensions
        included) - is evaluated at the moment of the call and compared with
        the content of the `namedargs` of the record the path returns.
"""
import ast

from sa.core import rule, AnalysisError
from sa.pyindex import get_module, dotted, src, kwarg, walk_no_nested
from rules import _util_c13c02c10 as U

FN = "pytype/abstract/function.py"
EXPLICIT, UNPACKED, OTHER = "explicit", "unpacked", "other"
_COPY_FUNCS = {"dict", "copy.copy", "collections.OrderedDict"}
_VIEWS = {"set", "frozenset", "list", "tuple", "sorted", "dict", "iter"}
_READERS = _VIEWS | {"len", "bool", "any", "all", "min", "max", "repr", "str", "id",
                     "enumerate", "reversed", "isinstance", "print", "zip", "map", "filter"}
_MUTATORS = {"update", "pop", "popitem", "clear", "setdefault", "__setitem__", "__delitem__"}
_DICT_SOURCE = "starstarargs_as_dict"


def _merge_function(ctx, mod, call):
  """(dst index, src index) if `call` invokes a function that stores every
  item of one parameter into another (`for k, v in src.items(): dst[k] = ..`)."""
  d = dotted(call.func)
  if d is None:
    return None
  target = None
  if "." in d:
    head, name = d.rsplit(".", 1)
    full = mod.imports.get(head)
    if full and full.startswith("pytype"):
      rel = full.replace(".", "/") + ".py"
      if ctx.exists(rel):
        m2 = get_module(ctx, rel)
        target = m2.functions.get(name)
  elif d in mod.functions:
    target = mod.functions[d]
  if target is None:
    return None
  params = [a.arg for a in target.args.posonlyargs + target.args.args]
  for loop in walk_no_nested(target):
    if isinstance(loop, ast.For) and isinstance(loop.iter, ast.Call) and \
        isinstance(loop.iter.func, ast.Attribute) and loop.iter.func.attr == "items" and \
        isinstance(loop.iter.func.value, ast.Name) and loop.iter.func.value.id in params:
      for n in ast.walk(loop):
        if isinstance(n, ast.Assign):
          for t in n.targets:
            if isinstance(t, ast.Subscript) and isinstance(t.value, ast.Name) and \
                t.value.id in params and t.value.id != loop.iter.func.value.id:
              return params.index(t.value.id), params.index(loop.iter.func.value.id)
  return None


class _Helpers:
  """Keyword-map membership tests inside the self-helpers of the record class."""

  def __init__(self, ctx, mod, cname):
    self.ctx, self.mod, self.cname = ctx, mod, cname
    self.memo = {}

  def resolve(self, name):
    try:
      return U.resolve_method(self.mod, self.cname, name)[1]
    except AnalysisError:
      return None

  def source(self, e, h, self_name, depth=0):
    """Where the map `e` read in helper h comes from: 'self' | ('param', name) | None."""
    if depth > 4:
      return None
    if dotted(e) == f"{self_name}.namedargs":
      return "self"
    if isinstance(e, ast.Name):
      params = [a.arg for a in h.args.posonlyargs + h.args.args + h.args.kwonlyargs]
      binds = [n.value for n in walk_no_nested(h) if isinstance(n, (ast.Assign, ast.AnnAssign))
               and n.value is not None
               and any(isinstance(t, ast.Name) and t.id == e.id for t in
                       (n.targets if isinstance(n, ast.Assign) else [n.target]))]
      if not binds:
        return ("param", e.id) if e.id in params[1:] else None
      srcs = {self.source(b, h, self_name, depth + 1) for b in binds
              if not (isinstance(b, ast.Name) and b.id == e.id)}
      if len(srcs) == 1:
        return srcs.pop()
      if srcs - {None}:
        raise AnalysisError(f"{self.cname}.{h.name}: `{e.id}` is bound to several "
                            "keyword maps: not understood")
      return None
    if isinstance(e, ast.Call):
      if dotted(e.func) in (_VIEWS | _COPY_FUNCS) and len(e.args) == 1 and not e.keywords:
        return self.source(e.args[0], h, self_name, depth + 1)
      if isinstance(e.func, ast.Attribute) and e.func.attr in ("copy", "keys") and not e.args:
        return self.source(e.func.value, h, self_name, depth + 1)
    return None

  def reads(self, name, depth=0):
    """[(site, source)] for helper `name`; sources are relative to the helper."""
    if name in self.memo:
      return self.memo[name]
    self.memo[name] = []
    h = self.resolve(name)
    if h is None or not h.args.args:
      return []
    self_name = h.args.args[0].arg
    out = []
    for n in ast.walk(h):
      if isinstance(n, ast.Compare) and len(n.ops) == 1 and \
          isinstance(n.ops[0], (ast.In, ast.NotIn)):
        s = self.source(n.comparators[0], h, self_name)
        if s is not None:
          out.append((f"{self.cname}.{name}: `{src(n)[:40]}`", s))
      elif isinstance(n, ast.Call) and isinstance(n.func, ast.Attribute):
        recv = n.func.value
        if n.func.attr in _MUTATORS and self.source(recv, h, self_name) is not None:
          raise AnalysisError(f"{self.cname}.{name}: `{src(n)[:50]}` mutates a keyword "
                              "map inside a helper: not understood")
        if n.func.attr in ("get", "__contains__") and n.args and \
            self.source(recv, h, self_name) is not None:
          out.append((f"{self.cname}.{name}: `{src(n)[:40]}`", self.source(recv, h, self_name)))
        if isinstance(recv, ast.Name) and recv.id == self_name and depth < 2 and \
            n.func.attr != name and self.resolve(n.func.attr) is not None:
          inner = self.resolve(n.func.attr)
          for site, s in self.reads(n.func.attr, depth + 1):
            if s == "self":
              out.append((site, s))
            else:
              a = _argument(inner, n, s[1])
              s2 = None if a is None else self.source(a, h, self_name)
              if s2 is None:
                raise AnalysisError(f"{site}: the keyword map handed over by "
                                    f"{self.cname}.{name} is not understood")
              out.append((site, s2))
      elif isinstance(n, (ast.Assign, ast.Delete)):
        for t in (n.targets):
          if isinstance(t, ast.Subscript) and self.source(t.value, h, self_name) is not None:
            raise AnalysisError(f"{self.cname}.{name}: `{src(n)[:50]}` mutates a keyword "
                                "map inside a helper: not understood")
    self.memo[name] = out
    return out


def _argument(fn, call, pname):
  params = [a.arg for a in fn.args.posonlyargs + fn.args.args]
  k = kwarg(call, pname)
  if k is not None:
    return k
  if pname in params:
    i = params.index(pname) - 1          # bound method: self is implicit
    if 0 <= i < len(call.args) and not any(isinstance(a, ast.Starred) for a in call.args):
      return call.args[i]
  return None


class _Path:
  """Abstract state of one path through the normaliser."""

  def __init__(self, rule_ctx, mod, cname, fn, helpers):
    self.ctx, self.mod, self.cname, self.fn, self.helpers = rule_ctx, mod, cname, fn, helpers
    self.what = f"{cname}.{fn.name}"
    self.self_name = fn.args.args[0].arg
    self.pts = {}
    self.content = {"self": frozenset({EXPLICIT})}
    self.maybe_none = {"unpacked"}
    self.records = {}
    self.reads = []
    self.n = 0

  # -- objects ------------------------------------------------------------------------
  def new(self, content):
    self.n += 1
    o = f"o{self.n}"
    self.content[o] = frozenset(content)
    return frozenset({o})

  def objs(self, e):
    """Objects the keyword-map expression e may denote, or None."""
    if dotted(e) == f"{self.self_name}.namedargs":
      return frozenset({"self"})
    if isinstance(e, ast.Name):
      return self.pts.get(e.id)
    if isinstance(e, ast.Call):
      d = dotted(e.func)
      if d == f"{self.self_name}.{_DICT_SOURCE}" and not e.args:
        self.content.setdefault("unpacked", frozenset({UNPACKED}))
        return frozenset({"unpacked"})
      if d in _COPY_FUNCS and not e.args and not e.keywords:
        return self.new(())
      if d in _COPY_FUNCS and len(e.args) == 1:
        a = e.args[0]
        if isinstance(a, ast.Call) and isinstance(a.func, ast.Attribute) and \
            a.func.attr == "items" and not a.args:
          a = a.func.value
        base = self.objs(a)
        if base is not None:
          c = set(self.cont(base, e))
          for k in e.keywords:
            if k.arg is None:
              kb = self.objs(k.value)
              if kb is None:
                raise AnalysisError(f"{self.what}: `{src(e)[:60]}` not understood")
              c |= self.cont(kb, e)
            else:
              c.add(OTHER)
          return self.new(c)
        return None
      if isinstance(e.func, ast.Attribute) and e.func.attr == "copy" and not e.args:
        base = self.objs(e.func.value)
        return None if base is None else self.new(self.cont(base, e))
      return None
    if isinstance(e, ast.Dict):
      if not e.keys:
        return self.new(())
      parts = [self.objs(v) for k, v in zip(e.keys, e.values) if k is None]
      if any(p is not None for p in parts):
        if any(p is None for p in parts):
          raise AnalysisError(f"{self.what}: `{src(e)[:60]}` not understood")
        c = set()
        for p in parts:
          c |= self.cont(p, e)
        if any(k is not None for k in e.keys):
          c.add(OTHER)
        return self.new(c)
      return None
    if isinstance(e, ast.BinOp) and isinstance(e.op, ast.BitOr):
      l, r = self.objs(e.left), self.objs(e.right)
      if l is None and r is None:
        return None
      if l is None or r is None:
        raise AnalysisError(f"{self.what}: `{src(e)[:60]}` not understood")
      return self.new(self.cont(l, e) | self.cont(r, e))
    if isinstance(e, ast.DictComp) and len(e.generators) == 1:
      g = e.generators[0]
      if isinstance(g.iter, ast.Call) and isinstance(g.iter.func, ast.Attribute) and \
          g.iter.func.attr == "items" and not g.iter.args:
        base = self.objs(g.iter.func.value)
        if base is not None:
          if g.ifs or not (isinstance(g.target, ast.Tuple) and len(g.target.elts) == 2
                           and src(e.key) == src(g.target.elts[0])):
            raise AnalysisError(f"{self.what}: `{src(e)[:60]}` selects or renames "
                                "keywords: not understood")
          return self.new(self.cont(base, e))
      return None
    if isinstance(e, ast.IfExp):
      t = self.truth(e.test)
      if t is not None:
        return self.objs(e.body if t else e.orelse)
      a, b = self.objs(e.body), self.objs(e.orelse)
      if a is None and b is None:
        return None
      if a is None or b is None:
        raise AnalysisError(f"{self.what}: `{src(e)[:60]}` not understood")
      return a | b
    return None

  def cont(self, objs, at):
    cs = {self.content[o] for o in objs}
    if len(cs) != 1:
      raise AnalysisError(f"{self.what}: `{src(at)[:50]}` may denote keyword maps with "
                          f"different contents {sorted(map(sorted, cs))}")
    return next(iter(cs))

  def truth(self, test):
    """Value of `<map> is None` / `<map> is not None` / `not <..>` when decided."""
    if isinstance(test, ast.UnaryOp) and isinstance(test.op, ast.Not):
      v = self.truth(test.operand)
      return None if v is None else not v
    if isinstance(test, ast.Compare) and len(test.ops) == 1 and \
        isinstance(test.ops[0], (ast.Is, ast.IsNot)) and \
        isinstance(test.comparators[0], ast.Constant) and test.comparators[0].value is None:
      o = self.objs(test.left)
      if o is not None and not (o & self.maybe_none):
        return isinstance(test.ops[0], ast.IsNot)
    return None

  # -- effects --------------------------------------------------------------------------
  def merge(self, dst, srcexpr, at):
    d = self.objs(dst)
    if d is None:
      return False
    s = self.objs(srcexpr)
    add = frozenset({OTHER}) if s is None else self.cont(s, at)
    for o in d:
      self.content[o] = self.content[o] | add
    return True

  def scan(self, node):
    """Reads, helper calls and escapes inside an expression / statement."""
    for n in ast.walk(node):
      if isinstance(n, ast.Compare) and len(n.ops) == 1 and \
          isinstance(n.ops[0], (ast.In, ast.NotIn)):
        c = n.comparators[0]
        while isinstance(c, ast.Call) and (
            (dotted(c.func) in _VIEWS and len(c.args) == 1) or
            (isinstance(c.func, ast.Attribute) and c.func.attr == "keys" and not c.args)):
          c = c.args[0] if c.args else c.func.value
        o = self.objs(c) if isinstance(c, (ast.Name, ast.Attribute)) else None
        if o is not None and "unpacked" not in o:
          self.reads.append((f"{self.what}: `{src(n)[:40]}`", self.cont(o, n)))
      if not isinstance(n, ast.Call):
        continue
      f = n.func
      args = list(n.args) + [k.value for k in n.keywords]
      if isinstance(f, ast.Attribute) and isinstance(f.value, ast.Name) and \
          f.value.id == self.self_name and f.attr != _DICT_SOURCE:
        h = self.helpers.resolve(f.attr)
        if h is not None:
          for site, s in self.helpers.reads(f.attr):
            if s == "self":
              self.reads.append((site, self.content["self"]))
            else:
              a = _argument(h, n, s[1])
              o = None if a is None else self.objs(a)
              if o is None:
                raise AnalysisError(f"{site}: the keyword map handed over by "
                                    f"{self.what} is not understood")
              self.reads.append((site, self.cont(o, n)))
          continue
      tracked_args = [a for a in args if isinstance(a, (ast.Name, ast.Attribute))
                      and self.objs(a) is not None]
      if tracked_args:
        d = dotted(f) or ""
        if d in _READERS or d.split(".")[-1] in ("Args", "evolve", "replace") or \
            _merge_function(self.ctx, self.mod, n) is not None:
          continue
        if isinstance(f, ast.Attribute) and f.attr in ("update",) and self.objs(f.value) is not None:
          continue
        raise AnalysisError(f"{self.what}: `{src(n)[:60]}` hands a keyword map to code "
                            "that is not followed")

  def record(self, e):
    """Content of the namedargs of the call record e constructs, or None."""
    if not isinstance(e, ast.Call):
      return None
    d = dotted(e.func) or ""
    last = d.split(".")[-1]
    if last == self.cname:
      v = kwarg(e, "namedargs")
      if v is None and len(e.args) > 1:
        v = e.args[1]
      if v is None:
        return frozenset()
    elif d in (f"{self.self_name}.replace", "attrs.evolve", "dataclasses.replace"):
      v = kwarg(e, "namedargs")
      if v is None:
        return self.content["self"]
    else:
      return None
    if isinstance(v, ast.Constant) and v.value is None:
      return frozenset()
    o = self.objs(v)
    if o is None:
      raise AnalysisError(f"{self.what}: the keyword map `{src(v)[:60]}` of the returned "
                          "record is not understood")
    return self.cont(o, v)

  def step(self, st):
    if isinstance(st, (ast.Assign, ast.AnnAssign)):
      if st.value is None:
        return
      self.scan(st.value)
      targets = st.targets if isinstance(st, ast.Assign) else [st.target]
      for t in targets:
        if isinstance(t, ast.Name):
          rec = self.record(st.value)
          o = self.objs(st.value)
          self.pts.pop(t.id, None)
          self.records.pop(t.id, None)
          if o is not None:
            self.pts[t.id] = o
          elif rec is not None:
            self.records[t.id] = rec
        elif isinstance(t, ast.Subscript) and self.objs(t.value) is not None:
          for o in self.objs(t.value):
            self.content[o] = self.content[o] | {OTHER}
        else:
          for n in ast.walk(t):
            if isinstance(n, ast.Name) and isinstance(n.ctx, ast.Store):
              self.pts.pop(n.id, None)
              self.records.pop(n.id, None)
            elif isinstance(n, ast.Attribute) and dotted(n) == f"{self.self_name}.namedargs":
              raise AnalysisError(f"{self.what}: the record's own keyword map is re-bound")
      return
    if isinstance(st, ast.AugAssign):
      if isinstance(st.op, ast.BitOr) and self.objs(st.target) is not None:
        self.scan(st.value)
        self.merge(st.target, st.value, st)
        return
      self.scan(st)
      return
    if isinstance(st, ast.Expr) and isinstance(st.value, ast.Call):
      c = st.value
      mf = _merge_function(self.ctx, self.mod, c)
      if mf is not None and len(c.args) > max(mf) and self.merge(c.args[mf[0]], c.args[mf[1]], c):
        return
      if isinstance(c.func, ast.Attribute) and self.objs(c.func.value) is not None:
        if c.func.attr == "update" and len(c.args) == 1 and not c.keywords:
          self.merge(c.func.value, c.args[0], c)
          return
        if c.func.attr in _MUTATORS:
          raise AnalysisError(f"{self.what}: `{src(c)[:60]}` on a keyword map not understood")
    if isinstance(st, ast.Delete):
      for t in st.targets:
        if isinstance(t, ast.Subscript) and self.objs(t.value) is not None:
          raise AnalysisError(f"{self.what}: `{src(st)[:60]}` on a keyword map not understood")
    if isinstance(st, (ast.For, ast.While, ast.Try, ast.Match)):
      feeding = None        # `for k, v in <map>.items():` - the map being copied
      if isinstance(st, ast.For):
        it = st.iter
        if isinstance(it, ast.Call) and isinstance(it.func, ast.Attribute) and \
            it.func.attr in ("items", "keys") and not it.args:
          it = it.func.value
        feeding = self.objs(it)
      for n in ast.walk(st):
        if isinstance(n, ast.Name) and isinstance(n.ctx, ast.Store) and (
            n.id in self.pts or n.id in self.records):
          raise AnalysisError(f"{self.what}: a keyword map is re-bound inside a "
                              f"{type(st).__name__} block: not understood")
        if isinstance(n, ast.Return):
          raise AnalysisError(f"{self.what}: return inside a {type(st).__name__} block")
        if isinstance(n, ast.Call) and isinstance(n.func, ast.Attribute) and \
            n.func.attr in _MUTATORS and self.objs(n.func.value) is not None:
          raise AnalysisError(f"{self.what}: a keyword map is mutated inside a "
                              f"{type(st).__name__} block: not understood")
        if isinstance(n, ast.Delete) and any(
            isinstance(t, ast.Subscript) and self.objs(t.value) is not None
            for t in n.targets):
          raise AnalysisError(f"{self.what}: keywords are deleted inside a "
                              f"{type(st).__name__} block: not understood")
        if isinstance(n, ast.Assign):
          for t in n.targets:
            if isinstance(t, ast.Subscript) and self.objs(t.value) is not None:
              add = self.cont(feeding, st) if feeding is not None else frozenset({OTHER})
              for o in self.objs(t.value):
                self.content[o] = self.content[o] | add
    self.scan(st)


def _touches(node, self_name, names, helpers):
  """Does the if-statement matter for the keyword maps (so that it is forked)?"""
  for n in ast.walk(node):
    if isinstance(n, ast.Return):
      return True
    if isinstance(n, ast.Name) and n.id in names:
      return True
    if dotted(n) == f"{self_name}.namedargs":
      return True
    if isinstance(n, ast.Call) and isinstance(n.func, ast.Attribute) and \
        isinstance(n.func.value, ast.Name) and n.func.value.id == self_name and \
        n.func.attr != _DICT_SOURCE and helpers.reads(n.func.attr):
      return True
  return False


def _paths(ctx):
  mod = get_module(ctx, FN)
  cname = "Args"
  owner, fn = U.resolve_method(mod, cname, "simplify")
  if not fn.args.args:
    raise AnalysisError("Args.simplify has no self parameter")
  self_name = fn.args.args[0].arg
  # the record's own keyword map is a dict (never None): the attrs converter
  conv = mod.class_attr(cname, "namedargs")
  if conv is None or "converter" not in src(conv):
    raise AnalysisError("Args.namedargs is no longer declared with a converter: whether "
                        "it can be None is not known")
  helpers = _Helpers(ctx, mod, cname)
  # names that matter for forking: every local ever bound in simplify from a
  # keyword-map expression (computed by a pre-pass with a throw-away state)
  names = {"namedargs"}
  changed = True
  while changed:
    changed = False
    for n in walk_no_nested(fn):
      if isinstance(n, ast.Assign) and len(n.targets) == 1 and isinstance(n.targets[0], ast.Name):
        mentions = any((isinstance(x, ast.Name) and x.id in names) or
                       dotted(x) in (f"{self_name}.namedargs",) or
                       (isinstance(x, ast.Call) and dotted(x.func) == f"{self_name}.{_DICT_SOURCE}")
                       for x in ast.walk(n.value))
        if mentions and n.targets[0].id not in names:
          names.add(n.targets[0].id)
          changed = True

  def fork(ifst):
    return _touches(ifst, self_name, names, helpers)
  out = []
  for path in U.linear_paths(U._strip_doc(fn.body), fork=fork, what="Args.simplify"):
    p = _Path(ctx, mod, cname, fn, helpers)
    feasible, final, conds = True, None, []
    for step in path:
      if step[0] == "test":
        t = p.truth(step[1])
        if t is not None and t != step[2]:
          feasible = False
          break
        p.scan(step[1])
        # `d is None` taken: the unpacked dict does not exist on this path
        if isinstance(step[1], ast.Compare) and len(step[1].ops) == 1 and \
            isinstance(step[1].ops[0], (ast.Is, ast.IsNot)) and \
            isinstance(step[1].left, ast.Name) and \
            p.pts.get(step[1].left.id) == frozenset({"unpacked"}) and \
            isinstance(step[1].ops[0], ast.Is) == step[2]:
          p.pts.pop(step[1].left.id)
        conds.append(("" if step[2] else "not ") + f"({src(step[1])[:50]})")
      elif step[0] == "stmt":
        p.step(step[1])
      elif step[0] == "with":
        for i in step[1].items:
          p.scan(i.context_expr)
      else:
        kind, node = step[1], step[2]
        if kind == "raise":
          feasible = False
          break
        if kind != "return" or node.value is None:
          raise AnalysisError(f"Args.simplify: a path ends with `{kind}` instead of "
                              "returning a call record")
        p.scan(node.value)
        v = node.value
        final = p.records.get(v.id) if isinstance(v, ast.Name) else p.record(v)
        if final is None:
          raise AnalysisError(f"Args.simplify: `{src(node)[:60]}` does not return a "
                              "call record built in a way that is understood")
    if feasible:
      merged = any(UNPACKED in c for o, c in p.content.items() if o != "unpacked")
      out.append((" and ".join(conds) or "always", p.reads, final, merged))
  if not out:
    raise AnalysisError("Args.simplify: no feasible path")
  return mod, fn, out


@rule("R13.24", "C13", floor=2)
def r13_24(ctx):
  """Splat expansion and returned record see the same keyword names."""
  mod, fn, paths = _paths(ctx)
  sites = {}
  for when, reads, final, merged in paths:
    for site, content in reads:
      s = sites.setdefault(site, [])
      if content != final:
        missing, extra = sorted(final - content), sorted(content - final)
        s.append(f"when {when}: the test sees {sorted(content)} keywords but the "
                 f"returned record holds {sorted(final)}"
                 + (f" (misses the {'/'.join(missing)} ones)" if missing else "")
                 + (f" (sees {'/'.join(extra)} ones the record drops)" if extra else ""))
  if not sites:
    raise AnalysisError("Args.simplify: no keyword-map membership test found in the "
                        "normaliser or its self-helpers (the splat expansion no longer "
                        "asks which parameters are passed by keyword?)")
  by_helper = {}
  for site, probs in sites.items():
    by_helper.setdefault(site.split(":")[0], []).extend(probs)
  for hname, probs in sorted(by_helper.items()):
    ctx.check(not probs, f"{hname}:keyword-test-sees-returned-keywords", FN, fn.lineno,
              "the splat expansion must ask about exactly the keywords of the record "
              "that simplify returns: " + "; ".join(probs[:2]),
              {"tests": sorted(s for s in sites if s.startswith(hname))})
  lost = [when for when, _, final, merged in paths if merged and UNPACKED not in final]
  never = not any(UNPACKED in final for _, _, final, _ in paths)
  ctx.check(not lost and not never, "Args.simplify:unpacked-keywords-reach-the-record",
            FN, fn.lineno,
            "the keywords unpacked from the `**` dictionary must be part of the "
            "returned record's namedargs"
            + (f"; lost when {lost[:2]}" if lost else "; no path merges them"),
            {"paths": [{"when": w, "returned": sorted(f), "tests": len(r)}
                       for w, r, f, _ in paths][:12]})


_MERGE = ("      if namedargs is None:\n        namedargs = {}\n"
          "      abstract_utils.update_args_dict(namedargs, starstarargs_as_dict, node)\n")
_CALL = ("        posargs, starargs = self._unpack_and_match_args(\n"
         "            node, ctx, match_signature, starargs_as_tuple\n        )\n")
_SIG = ("      match_signature: Signature,\n"
        "      starargs_tuple: tuple[cfg.Variable, ...],\n"
        "  ) -> tuple[tuple[cfg.Variable, ...], cfg.Variable | None]:\n"
        "    \"\"\"Match args against a signature with unpacking.\"\"\"\n"
        "    posargs = self.posargs\n    namedargs = self.namedargs\n")

VARIANTS = [
    {"name": "seeded-C13-r3m2", "rule": "R13.24", "patch": "seeded/C13-r3m2/patch.diff",
     "expect": "fire"},
    {"name": "merge-into-unpacked-literal", "rule": "R13.24", "file": FN, "expect": "fire",
     "old": _MERGE,
     "new": "      namedargs = {**namedargs, **starstarargs_as_dict}\n"},
    {"name": "expansion-before-the-merge", "rule": "R13.24", "expect": "fire",
     "edits": [
         (FN, "    starstarargs_as_dict = self.starstarargs_as_dict()\n"
              "    if starstarargs_as_dict is not None:\n",
          "    starargs_as_tuple = self.starargs_as_tuple(node, ctx)\n"
          "    expanded = None\n"
          "    if starargs_as_tuple is not None and match_signature:\n"
          "      expanded = self._unpack_and_match_args(\n"
          "          node, ctx, match_signature, starargs_as_tuple\n"
          "      )\n"
          "    starstarargs_as_dict = self.starstarargs_as_dict()\n"
          "    if starstarargs_as_dict is not None:\n"),
         (FN, "    starargs_as_tuple = self.starargs_as_tuple(node, ctx)\n"
              "    if starargs_as_tuple is not None:\n      if match_signature:\n" + _CALL,
          "    if starargs_as_tuple is not None:\n      if match_signature:\n"
          "        posargs, starargs = expanded\n")]},
    {"name": "helper-reads-a-stale-snapshot", "rule": "R13.24", "expect": "fire",
     "edits": [
         (FN, _MERGE, "      namedargs = dict(namedargs)\n      namedargs.update(starstarargs_as_dict)\n"),
         (FN, _CALL, "        posargs, starargs = self._unpack_and_match_args(\n"
                     "            node, ctx, match_signature, starargs_as_tuple, self.namedargs\n        )\n"),
         (FN, _SIG, _SIG.replace("  ) -> tuple[tuple", "      namedargs: dict[str, cfg.Variable],\n  ) -> tuple[tuple")
                        .replace("    namedargs = self.namedargs\n", ""))]},
    {"name": "twin-merged-copy-handed-to-helper", "rule": "R13.24", "expect": "silent",
     "edits": [
         (FN, _MERGE, "      namedargs = dict(namedargs)\n      namedargs.update(starstarargs_as_dict)\n"),
         (FN, _CALL, "        posargs, starargs = self._unpack_and_match_args(\n"
                     "            node, ctx, match_signature, starargs_as_tuple, namedargs\n        )\n"),
         (FN, _SIG, _SIG.replace("  ) -> tuple[tuple", "      namedargs: dict[str, cfg.Variable],\n  ) -> tuple[tuple")
                        .replace("    namedargs = self.namedargs\n", ""))]},
    {"name": "twin-in-place-update-method", "rule": "R13.24", "file": FN, "expect": "silent",
     "old": _MERGE,
     "new": "      for name, value in starstarargs_as_dict.items():\n"
            "        if name in namedargs:\n          namedargs[name].PasteVariable(value, node)\n"
            "        else:\n          namedargs[name] = value\n"},
    {"name": "twin-helper-reads-keys-view", "rule": "R13.24", "file": FN, "expect": "silent",
     "old": "    posargs = self.posargs\n    namedargs = self.namedargs\n    # As we have the function signature",
     "new": "    posargs = self.posargs\n    namedargs = set(self.namedargs.keys())\n    # As we have the function signature"},
    {"name": "twin-none-guard-dropped", "rule": "R13.24", "file": FN, "expect": "silent",
     "old": _MERGE,
     "new": "      abstract_utils.update_args_dict(namedargs, starstarargs_as_dict, node)\n"},
]
