"""C15 extension (R15.28): an element read `<x>.<S>[i]` whose index ranges over
the length of ANOTHER object is preceded by a length agreement on every path.

Some abstract values mirror the length of a sequence field in a second field
(`self.tuple_length = len(self.pyval)` in abstract.Tuple; the pairs are
re-derived from pytype/abstract/_instances.py).  A loop `for i in
range(<N>)` that reads `<x>.<S>[i]` is safe on its own when <N> is the length
of the same <x> (`<x>.<L>` / `len(<x>.<S>)`).  When <N> is the length of a
different object <y>, the read has the precondition `len(<x>.<S>) ==
len(<y>.<S>)`; nothing in the VM catches IndexError, so a violated
precondition leaves io.generate_pyi as an internal failure.

The rule decides, for every such read in the VM-layer modules:
  own length      <N> is the length of <x> itself;
  local agreement the path condition of the loop contains `<x>.<L> ==
                  <y>.<L>` (either order, `len(.<S>)` spelling allowed);
  uniform group   <x> is the target of an enclosing `for <x> in <C>` and <y>
                  is `<C>[k]`: all elements of <C> must have the same <L>.
                  That is established by a *uniformity test* of <C> in the
                  path condition - inline (`all(d.<L> == <C>[k].<L> for d in
                  <C>)`, `len({d.<L> for d in <C>}) == 1`) or through
                  module-local predicates whose every truthy return entails
                  it - and, when <C> hangs off a parameter of a private
                  module-level function and the function does not test it
                  itself, the obligation moves to EVERY call site: the path
                  condition of the call must contain the uniformity test of
                  the argument, evaluated after the last re-binding of the
                  argument's names (must-dataflow).
"""
import ast

from sa.core import rule, AnalysisError
from sa.pyindex import get_module, src, walk_no_nested
from sa import flow

MIRROR_FILE = "pytype/abstract/_instances.py"
SCOPE = ("pytype/vm_utils.py", "pytype/vm.py", "pytype/tracer_vm.py",
         "pytype/matcher.py", "pytype/pattern_matching.py")


# -- mirrored length fields ------------------------------------------------------

def mirrored_pairs(ctx):
  """[(L, S, class)] for every `self.L = len(self.S)` of MIRROR_FILE."""
  mod = get_module(ctx, MIRROR_FILE)
  out = []
  for cname in mod.classes:
    for fn in mod.methods(cname).values():
      for n in walk_no_nested(fn):
        if isinstance(n, ast.Assign) and len(n.targets) == 1 and _self_attr(n.targets[0]) \
            and isinstance(n.value, ast.Call) and isinstance(n.value.func, ast.Name) \
            and n.value.func.id == "len" and len(n.value.args) == 1 and _self_attr(n.value.args[0]):
          out.append((_self_attr(n.targets[0]), _self_attr(n.value.args[0]), cname, n.lineno))
  return out


def _self_attr(e):
  if isinstance(e, ast.Attribute) and isinstance(e.value, ast.Name) and e.value.id == "self":
    return e.attr
  return None


# -- expression shapes -------------------------------------------------------------

def _length_of(e, pairs):
  """(owner expr, L) when e is `<owner>.L` or `len(<owner>.S)` for a mirrored pair."""
  if isinstance(e, ast.Attribute):
    for L, S in pairs:
      if e.attr == L:
        return e.value, L
  if isinstance(e, ast.Call) and isinstance(e.func, ast.Name) and e.func.id == "len" \
      and len(e.args) == 1 and not e.keywords and isinstance(e.args[0], ast.Attribute):
    for L, S in pairs:
      if e.args[0].attr == S:
        return e.args[0].value, L
  return None


def _mentions(e, pairs):
  names = {x for p in pairs for x in p}
  return any(isinstance(n, ast.Attribute) and n.attr in names for n in ast.walk(e))


def _conjuncts(test, pol=True):
  while isinstance(test, ast.UnaryOp) and isinstance(test.op, ast.Not):
    test, pol = test.operand, not pol
  if isinstance(test, ast.BoolOp):
    if (isinstance(test.op, ast.And) and pol) or (isinstance(test.op, ast.Or) and not pol):
      return [c for v in test.values for c in _conjuncts(v, pol)]
    return []
  return [test] if pol else []


def _elem_index(e):
  """C for `C[<int constant>]`."""
  if isinstance(e, ast.Subscript) and isinstance(e.slice, ast.Constant) \
      and isinstance(e.slice.value, int) and not isinstance(e.slice.value, bool):
    return e.value
  return None


def uniform_expr(e, pairs, where):
  """(collection source, L) when e (asserted true) says that all elements of a
  collection have the same L; None when e says nothing about lengths.
  AnalysisError when e talks about the length fields in a shape that is not
  understood."""
  got = _uniform_expr(e, pairs)
  if got is None and _mentions(e, pairs) and not _is_call_of_local(e):
    raise AnalysisError(f"{where}: `{src(e)[:90]}` reads a mirrored length field in a shape the "
                        "rule cannot decide (uniformity test?)")
  return got


def _is_call_of_local(e):
  return isinstance(e, ast.Call) and isinstance(e.func, ast.Name) and e.func.id not in ("all", "any", "len")


def _uniform_expr(e, pairs):
  # all(d.L == C[k].L for d in C)
  if isinstance(e, ast.Call) and isinstance(e.func, ast.Name) and e.func.id == "all" \
      and len(e.args) == 1 and isinstance(e.args[0], (ast.GeneratorExp, ast.ListComp)):
    g = e.args[0]
    if len(g.generators) != 1 or g.generators[0].ifs or not isinstance(g.generators[0].target, ast.Name):
      return None
    d, coll = g.generators[0].target.id, g.generators[0].iter
    c = g.elt
    if isinstance(c, ast.Compare) and len(c.ops) == 1 and isinstance(c.ops[0], ast.Eq):
      a, b = _length_of(c.left, pairs), _length_of(c.comparators[0], pairs)
      if a and b and a[1] == b[1]:
        for x, y in ((a, b), (b, a)):
          if isinstance(x[0], ast.Name) and x[0].id == d and _elem_index(y[0]) is not None \
              and src(_elem_index(y[0])) == src(coll):
            return src(coll), a[1]
    return None
  # len({d.L for d in C}) == 1   /  <= 1  /  < 2
  if isinstance(e, ast.Compare) and len(e.ops) == 1 and isinstance(e.left, ast.Call) \
      and isinstance(e.left.func, ast.Name) and e.left.func.id == "len" and len(e.left.args) == 1 \
      and isinstance(e.comparators[0], ast.Constant):
    k, op = e.comparators[0].value, e.ops[0]
    if not ((isinstance(op, (ast.Eq, ast.LtE)) and k == 1) or (isinstance(op, ast.Lt) and k == 2)):
      return None
    s = e.left.args[0]
    if isinstance(s, ast.Call) and isinstance(s.func, ast.Name) and s.func.id in ("set", "frozenset") \
        and len(s.args) == 1 and isinstance(s.args[0], (ast.GeneratorExp, ast.ListComp, ast.SetComp)):
      s = s.args[0]
    elif not isinstance(s, ast.SetComp):
      return None
    if len(s.generators) != 1 or s.generators[0].ifs or not isinstance(s.generators[0].target, ast.Name):
      return None
    ln = _length_of(s.elt, pairs)
    if ln and isinstance(ln[0], ast.Name) and ln[0].id == s.generators[0].target.id:
      return src(s.generators[0].iter), ln[1]
  return None


# -- predicates ----------------------------------------------------------------------

class Predicates:
  """Which module-level functions entail a uniformity fact when they return a
  truthy value: name -> {(param index, relative path e.g. '.data', L)}."""

  def __init__(self, mod, rel, pairs):
    self.mod, self.rel, self.pairs = mod, rel, pairs
    self._memo = {}

  def facts_of_conjunct(self, c, where, depth=0):
    """{(collection source, L)} entailed by the conjunct c (asserted true)."""
    got = uniform_expr(c, self.pairs, where)
    if got:
      return {got}
    out = set()
    if isinstance(c, ast.Call) and isinstance(c.func, ast.Name) and c.func.id in self.mod.functions:
      if any(isinstance(a, ast.Starred) for a in c.args) or any(k.arg is None for k in c.keywords):
        return out
      callee = self.mod.functions[c.func.id]
      params = [a.arg for a in callee.args.posonlyargs + callee.args.args]
      for idx, relpath, L in self.summary(c.func.id, depth + 1):
        a = c.args[idx] if idx < len(c.args) else next(
            (k.value for k in c.keywords if k.arg == params[idx]), None)
        if a is not None:
          out.add((src(a) + relpath, L))
    return out

  def summary(self, name, depth=0):
    if name in self._memo:
      return self._memo[name]
    if depth > 4:
      return set()
    self._memo[name] = set()   # recursion guard
    fn = self.mod.functions[name]
    params = [a.arg for a in fn.args.posonlyargs + fn.args.args]
    stored = {n.id for n in walk_no_nested(fn) if isinstance(n, ast.Name) and isinstance(n.ctx, ast.Store)}
    result = None
    rets = [n for n in walk_no_nested(fn) if isinstance(n, ast.Return)]
    for r in rets:
      v = r.value
      if v is None or (isinstance(v, ast.Constant) and not v.value):
        continue   # a falsy return entails nothing and promises nothing
      cs = list(_conjuncts(v, True))
      for t, p in flow.guards(self.mod.parent, r, stop=fn):
        cs += _conjuncts(t, p)
      facts = set()
      for c in cs:
        for coll, L in self.facts_of_conjunct(c, f"{self.rel}:{name}", depth):
          for i, p in enumerate(params):
            if p in stored:
              continue
            if coll == p or coll.startswith(p + ".") or coll.startswith(p + "["):
              facts.add((i, coll[len(p):], L))
      result = facts if result is None else (result & facts)
    self._memo[name] = result or set()
    return self._memo[name]


# -- sites ---------------------------------------------------------------------------

def _qual(mod, fn):
  for cname in mod.classes:
    for mname, f in mod.methods(cname).items():
      if f is fn:
        return f"{cname}.{mname}"
  return fn.name


def _once_bound(fn, name):
  """The value of the only binding of `name` in fn (None if it is not a plain once-bound local)."""
  stores = [n for n in ast.walk(fn) if isinstance(n, ast.Name) and n.id == name
            and isinstance(n.ctx, ast.Store)]
  if len(stores) != 1:
    return None
  return stores[0]


def _range_loops(fn):
  """(loop node [For | comprehension], index name, bound expr, body nodes)."""
  for n in ast.walk(fn):
    if isinstance(n, ast.For):
      it, tgt, body = n.iter, n.target, n.body + n.orelse
    elif isinstance(n, (ast.ListComp, ast.SetComp, ast.GeneratorExp, ast.DictComp)):
      for g in n.generators:
        if _is_range(g.iter):
          elts = [n.key, n.value] if isinstance(n, ast.DictComp) else [n.elt]
          yield n, g.target, g.iter, elts + g.ifs
      continue
    else:
      continue
    if _is_range(it):
      yield n, tgt, it, body


def _is_range(e):
  return isinstance(e, ast.Call) and isinstance(e.func, ast.Name) and e.func.id == "range"


def _reads(body, idx, seq_fields):
  out = []
  for b in body:
    for m in ast.walk(b):
      if isinstance(m, ast.Subscript) and isinstance(m.slice, ast.Name) and m.slice.id == idx \
          and isinstance(m.value, ast.Attribute) and m.value.attr in seq_fields:
        out.append(m)
  return out


def _enclosing_for_of(mod, node, name, fn):
  cur = node
  while cur is not fn and cur in mod.parent:
    cur = mod.parent[cur]
    if isinstance(cur, ast.For) and isinstance(cur.target, ast.Name) and cur.target.id == name:
      return cur
  return None


def _path_conjuncts(mod, stmt, fn):
  out = []
  for t, p in flow.guards(mod.parent, stmt, stop=fn):
    out += _conjuncts(t, p)
  return out


def _check_function(ctx, rel, mod, fn, pairs, preds, requirements):
  qual = _qual(mod, fn)
  seq_fields = {S for _, S in pairs}
  for loop, tgt, it, body in _range_loops(fn):
    if not isinstance(tgt, ast.Name):
      continue
    reads = _reads(body, tgt.id, seq_fields)
    if not reads:
      continue
    if len(it.args) != 1 or it.keywords:
      raise AnalysisError(f"{rel}:{qual}: `{src(it)}` bounds an index into a mirrored sequence "
                          "field; only range(<length>) is understood")
    bound = it.args[0]
    if isinstance(bound, ast.Name):
      st = _once_bound(fn, bound.id)
      par = mod.parent.get(st) if st is not None else None
      if not (isinstance(par, ast.Assign) and len(par.targets) == 1 and par.targets[0] is st):
        raise AnalysisError(f"{rel}:{qual}: the loop bound `{bound.id}` is not a once-bound local")
      bound = par.value
    ln = _length_of(bound, pairs)
    if ln is None:
      raise AnalysisError(f"{rel}:{qual}: the bound `{src(bound)[:60]}` of an index into "
                          f"`{src(reads[0])}` is not the mirrored length of an object")
    owner, L = ln
    stmt = mod.enclosing_stmt(loop)
    for r in reads:
      x = r.value.value
      xs, S = src(x), r.value.attr
      if (L, S) not in pairs:
        raise AnalysisError(f"{rel}:{qual}: `{src(r)}` is bounded by `.{L}`, which mirrors another field")
      construct = f"indexed-read:{qual}:{xs}.{S}"
      facts = {"bound": src(bound), "index": tgt.id}
      if xs == src(owner):
        ctx.ok(construct, rel, r.lineno, dict(facts, kind="own length"))
        continue
      # local agreement `x.L == owner.L` on the path
      agreed = False
      for c in _path_conjuncts(mod, stmt, fn):
        if isinstance(c, ast.Compare) and len(c.ops) == 1 and isinstance(c.ops[0], ast.Eq):
          a, b = _length_of(c.left, pairs), _length_of(c.comparators[0], pairs)
          if a and b and a[1] == b[1] == L and {src(a[0]), src(b[0])} == {xs, src(owner)}:
            agreed = True
      if agreed:
        ctx.ok(construct, rel, r.lineno, dict(facts, kind="lengths compared on the path"))
        continue
      # uniform group: x iterates over C and the bound is the length of C[k]
      outer = _enclosing_for_of(mod, loop, xs, fn) if isinstance(x, ast.Name) else None
      coll = _elem_index(owner)
      if outer is None or coll is None or src(outer.iter) != src(coll):
        ctx.bad(construct, rel, r.lineno,
                f"`{src(r)}` is read for every {tgt.id} < {src(bound)} - the length of another "
                f"object - and no path condition establishes {xs}.{L} == {src(owner)}.{L}: a "
                "shorter sequence raises IndexError, which nothing catches before it leaves the "
                "analysis", facts)
        continue
      coll_s = src(coll)
      est = None
      for c in _path_conjuncts(mod, mod.enclosing_stmt(outer), fn):
        if (coll_s, L) in preds.facts_of_conjunct(c, f"{rel}:{qual}"):
          est = src(c)
      if est:
        ctx.ok(construct, rel, r.lineno, dict(facts, kind="uniform group tested locally", test=est[:80]))
        continue
      params = [a.arg for a in fn.args.posonlyargs + fn.args.args]
      root = next((p for p in params if coll_s == p or coll_s.startswith(p + ".") or coll_s.startswith(p + "[")), None)
      stored = {n.id for n in ast.walk(fn) if isinstance(n, ast.Name) and isinstance(n.ctx, ast.Store)}
      if root is None or root in stored:
        ctx.bad(construct, rel, r.lineno,
                f"`{src(r)}` is read for every {tgt.id} < {src(bound)} (the length of one element "
                f"of {coll_s}) for every element {xs} of {coll_s}, and nothing on the path "
                f"establishes that all elements of {coll_s} have the same .{L}", facts)
        continue
      requirements.append((fn, params.index(root), coll_s[len(root):], L, r))
      ctx.ok(construct, rel, r.lineno,
             dict(facts, kind="uniform group required from every caller",
                  requires=f"all elements of {coll_s} agree on .{L}"))


def _check_callers(ctx, rel, mod, preds, pairs, fn, pidx, relpath, L, read):
  name = fn.name
  if fn not in mod.functions.values():
    raise AnalysisError(f"{rel}:{_qual(mod, fn)}: a method relies on its callers for a length "
                        "agreement; only module-level functions are followed")
  if not name.startswith("_"):
    raise AnalysisError(f"{rel}:{name}: a public function relies on its callers for a length "
                        "agreement; callers outside the module are not followed")
  params = [a.arg for a in fn.args.posonlyargs + fn.args.args]
  refs = [n for n in ast.walk(mod.tree) if isinstance(n, ast.Name) and n.id == name
          and isinstance(n.ctx, ast.Load)]
  if not refs:
    raise AnalysisError(f"{rel}:{name}: no caller found")
  for ref in refs:
    call = mod.parent.get(ref)
    if not (isinstance(call, ast.Call) and call.func is ref):
      raise AnalysisError(f"{rel}:{ref.lineno}: {name} is used as a value; its callers cannot be enumerated")
    if any(isinstance(a, ast.Starred) for a in call.args) or any(k.arg is None for k in call.keywords):
      raise AnalysisError(f"{rel}:{call.lineno}: {name} called with star arguments")
    arg = call.args[pidx] if pidx < len(call.args) else next(
        (k.value for k in call.keywords if k.arg == params[pidx]), None)
    if arg is None:
      raise AnalysisError(f"{rel}:{call.lineno}: {name} called without its `{params[pidx]}` argument")
    g = mod.enclosing_function(call)
    if g is None:
      raise AnalysisError(f"{rel}:{call.lineno}: {name} called at module level")
    gq = _qual(mod, g)
    want = (src(arg) + relpath, L)
    stmt = mod.enclosing_stmt(call)
    where = f"{rel}:{gq}"

    def evaluates(unit):
      for n in ast.walk(unit):
        if isinstance(n, (ast.Call, ast.Compare)):
          try:
            if want in preds.facts_of_conjunct(n, where):
              return True
          except AnalysisError:
            pass
      return False

    est = None
    for c in _path_conjuncts(mod, stmt, g):
      cands = [c]
      if isinstance(c, ast.Name):
        st = _once_bound(g, c.id)
        par = mod.parent.get(st) if st is not None else None
        if isinstance(par, ast.Assign) and len(par.targets) == 1:
          cands = _conjuncts(par.value, True)
      for cc in cands:
        if want in preds.facts_of_conjunct(cc, where):
          est = src(cc)
    names = {n.id for n in ast.walk(arg) if isinstance(n, ast.Name)}
    f = flow.flow(g, lambda u: {"current"} if evaluates(u) else None,
                  lambda u: {"current"} if any(
                      isinstance(n, ast.Name) and isinstance(n.ctx, (ast.Store, ast.Del)) and n.id in names
                      for n in ast.walk(u)) else None, mode="must")
    if stmt not in f.before:
      raise AnalysisError(f"{where}: the statement calling {name} was not reached by the dataflow")
    current = f.before[stmt] is not None and "current" in f.before[stmt]
    construct = f"length-agreement-at-call:{gq}:{name}"
    facts = {"argument": src(arg), "requires": f"all elements of {want[0]} agree on .{L}",
             "established_by": est}
    if not est:
      ctx.bad(construct, rel, call.lineno,
              f"{name} reads `{src(read)}` of every element of {params[pidx]}{relpath} up to the "
              f".{L} of ONE of them and does not compare the lengths itself; the path condition of "
              f"this call does not establish that all elements of {want[0]} have the same .{L} "
              "(neither inline nor through a predicate whose truthy result entails it): a shorter "
              "element raises IndexError, which nothing catches before it leaves the analysis", facts)
    elif not current:
      ctx.bad(construct, rel, call.lineno,
              f"the uniformity test ({est[:60]}) is not evaluated after the last re-binding of "
              f"{sorted(names)} on every path to the call of {name}", facts)
    else:
      ctx.ok(construct, rel, call.lineno, facts)


@rule("R15.28", "C15", floor=4)
def r15_28(ctx):
  """Index reads bounded by another object's length follow a length agreement."""
  found = mirrored_pairs(ctx)
  if not found:
    raise AnalysisError(f"{MIRROR_FILE}: no field mirrors the length of a sequence field "
                        "(`self.L = len(self.S)`): the premise of the rule is gone")
  pairs = sorted({(L, S) for L, S, _, _ in found})
  for L, S, cname, line in found:
    ctx.ok(f"mirrored-length:{cname}.{L}", MIRROR_FILE, line, {"mirrors": f"len(self.{S})"})
  sites = 0
  for rel in SCOPE:
    text = ctx.read(rel)
    if not any(f".{S}[" in text for _, S in pairs):
      continue
    mod = get_module(ctx, rel)
    preds = Predicates(mod, rel, pairs)
    requirements = []
    fns = list(mod.functions.values()) + [f for c in mod.classes for f in mod.methods(c).values()]
    for fn in fns:
      _check_function(ctx, rel, mod, fn, pairs, preds, requirements)
    for fn, pidx, relpath, L, read in requirements:
      _check_callers(ctx, rel, mod, preds, pairs, fn, pidx, relpath, L, read)
      sites += 1
  if not sites:
    raise AnalysisError("no function reads a mirrored sequence field up to the length of a sibling "
                        "element any more: re-derive the obligation")


VMU = "pytype/vm_utils.py"
MAT = "pytype/matcher.py"
_PRED = ("  return all(isinstance(d, abstract.Tuple) for d in var.data) and all(\n"
         "      d.tuple_length == var.data[0].tuple_length for d in var.data\n"
         "  )\n")
_MERGE = ("  length = var.data[0].tuple_length\n"
          "  seq = [ctx.program.NewVariable() for _ in range(length)]\n"
          "  for tup in var.data:\n"
          "    for i in range(length):\n"
          "      seq[i].PasteVariable(tup.pyval[i])\n")

VARIANTS = [
    {"name": "seeded-C15-r4m2", "rule": "R15.28", "patch": "seeded/C15-r4m2/patch.diff",
     "expect": "fire"},
    # the caller tests only the kind of the bindings
    {"name": "unpack-merges-after-isinstance-only", "rule": "R15.28", "file": VMU, "expect": "fire",
     "old": "    elif _var_is_fixed_length_tuple(var):\n",
     "new": "    elif all(isinstance(d, abstract.Tuple) for d in var.data):\n"},
    # the test sits in a disjunction: it is not asserted on the path
    {"name": "unpack-merges-under-disjunction", "rule": "R15.28", "file": VMU, "expect": "fire",
     "old": "    elif _var_is_fixed_length_tuple(var):\n",
     "new": "    elif _var_is_fixed_length_tuple(var) or len(var.data) > 1:\n"},
    # the predicate is asked about another variable
    {"name": "unpack-tests-another-variable", "rule": "R15.28", "file": VMU, "expect": "fire",
     "old": "    elif _var_is_fixed_length_tuple(var):\n",
     "new": "    elif _var_is_fixed_length_tuple(elements and elements[0] or var):\n"},
    # the predicate returns early with True for the common case without looking at lengths
    {"name": "predicate-early-true", "rule": "R15.28", "file": VMU, "expect": "fire",
     "old": _PRED,
     "new": ("  if all(isinstance(d, abstract.Tuple) for d in var.data) and len(var.data) < 3:\n"
             "    return True\n" + _PRED)},
    # matcher: the bound is taken from the class and the comparison is gone
    {"name": "matcher-bound-from-class-without-compare", "rule": "R15.28", "file": MAT,
     "expect": "fire",
     "old": ("        if instance.tuple_length == other_type.tuple_length:\n"
             "          for i in range(instance.tuple_length):\n"),
     "new": ("        if other_type.tuple_length:\n"
             "          for i in range(other_type.tuple_length):\n")},
    # twins
    {"name": "twin-uniformity-by-set-size", "rule": "R15.28", "file": VMU, "expect": "silent",
     "old": _PRED,
     "new": ("  return all(isinstance(d, abstract.Tuple) for d in var.data) and (\n"
             "      len({d.tuple_length for d in var.data}) <= 1\n"
             "  )\n")},
    {"name": "twin-guard-inline-in-caller", "rule": "R15.28", "file": VMU, "expect": "silent",
     "old": "    elif _var_is_fixed_length_tuple(var):\n",
     "new": ("    elif all(isinstance(d, abstract.Tuple) for d in var.data) and all(\n"
             "        len(d.pyval) == len(var.data[0].pyval) for d in var.data\n"
             "    ):\n")},
    {"name": "twin-predicate-split-into-helpers", "rule": "R15.28", "file": VMU, "expect": "silent",
     "old": _PRED,
     "new": ("  if not all(isinstance(d, abstract.Tuple) for d in var.data):\n"
             "    return False\n"
             "  return _same_tuple_length(var)\n\n\n"
             "def _same_tuple_length(v):\n"
             "  return all(v.data[0].tuple_length == t.tuple_length for t in v.data)\n")},
    {"name": "twin-merge-renamed-locals-len-spelling", "rule": "R15.28", "file": VMU,
     "expect": "silent", "old": _MERGE,
     "new": ("  n = len(var.data[0].pyval)\n"
             "  seq = [ctx.program.NewVariable() for _ in range(n)]\n"
             "  for t in var.data:\n"
             "    for k in range(n):\n"
             "      seq[k].PasteVariable(t.pyval[k])\n")},
    {"name": "twin-matcher-bound-from-class-after-compare", "rule": "R15.28", "file": MAT,
     "expect": "silent",
     "old": ("        if instance.tuple_length == other_type.tuple_length:\n"
             "          for i in range(instance.tuple_length):\n"),
     "new": ("        if other_type.tuple_length == instance.tuple_length:\n"
             "          for i in range(other_type.tuple_length):\n")},
    {"name": "twin-flag-bound-once-in-caller", "rule": "R15.28", "expect": "silent",
     "edits": [(VMU, "    if abstract_utils.is_var_indefinite_iterable(var):\n      elements.append(abstract.Splat(ctx, var).to_variable(node))\n    elif _var_is_fixed_length_tuple(var):\n",
                "    same_length_tuples = _var_is_fixed_length_tuple(var)\n"
                "    if abstract_utils.is_var_indefinite_iterable(var):\n      elements.append(abstract.Splat(ctx, var).to_variable(node))\n    elif same_length_tuples:\n")]},
    # a length comparison the rule cannot read is refused, not guessed
    {"name": "predicate-compares-with-unknown-shape", "rule": "R15.28", "file": VMU, "expect": "error",
     "old": "      d.tuple_length == var.data[0].tuple_length for d in var.data\n",
     "new": "      d.tuple_length >= var.data[0].tuple_length for d in var.data\n"},
]
