"""C08 / R8.7 - a value memoised inside a graph record is dropped by every
writer of the state it was computed from.

A field of a graph record (Variable, Binding, CFGNode, Program, ...) that a
`const` method of the record writes is a memo (it has to be `mutable`): the
method fills it from other fields of the same record (its sources).  A
history `query, mutate, query` sees a stale memo unless EVERY function that
writes one of the sources also writes the memo group (the fields written by
the same const method: the value and/or its validity flag) - in its own body
or in a function it calls directly.  Invalidation at *some* writers of the
sources (only where a new binding is created) is the defect this rule names.
"""
from sa.core import rule, AnalysisError
from sa import cxx
from rules import c08 as _c08

TG_FILES = ("pytype/typegraph/typegraph.h", "pytype/typegraph/typegraph.cc")


def _own_writes(ix, fn):
  """Fields of fn's own class written through `this` in fn's body."""
  out = {}
  if fn.body is None:
    return out
  for ev in cxx.events(ix, fn.body, {}):
    if ev.kind == "write" and fn.cls and ev.what.startswith(fn.cls + "::") \
        and _c08._is_this(ev):
      out.setdefault(ev.what, ev)
  return out


def _reads(ix, fn):
  out = set()
  for ev in cxx.events(ix, fn.body, {}):
    if ev.kind in ("read", "addr") and fn.cls and ev.what.startswith(fn.cls + "::"):
      out.add(ev.what)
  return out


def _writes_any(ix, fn):
  """Every field written (through any object) in fn's body."""
  out = set()
  if fn.body is None:
    return out
  for u in list(fn.inits) + [fn.body]:
    for ev in cxx.events(ix, u, {}):
      if ev.kind != "write":
        continue
      if (ev.extra or {}).get("how") == "operator[]" and \
          _c08._guarded_by_contains(ix, fn, ev):
        continue      # m[k] under `if (ContainsKey(m, k))` cannot insert
      out.add(ev.what)
  return out


@rule("R8.7", "C08", floor=4)
def r8_7(ctx):
  """Every writer of a memo's sources drops the memo."""
  ix = cxx.get_index(ctx)
  fns = [f for f in ix.by_key.values()
         if f.file in TG_FILES and f.body is not None and f.cls]
  classes = sorted({f.cls for f in fns} & set(_c08.GRAPH_RECORDS))
  if not classes:
    raise AnalysisError("no graph record with methods found in typegraph.{h,cc}")
  all_fns = [f for f in ix.by_key.values() if f.body is not None and
             not f.file.endswith("_test.cc")]
  wcache = {}

  def writes(f):
    if f.key not in wcache:
      wcache[f.key] = _writes_any(ix, f)
    return wcache[f.key]

  def writes_deep(f):
    """Own writes plus those of directly called functions."""
    out = set(writes(f))
    for n in cxx.walk(f.body):
      if n.get("kind") in ("CXXMemberCallExpr", "CallExpr"):
        callee = ix.callee(n)[1]
        if callee is not None and callee.body is not None:
          out |= writes(callee)
    return out

  for cls in classes:
    groups = []        # (filler fn, memo fields, source fields)
    memo_fields = set()
    for f in sorted((f for f in fns if f.cls == cls), key=lambda f: f.key):
      if not f.key.endswith(" const") or f.kind != "CXXMethodDecl":
        continue
      w = _own_writes(ix, f)
      if w:
        groups.append([f, set(w), None])
        memo_fields |= set(w)
    for g in groups:
      g[2] = _reads(ix, g[0]) - memo_fields
    if not groups:
      ctx.ok(f"memo-free:{cls}", TG_FILES[0], 0,
             {"note": "no const method of the record writes a field: nothing "
                      "is memoised inside the record"})
      continue
    for filler, memo, sources in groups:
      if not sources:
        raise AnalysisError(f"{filler.key} writes {sorted(memo)} without reading "
                            "a field of the record: what the memo is derived "
                            "from is not understood")
      stale = []
      writers = []
      for g in sorted(all_fns, key=lambda f: f.key):
        if g.key == filler.key or g.kind in ("CXXConstructorDecl", "CXXDestructorDecl"):
          continue
        ws = writes(g) & sources
        if not ws:
          continue
        writers.append(g.key)
        if not (writes_deep(g) & memo):
          stale.append((g.key, sorted(ws)))
      name = ",".join(sorted(m.split("::")[-1] for m in memo))
      ctx.check(not stale, f"memo-dropped-by-source-writers:{cls}::{name}",
                filler.file, filler.line,
                f"{filler.key} memoises {sorted(memo)} computed from "
                f"{sorted(sources)}, but " +
                "; ".join(f"{k} writes {w} without resetting the memo" for k, w in stale[:3])
                + ": after that call a query is answered from the stale value",
                {"memo": sorted(memo), "sources": sorted(sources),
                 "source_writers": writers, "not_resetting": [k for k, _ in stale]})


def _tg(n):
  return f"pytype/typegraph/{n}"


_NODES_DECL = "  CFGNodeSet nodes() const;"
_NODES_DEF = (
    "CFGNodeSet Variable::nodes() const {\n"
    "  CFGNodeSet nodes;\n"
    "  for (const auto& kvpair : cfg_node_to_bindings_) {\n"
    "    nodes.insert(kvpair.first);\n"
    "  }\n"
    "  return nodes;\n"
    "}\n")
_MEMO_DEF = (
    "CFGNodeSet Variable::nodes() const {\n"
    "  if (!nodes_valid_) {\n"
    "    nodes_.clear();\n"
    "    for (const auto& kvpair : cfg_node_to_bindings_) {\n"
    "      nodes_.insert(kvpair.first);\n"
    "    }\n"
    "    nodes_valid_ = true;\n"
    "  }\n"
    "  return nodes_;\n"
    "}\n")
_MEMO_FIELDS = (_tg("typegraph.h"), _NODES_DECL,
                _NODES_DECL + "\n  mutable CFGNodeSet nodes_;\n  mutable bool nodes_valid_ = false;")
_REGISTER = "  const auto& [it, _] = cfg_node_to_bindings_.emplace(node, SourceSet());\n"
# a memo outside the solver's read set (R8.1/R8.3 have nothing to say about it)
_DATA_DECL = "  std::vector<DataType*> Data() const;"
_DATA_FIELDS = (_tg("typegraph.h"), _DATA_DECL,
                _DATA_DECL + "\n  mutable std::vector<DataType*> data_memo_;\n  mutable bool data_memo_valid_ = false;")
_DATA_DEF = (
    "  std::vector<DataType*> data;\n"
    "  data.reserve(bindings_.size());\n"
    "  for (const auto& a : bindings_) {\n"
    "    data.push_back(a->data().get());\n"
    "  }\n"
    "  return data;\n")
_DATA_MEMO = (
    "  if (!data_memo_valid_) {\n"
    "    data_memo_.clear();\n"
    "    for (const auto& a : bindings_) {\n"
    "      data_memo_.push_back(a->data().get());\n"
    "    }\n"
    "    data_memo_valid_ = true;\n"
    "  }\n"
    "  return data_memo_;\n")
_PUSH = "    bindings_.push_back(std::move(binding));\n"

VARIANTS = [
    {"name": "seeded-C07-r4m1-nodes-cache-dropped-only-for-new-choice", "rule": "R8.7",
     "patch": "seeded/C07-r4m1/patch.diff", "expect": "fire"},
    {"name": "seeded-C08-r4m2-nodes-memo-valid-flag", "rule": "R8.7",
     "patch": "seeded/C08-r4m2/patch.diff", "expect": "fire"},
    {"name": "nodes-memo-never-invalidated", "rule": "R8.7", "expect": "fire",
     "edits": [_MEMO_FIELDS, (_tg("typegraph.cc"), _NODES_DEF, _MEMO_DEF)]},
    {"name": "nodes-memo-invalidated-in-AddOrigin-only", "rule": "R8.7", "expect": "fire",
     "edits": [_MEMO_FIELDS, (_tg("typegraph.cc"), _NODES_DEF, _MEMO_DEF),
               (_tg("typegraph.cc"), "    variable_->RegisterBindingAtNode(this, node);",
                "    variable_->nodes_valid_ = false;\n    variable_->RegisterBindingAtNode(this, node);")]},
    {"name": "data-memo-never-invalidated", "rule": "R8.7", "expect": "fire",
     "edits": [_DATA_FIELDS, (_tg("typegraph.cc"), _DATA_DEF, _DATA_MEMO)]},
    {"name": "twin-data-memo-invalidated-where-bindings-grow", "rule": "R8.7", "expect": "silent",
     "edits": [_DATA_FIELDS, (_tg("typegraph.cc"), _DATA_DEF, _DATA_MEMO),
               (_tg("typegraph.cc"), _PUSH, _PUSH + "    data_memo_valid_ = false;\n")]},
    {"name": "twin-data-memo-cleared-through-helper", "rule": "R8.7", "expect": "silent",
     "edits": [(_tg("typegraph.h"), _DATA_DECL,
                _DATA_DECL + "\n  void DropDataMemo() { data_memo_.clear(); data_memo_valid_ = false; }\n"
                "  mutable std::vector<DataType*> data_memo_;\n  mutable bool data_memo_valid_ = false;"),
               (_tg("typegraph.cc"), _DATA_DEF, _DATA_MEMO),
               (_tg("typegraph.cc"), _PUSH, "    DropDataMemo();\n" + _PUSH)]},
]
