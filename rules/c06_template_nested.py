"""C06 extension R6.22 (D55, repaired by b3bf809): R6.21 for class headers
whose bases are parameterised by *nested* generics:
`class M(Box[List[V]], Other[K])`.

Original tree: the stub reader's `AdjustTypeParameters._GetTemplateItems`
recursed into GenericType/UnionType parameters and found V (template [V, K]);
the analyser's `_compute_template` only kept a base's parameter when it WAS a
TypeParameter (template [K]).  `m = M(1)` was emitted as `m: M[int]` and read
back through a.pyi as `a.M[int, Any]`; `def f() -> M[int, str]` was rejected
with "M[K] expected 1 parameter, got 2" (confirmed on a scratch build).
"""
import itertools

from sa.core import rule, AnalysisError
from rules import c06_template as t


def _nested_headers():
  for a, b in itertools.permutations(t._TVARS[:2], 2):
    yield [("Box", (("list", (a,)),)), ("Other", (b,))]
    yield [("Box", (b,)), ("Other", (("list", (a,)),))]
    yield [("Box", (("dict", (a, b)),))]
    yield [("Box", (("list", (("list", (a,)),)),)), ("Pair", (b, a))]


@rule("R6.22", "C06", floor=1)
def r6_22(ctx):
  """Template of a class whose bases are parameterised by nested generics."""
  first, count, accepted = t.compare_headers(ctx, _nested_headers())
  if accepted == 0:
    raise AnalysisError("no nested class header is accepted by both sides")
  t.report(ctx, first, count, label="nested-")


_FIXED_SEQ = ("          for type_param in _get_template_items(param):\n"
              "            t = type_param.with_scope(val.full_name)\n"
              "            if t not in seq:\n"
              "              seq.append(t)\n")

VARIANTS = [
    {"name": "revert-D55-direct-parameters-only", "rule": "R6.22",
     "file": t.BASE, "expect": "fire", "old": _FIXED_SEQ,
     "new": ("          if isinstance(param, _abstract.TypeParameter):\n"
             "            seq.append(param.with_scope(val.full_name))\n")},
    {"name": "twin-nested-items-comprehension", "rule": "R6.22",
     "file": t.BASE, "expect": "silent", "old": _FIXED_SEQ,
     "new": ("          for t in [tp.with_scope(val.full_name)\n"
             "                    for tp in _get_template_items(param)]:\n"
             "            if t not in seq:\n"
             "              seq.append(t)\n")},
]
