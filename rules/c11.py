"""C11 - optimisation only widens, idempotently: the configuration clauses.

Decides: that pytype runs pytd/optimize.py with the lossless settings, that
every meaning-changing pass of `Optimize` is control-dependent on its flag,
that collapsing goes to the top type, the direction in which the
hierarchy-based union rewrites walk the class hierarchy, and the ordering facts
idempotence needs (containers are re-simplified after every pass that can
create `X[Any]`, unions re-joined after every pass that can create Any, and the
passes that only understand bare class names run on simplified containers).
Does NOT decide containment (input <= output) or idempotence themselves.
"""
import ast

from sa.core import rule, AnalysisError
from sa.pyindex import get_module, dotted, src, calls_in, try_fold, walk_no_nested, all_py_files
from sa import flow
from rules import _util_c11c01 as _u

EXPLANATION = (
    "Static guard rails for the pyi optimiser, evaluated on the AST of "
    "pytd/optimize.py, pytd/pytd_utils.py, io.py and the other callers of "
    "optimize.Optimize: R11.1 the defaults of Optimize and every call pytype "
    "makes (io.generate_pyi_ast, PyTDFunction return-type joining, the pretty "
    "printer; thorough tier: every non-test call in the package) use "
    "lossy=False, use_abcs=False, remove_mutable=False as constants; R11.2 in "
    "Optimize every visitor pass is classified by a closed table: the "
    "meaning-changing ones (FindCommonSuperClasses, abc_hierarchy superclasses, "
    "AbsorbMutableParameters, MergeTypeParameters, CollapseLongUnions) are "
    "control-dependent on lossy / use_abcs / remove_mutable / max_union, and "
    "an unknown pass is an analysis error; R11.3 CollapseLongUnions only "
    "returns its input, a JoinTypes of its members or generic_type = "
    "AnythingType(), the over-long arm returns generic_type, and the Any arm "
    "of pytd_utils.JoinTypes returns Any or Union[Any, None]; R11.4 every "
    "path from a pass that can create a container of Any to the end of "
    "Optimize runs SimplifyContainers again (otherwise a second run would "
    "rewrite List[Any] to List).  These are necessary conditions only: that "
    "each lossless visitor really widens, and that a second run is the "
    "identity, are not decided.  R11.5 every path from a pass that can turn "
    "a union member into Any (object -> Any in return and constant types) to "
    "the end of Optimize runs a union-joining pass again (otherwise the "
    "emitted Union[X, Any] collapses to Any on a second run).  R11.6 the "
    "hierarchy-based rewrites walk the class hierarchy in the widening "
    "direction: the direction of every SuperClassHierarchy query is derived "
    "from the table it reads (the class -> superclasses mapping Optimize "
    "extracts with ExtractSuperClassesByName / abc_hierarchy.GetSuperClasses, "
    "or its utils.invert_dict inversion; transitively through self-calls), "
    "never from the query's name; in the lossless subset filter "
    "(SimplifyUnionsWithSuperclasses: members counted in more than one "
    "member's closure are dropped) the closure must be the SUBclass closure "
    "- a dropped member is then covered by one that stays - and in the lossy "
    "join (FindCommonSuperClasses: names common to one closure per member) "
    "every closure must be the SUPERclass closure.  R11.7 every pass that is "
    "constructed with the hierarchy and keys it by str(member) - it can only "
    "relate bare class names, X[Any] is no key - is preceded on every path by "
    "SimplifyContainers after the input and after any pass that can create "
    "X[Any]; otherwise Union[Sub, X[Any]] survives the hierarchy pass, the "
    "final SimplifyContainers (R11.4) turns it into Union[Sub, X] and a "
    "second run drops Sub.  Blind spots: R11.6 understands two shapes only "
    "(count-of-closures subset filter, intersection-of-closures join); an "
    "equivalent idiom (e.g. testing another member against the superclass "
    "closure of the candidate), or a key other than str(member) (a visitor "
    "that maps X[..] to its base class before asking the hierarchy), is an "
    "analysis error, not a verdict.  R11.7 judges only what precedes the "
    "hierarchy passes; that passes which can create X[Any] "
    "(CollapseLongUnions, AdjustReturnAndConstantGenericType, ...) run AFTER "
    "the last hierarchy pass, so that the final SimplifyContainers exposes a "
    "bare X no hierarchy pass sees, is recorded as a note in the evidence and "
    "not judged: it is true of today's tree (`def f(x): return Stack() if x "
    "else [object()]` with `class Stack(list)` is emitted as Union[Stack, "
    "list] and re-optimised to list).  Shapes: the rules on Optimize "
    "(R11.2/4/5/6/7) read it in a normal form produced by a semantics-"
    "preserving rewriting (rules/_util_c11c01.py): calls to module-local "
    "helper functions in statement position (`x = H(..)`, `return H(..)`, "
    "`H(..)`, also as an arm of a conditional expression, which becomes an "
    "`if`) are inlined with the parameters bound in argument order, the "
    "helper's locals renamed apart and its returns turned into the "
    "assignment of the call statement, and a loop over a literal tuple - "
    "also the *args tuple of an inlined helper, `for v in passes: node = "
    "node.Visit(v)` - is unrolled, so a table-driven pass list is the same "
    "sequence of pass applications as one Visit statement per pass and a "
    "flag guard inside a helper is a guard on the flag the helper was "
    "handed (a constant or another flag in its place is seen as such).  A "
    "helper call in any other position (inside a larger expression, in a "
    "condition), a generator / recursive / decorated helper or a return "
    "inside a loop of a helper is an analysis error: a pass applied in a "
    "helper the rule cannot see into would be invisible.  Methods "
    "(VisitUnionType, __init__ storing the hierarchy, _Simplify) are "
    "resolved through module-local base classes (a private base / mixin); "
    "a foreign base listed before a local one is an analysis error.  "
    "R11.1 accepts the Optimize call of io.generate_pyi_ast in a "
    "module-local helper it calls (the instance is named after "
    "generate_pyi_ast either way).  R11.3 identifies the Any arm of "
    "JoinTypes by path condition, not by position: the returns whose guards "
    "imply the `any(isinstance(t, AnythingType) for t in <members>)` test "
    "(as an if-body, or as the fall-through after `if not any(..): return "
    "..`, through `not` / `and` / `or`) must return Any or Union[Any, "
    "None]; returns whose guards imply its negation are outside the arm; a "
    "return reached BEFORE the test is accepted only for exactly one member "
    "(`len(m) == 1` -> that member) or none (`not m`), anything else is an "
    "analysis error; a path that falls off the end of JoinTypes is an "
    "analysis error.  R11.6 also accepts the counter of the subset filter "
    "built in one expression, `Counter(n for t in <members> [if ..] for n in "
    "hierarchy.<closure>(str(t)))`, which counts exactly what `c += "
    "Counter(closure)` per member does.")
ASSUMPTIONS = [
    "the classification of optimize.py's visitors into lossless / "
    "meaning-changing follows their docstrings and the `lossy`, `use_abcs`, "
    "`remove_mutable`, `max_union` parameter documentation of Optimize",
    "pytd/main.py (the stand-alone pytd tool) forwards the user's command-line "
    "flags; it is not one of 'the settings pytype uses' and is recorded, not "
    "judged",
    "test helpers (pytype/tests, *_test.py) are not part of pytype's output path",
    "visitors.ExtractSuperClassesByName / ExtractSuperClasses and "
    "abc_hierarchy.GetSuperClasses produce class -> superclasses mappings, "
    "abc_hierarchy.GetSubClasses a class -> subclasses mapping, and "
    "utils.invert_dict reverses the direction of a mapping (closed table "
    "_MAPPING_PRODUCERS; their bodies are not analysed)",
    "CREATES_ANY_CONTAINER (hand classification of the passes that can leave a "
    "generic type with only-Any parameters) is shared by R11.4 and R11.7; the "
    "input of Optimize counts as such a producer",
    "constructing a visitor has no effect the rules care about: when a loop "
    "over a literal tuple of pass objects is unrolled, each constructor call "
    "is written at the place where the pass is applied (the order of the "
    "APPLICATIONS, their guards and their constructor arguments are kept "
    "exactly)",
]
# rules/c11_absorb.py (R11.23)
EXPLANATION += (
    "  R11.23 (rules/c11_absorb.py) absorbing a parameter's mutation "
    "(remove_mutable) keeps the declared type on every path: for every "
    "visitor of pytd/optimize.py whose VisitParameter reads "
    "<node>.mutated_type (AbsorbMutableParameters) each return is the visited "
    "parameter itself or <node>.Replace(type=J, mutated_type=None) where J is "
    "a join - pytd_utils.JoinTypes([..]) / pytd.UnionType((..)) over a "
    "list/tuple display - whose members include BOTH <node>.type and "
    "<node>.mutated_type (through once-bound locals, conditional expressions "
    "arm by arm, one-return helpers of the class or module with the arguments "
    "substituted); a type built without one of the two (the mutated type "
    "taken directly on a fast path: x: list[int] mutated to "
    "list[Union[str, bytes]] would no longer admit [1, 2]) is a violation, "
    "any other return an analysis error.  Blind spots: that JoinTypes itself "
    "widens (R11.3 looks at its Any arm) and what CombineContainers does with "
    "the union afterwards are not decided here.")

# rules/c11_latch.py (R11.20)
EXPLANATION += (
    "  R11.20 (rules/c11_latch.py) first-value latches: a local initialised "
    "to None and filled inside a loop with an integer-valued expression "
    "(len(..), a count/index, arithmetic on those, also through one local or "
    "an enumerate/range index) whose 'still unset?' question is asked at all "
    "must ask it by identity (`x is None`); a truthiness test on the bare "
    "name (`x or E`, `not x`, `x if x else E`, `if x`, walrus forms) treats a "
    "legitimate first value 0 as unset - in CombineContainers._should_merge "
    "the arity of a leading tuple[()] is then overwritten by the next "
    "tuple's, the arity mismatch is missed and the grouped parameters are "
    "zipped to the shorter tuple (Union[tuple[()], tuple[int]] -> "
    "tuple[()]).  Scope: pytd/optimize.py, pytd_utils.py, visitors.py "
    "(thorough: all of pytype/pytd).  Blind spots: the second half of the "
    "seeded change (dropping the arity from CombineContainers._key) is "
    "behaviour-preserving on its own and not judged; latches over values "
    "whose type the rule cannot see to be int are not instances; a different "
    "arity test (a set of lengths) makes the anchor vanish: analysis error.")
ASSUMPTIONS += [
    "R11.20: len(), int(), sum(), .index/.count/.find results and "
    "enumerate/range indices are integers for which 0 is an ordinary value",
]

# rules/c11_keys.py (R11.21, R11.22)
EXPLANATION += (
    "  R11.21 / R11.22 (rules/c11_keys.py) keys under which the optimiser "
    "groups or identifies nodes.  A small abstract interpreter runs over "
    "every visitor class of optimize.py (each Visit/Enter/Leave<Class> hook, "
    "its parameter typed by the hook's name) and over pytd_utils.JoinTypes "
    "(its parameter: a collection of TypeU nodes): a value is described by "
    "the access paths of the element it was computed from that it determines "
    "(`sig.params[*].name`, the class, the whole node), typed by the pytd "
    "schema read from pytd.py (fields, tuple fields, properties such as "
    "GenericType.name, subclass relation, GENERIC_BASE_TYPE); dicts / sets / "
    "lists / helper objects are summarised by the join of what was stored in "
    "them and remember which dict a value came out of; module-local helpers, "
    "methods (module-local MRO), closures, lambdas, comprehensions and "
    "generators are evaluated at their call sites; isinstance / exact-class "
    "tests narrow the class set of the tested element in both branches, "
    "behind guard clauses and inside conditional expressions; every return "
    "path of a key helper is kept as a separate alternative.  R11.21: at "
    "every place where a node is built from ONE member of a group "
    "(`member.Replace(..)`, `key_copy.Replace(..)`, `pytd.C(f=member.f, ..)`) "
    "while another argument comes out of the dict the members were grouped "
    "in, every field that is taken over (schema fields minus the replaced "
    "ones) must be determined by the key of that dict on every alternative - "
    "a tuple field element-wise through a comprehension over it, a stripped "
    "copy `x.Replace(f=None)` determines every field but f; for the stripped "
    "copy used as key AND as receiver the stripped fields must all be "
    "re-filled.  Seeded C11-r3m1 groups signatures by "
    "(name, type, kind, optional) per parameter and rebuilds the merged "
    "signature from the first member: params[*].mutated_type is taken over "
    "but not in the key.  Instances today: CombineReturnsAndExceptions "
    "(signatures), CombineContainers (union members, key base_type [+ arity]). "
    "R11.22: a set (or a dict used as ordered set) whose key is computed from "
    "an element while the element itself is appended / yielded / stored next "
    "to it drops later elements with the same key; on every alternative the "
    "key must be the element, or include its class (unless only one class "
    "can reach that alternative) and determine every field the class's "
    "equality reads (hand-written __eq__: the fields it reads; generated: "
    "all).  An isinstance arm for GenericType is reached by TupleType, "
    "CallableType and Concatenate unless earlier arms took them (seeded "
    "C11-r3m2: Tuple[int] and Tuple[int, ...] share the key "
    "(name, parameter keys)).  Instance today: JoinTypes (key = the type "
    "itself).  Blind spots: R11.21 does not demand that the key determines "
    "the CLASS of the member that is kept (CombineContainers._key relies on "
    "base_type determining TupleType / CallableType / GenericType) and does "
    "not check that the re-computed fields really use all members; R11.22 "
    "does not compare keys ACROSS alternatives (two arms returning equal "
    "tuples for different classes), ignores de-duplication by list "
    "membership and by pytd_utils.OrderedSet (both compare the nodes "
    "themselves), and calls into other modules are not followed: a key "
    "computed by a function the interpreter cannot see is an analysis "
    "error when it reaches a judged set / dict, an isinstance test against a "
    "class expression it cannot resolve makes a violation an analysis "
    "error.  Sources of elements are named by field (`<signatures>`, "
    "`<type_list>`), so two loops over the same field of re-bound locals are "
    "the same source.")
ASSUMPTIONS += [
    "R11.21/R11.22: Visit<C>/Enter<C>/Leave<C> hooks receive a node of class "
    "C (base_visitor dispatches on the exact class name); an attribute whose "
    "name is a tuple-of-nodes field of exactly one schema field type "
    "(signatures, type_list, params, parameters, ...) read from an untyped "
    "value is that field; the members handed to JoinTypes are TypeU nodes; "
    "str/len/repr/hash/... of a node do not determine it; tuple()/list() of a "
    "generator keep order and multiplicity, set()/frozenset()/sorted() do not",
]

OPT = "pytype/pytd/optimize.py"
UTILS = "pytype/pytd/pytd_utils.py"
IO = "pytype/io.py"
PYTDFN = "pytype/abstract/_pytd_function.py"
PRINTER = "pytype/pretty_printer_base.py"
MAIN = "pytype/pytd/main.py"

FLAGS = ("lossy", "use_abcs", "remove_mutable")

# pass (callee's last name) -> flag it must be control-dependent on
GUARDED = {
    "FindCommonSuperClasses": "lossy",
    "GetSuperClasses": "use_abcs",           # abc_hierarchy.GetSuperClasses()
    "AbsorbMutableParameters": "remove_mutable",
    "MergeTypeParameters": "remove_mutable",
    "CollapseLongUnions": "max_union",
}
# passes that keep the meaning of the declarations (may run unconditionally)
LOSSLESS = {
    "NormalizeGenericSelfTypes", "RemoveDuplicates", "SimplifyUnions",
    "CombineReturnsAndExceptions", "CombineContainers", "SimplifyContainers",
    "SimplifyUnionsWithSuperclasses", "AdjustReturnAndConstantGenericType",
    "AdjustSelf", "ExtractSuperClassesByName",
}
# passes after which a generic type may have only-Any parameters
CREATES_ANY_CONTAINER = {
    "CombineContainers", "CollapseLongUnions",
    "AdjustReturnAndConstantGenericType", "AbsorbMutableParameters",
    "MergeTypeParameters", "FindCommonSuperClasses",
}

_FUNCS = (ast.FunctionDef, ast.AsyncFunctionDef)


def _opt(ctx):
  """pytd/optimize.py with `Optimize` in normal form: calls to module-local
  helpers inlined, conditional expressions that select a helper call lowered
  to `if`, loops over a literal tuple of passes unrolled (rules/_util_c11c01:
  a semantics-preserving rewriting; the original module when nothing needs
  rewriting).  The flow rules (R11.2/4/5/6/7) then see one pass application
  per statement wherever the source keeps it."""
  mod = get_module(ctx, OPT)

  def make():
    m, inlined = _u.normalized_function(mod, "Optimize")
    if inlined:
      ctx.note(f"C11: Optimize analysed with the module-local helpers {inlined} "
               "inlined")
    return m
  return ctx.memo(("c11norm", OPT), make)


def _methods(mod, cls):
  """Methods of `cls`, resolved through its module-local base classes."""
  return _u.methods_mro(mod, cls)


def _method(mod, cls, name):
  m = _methods(mod, cls).get(name)
  if m is None:
    raise AnalysisError(f"anchor {cls}.{name} not found in {mod.rel} (also not "
                        "in a module-local base class)")
  return m


def _qualname(mod, node):
  parts = []
  while node is not None:
    if isinstance(node, _FUNCS + (ast.ClassDef,)):
      parts.append(node.name)
    node = mod.parent.get(node)
  return ".".join(reversed(parts)) or "<module>"


def _signature(fn):
  """param -> (position, default node or None) for plain parameters."""
  a = fn.args
  pos = a.posonlyargs + a.args
  defaults = [None] * (len(pos) - len(a.defaults)) + list(a.defaults)
  out = {p.arg: (i, d) for i, (p, d) in enumerate(zip(pos, defaults))}
  for p, d in zip(a.kwonlyargs, a.kw_defaults):
    out[p.arg] = (None, d)
  return out


def _optimize_calls(mod):
  out = []
  for c in calls_in(mod.tree):
    d = dotted(c.func) or ""
    if d == "optimize.Optimize" or d.endswith(".optimize.Optimize"):
      out.append(c)
    elif d == "Optimize" and mod.imports.get("Optimize", "").endswith(
        "optimize.Optimize"):
      out.append(c)
  return out


def _is_test_file(rel):
  return rel.endswith("_test.py") or "/tests/" in rel or "/test_data/" in rel \
      or rel.endswith("test_utils.py") or rel.endswith("test_base.py")


@rule("R11.1", "C11", floor=4)
def r11_1(ctx):
  """pytype calls Optimize with the lossless settings only."""
  opt = get_module(ctx, OPT)
  sig = _signature(opt.func("Optimize"))
  missing = [f for f in FLAGS if f not in sig]
  if missing:
    raise AnalysisError(f"Optimize has no parameter(s) {missing}")
  defaults = {f: try_fold(sig[f][1], default=src(sig[f][1]) if sig[f][1] is not None else "<required>")
              for f in FLAGS}
  ctx.check(all(defaults[f] is False for f in FLAGS), "Optimize:defaults", OPT,
            opt.func("Optimize").lineno,
            f"Optimize's defaults are {defaults}; callers that omit the flags "
            "rely on all three being False", {"defaults": defaults})
  files = [IO, PYTDFN, PRINTER]
  if ctx.tier == "thorough":
    for rel in all_py_files(ctx):
      if rel in files or rel == OPT or _is_test_file(rel):
        continue
      if "Optimize(" in ctx.read(rel):
        files.append(rel)
  anchored = {IO: "generate_pyi_ast"}
  for rel in files:
    mod = get_module(ctx, rel)
    calls = _optimize_calls(mod)
    if rel in (IO, PYTDFN, PRINTER) and not calls:
      raise AnalysisError(f"{rel}: optimize.Optimize call not found")
    via_helper = set()
    if rel in anchored:
      # the anchor calls Optimize itself or through module-local helpers; such
      # a call site is named after the anchor (its role), not after the helper
      reach = _u.reachable_functions(mod, mod.func(anchored[rel]))
      via_helper = {id(c) for c in calls
                    if any(mod.enclosing_function(c) is f for f in reach)}
      if not via_helper:
        raise AnalysisError(f"{rel}: {anchored[rel]} no longer calls Optimize")
    seen = {}
    for c in sorted(calls, key=lambda c: c.lineno):
      q = anchored[rel] if id(c) in via_helper else \
          _qualname(mod, mod.enclosing_function(c))
      n = seen.get(q, 0)
      seen[q] = n + 1
      construct = f"{q}:Optimize-settings" + ("" if n == 0 else f"#{n + 1}")
      if any(isinstance(a, ast.Starred) for a in c.args) or \
          any(k.arg is None for k in c.keywords):
        raise AnalysisError(f"{rel}:{q}: Optimize called with */** arguments")
      got, forwarded = {}, []
      for f in FLAGS:
        node = None
        for k in c.keywords:
          if k.arg == f:
            node = k.value
        p = sig[f][0]
        if node is None and p is not None and len(c.args) > p:
          node = c.args[p]
        if node is None:
          got[f] = defaults[f]
        else:
          got[f] = try_fold(node, default=src(node))
          if rel == MAIN and isinstance(node, ast.Attribute) and node.attr == f:
            forwarded.append(f)
      facts = {"settings": got}
      if forwarded and len(forwarded) == len(FLAGS):
        facts["command_line_tool"] = True
        ctx.ok(construct, rel, c.lineno, facts)
        continue
      ctx.check(all(got[f] is False for f in FLAGS), construct, rel, c.lineno,
                f"Optimize is called with {got}; the lossless settings are "
                "lossy=False, use_abcs=False, remove_mutable=False", facts)


def _flag_in_test(test, flag, pol=True):
  """Does `test` evaluating to `pol` imply that `flag` is truthy?"""
  if isinstance(test, ast.UnaryOp) and isinstance(test.op, ast.Not):
    return _flag_in_test(test.operand, flag, not pol)
  if pol:
    if isinstance(test, ast.Name) and test.id == flag:
      return True
    if isinstance(test, ast.BoolOp) and isinstance(test.op, ast.And):
      return any(_flag_in_test(v, flag, True) for v in test.values)
    return False
  if isinstance(test, ast.BoolOp) and isinstance(test.op, ast.Or):
    return any(_flag_in_test(v, flag, False) for v in test.values)
  return False


def _pass_calls(fn):
  """Calls in Optimize that construct a visitor / hierarchy source."""
  out = []
  for c in calls_in(fn):
    d = dotted(c.func)
    if d is None:
      continue
    last = d.split(".")[-1]
    if last in GUARDED or last in LOSSLESS:
      out.append((last, c))
    elif last[:1].isupper() and last not in (
        "Visit", "SuperClassHierarchy", "LookupClasses"):
      out.append((last, c))
  return out


@rule("R11.2", "C11", floor=5)
def r11_2(ctx):
  """Meaning-changing passes of Optimize are guarded by their flag."""
  mod = _opt(ctx)
  fn = mod.func("Optimize")
  params = set(_signature(fn))
  for flag in set(GUARDED.values()):
    if flag not in params:
      raise AnalysisError(f"Optimize has no parameter {flag}")
    stores = [n for n in ast.walk(fn) if isinstance(n, ast.Name)
              and n.id == flag and isinstance(n.ctx, ast.Store)]
    if stores:
      raise AnalysisError(f"Optimize rebinds its parameter {flag}")
  found = {}
  for name, call in _pass_calls(fn):
    if name not in GUARDED and name not in LOSSLESS:
      raise AnalysisError(
          f"Optimize runs a pass `{name}` that is not in the lossless / "
          "guarded classification table: a human must classify it")
    # every visitor in optimize.py must still exist under that name
    if name in GUARDED:
      found.setdefault(name, []).append(call)
  for name, flag in sorted(GUARDED.items()):
    calls = found.get(name)
    if not calls:
      raise AnalysisError(f"Optimize no longer mentions the pass {name}")
    for i, call in enumerate(calls):
      construct = f"Optimize:{name}" + ("" if i == 0 else f"#{i + 1}")
      stmts = [mod.enclosing_stmt(call)]
      par = mod.parent.get(call)
      if isinstance(par, ast.Assign) and par.value is call and \
          len(par.targets) == 1 and isinstance(par.targets[0], ast.Name):
        # pass object bound to a local: what matters is where it is applied
        local = par.targets[0].id
        stmts = [mod.enclosing_stmt(n) for n in walk_no_nested(fn)
                 if isinstance(n, ast.Name) and n.id == local
                 and isinstance(n.ctx, ast.Load)]
        if not stmts:
          raise AnalysisError(f"{construct}: pass object `{local}` is never used")
      all_g = []
      ok = True
      for stmt in stmts:
        if isinstance(stmt, (ast.If, ast.While)):
          # used in a header: not guarded by that header's own test
          raise AnalysisError(f"{construct}: pass used in a condition")
        g = flow.guards(mod.parent, stmt, stop=fn)
        all_g.append([(src(t), p) for t, p in g])
        ok = ok and any(_flag_in_test(t, flag, p) for t, p in g)
      gtxt = all_g[0] if len(all_g) == 1 else all_g
      ctx.check(ok, construct, OPT, call.lineno,
                f"{name} changes the meaning of the declarations and must "
                f"only run under `if {flag}:`; path condition is {gtxt}",
                {"flag": flag, "guards": gtxt})


def _is_anything(node):
  return isinstance(node, ast.Call) and \
      (dotted(node.func) or "").split(".")[-1] == "AnythingType" and \
      not node.args and not node.keywords


def _returns(fn):
  return [n for n in walk_no_nested(fn) if isinstance(n, ast.Return)]


@rule("R11.3", "C11", floor=4)
def r11_3(ctx):
  """Collapsing goes to the top type."""
  mod = get_module(ctx, OPT)
  cls = "CollapseLongUnions"
  stores = [(mod.enclosing_function(n), n) for n in ast.walk(mod.cls(cls))
            if isinstance(n, ast.Assign)
            and any(dotted(t) == "self.generic_type" for t in n.targets)]
  vals = [src(n.value) for _, n in stores]
  ctx.check(bool(stores) and all(_is_anything(n.value) for _, n in stores)
            and all(f is not None and f.name == "__init__" for f, _ in stores),
            f"{cls}.generic_type", OPT, mod.cls(cls).lineno,
            f"generic_type is assigned {vals}; long unions must collapse to "
            "Any (pytd.AnythingType()), never to a narrower type",
            {"values": vals})
  vu = _method(mod, cls, "VisitUnionType")
  params = [a.arg for a in vu.args.args]
  if len(params) != 2:
    raise AnalysisError(f"{cls}.VisitUnionType signature not understood")
  union = params[1]
  kinds = []
  long_arm = None
  for r in _returns(vu):
    v = r.value
    if v is None:
      kind = "None"
    elif dotted(v) == "self.generic_type":
      kind = "top"
    elif isinstance(v, ast.Name) and v.id == union:
      kind = "input"
    elif isinstance(v, ast.Call) and \
        (dotted(v.func) or "").split(".")[-1] == "JoinTypes" and \
        len(v.args) == 1 and src(v.args[0]) == f"{union}.type_list":
      kind = "join(input)"
    else:
      kind = "other:" + src(v)
    kinds.append(kind)
    g = flow.guards(mod.parent, r, stop=vu)
    for t, p in g:
      for c in ast.walk(t):
        if p and isinstance(c, ast.Compare) and len(c.ops) == 1 and \
            isinstance(c.ops[0], (ast.Gt, ast.GtE)) and \
            src(c.left) == f"len({union}.type_list)" and \
            src(c.comparators[0]) == "self.max_length":
          if not (isinstance(t, ast.BoolOp) and isinstance(t.op, ast.Or)):
            long_arm = kind
  ctx.check(all(k in ("top", "input", "join(input)") for k in kinds),
            f"{cls}.VisitUnionType:returns", OPT, vu.lineno,
            f"VisitUnionType returns {kinds}; only the input union, a "
            "JoinTypes of its members, or generic_type are widening",
            {"returns": kinds})
  if long_arm is None:
    raise AnalysisError(
        f"{cls}.VisitUnionType: the `len({union}.type_list) > self.max_length` "
        "arm was not recognised")
  ctx.check(long_arm == "top", f"{cls}.VisitUnionType:over-long-arm", OPT,
            vu.lineno, f"the over-long arm returns {long_arm}; it must return "
            "self.generic_type", {"returns": long_arm})
  # JoinTypes: the returns taken when some member is Any
  um = get_module(ctx, UTILS)
  jt = um.func("JoinTypes")

  def any_member_is_any(n):
    """any(isinstance(t, ..AnythingType) for t in <V>) -> V (else None)"""
    if not (isinstance(n, ast.Call) and dotted(n.func) == "any" and len(n.args) == 1
            and not n.keywords
            and isinstance(n.args[0], (ast.GeneratorExp, ast.ListComp))):
      return None
    comp = n.args[0]
    if len(comp.generators) != 1 or comp.generators[0].ifs:
      return None
    g, e = comp.generators[0], comp.elt
    if isinstance(g.target, ast.Name) and isinstance(g.iter, ast.Name) and \
        isinstance(e, ast.Call) and dotted(e.func) == "isinstance" and \
        len(e.args) == 2 and isinstance(e.args[0], ast.Name) and \
        e.args[0].id == g.target.id and \
        (dotted(e.args[1]) or "").split(".")[-1] == "AnythingType":
      return g.iter.id
    return None
  atoms = [n for n in walk_no_nested(jt) if any_member_is_any(n) is not None]
  if len(atoms) != 1:
    raise AnalysisError("JoinTypes: the Any arm was not recognised (expected one "
                        "`any(isinstance(t, AnythingType) for t in <members>)` test)")
  members = any_member_is_any(atoms[0])
  if not flow.terminates(jt.body):
    raise AnalysisError("JoinTypes: some path ends without a return statement")
  defs = {n.targets[0].id: n.value for n in ast.walk(jt)
          if isinstance(n, ast.Assign) and len(n.targets) == 1
          and isinstance(n.targets[0], ast.Name)}

  def size_fact(test, pol):
    """The guard decides the number of members: 'one' / 'none' / None."""
    def one(n):
      return isinstance(n, ast.Compare) and len(n.ops) == 1 and \
          isinstance(n.ops[0], ast.Eq) and src(n.left) == f"len({members})" and \
          isinstance(n.comparators[0], ast.Constant) and n.comparators[0].value == 1

    def nonempty(n):
      return isinstance(n, ast.Name) and n.id == members
    if _u.implied(test, pol, one) is True:
      return "one"
    if _u.implied(test, pol, nonempty) is False:
      return "none"
    return None
  rets, early = [], []
  arm_line = None
  for r in sorted(_returns(jt), key=lambda r: r.lineno):
    g = flow.guards(um.parent, r, stop=jt)
    verdicts = {_u.implied(tst, pol, lambda n: n is atoms[0]) for tst, pol in g}
    if True in verdicts and False in verdicts:
      continue    # unreachable
    if False in verdicts:
      continue    # no member is Any on this path
    v = r.value
    if True not in verdicts:
      # evaluated before the test: fine for a single member (it is returned
      # as it is) or no member at all; anything else is not understood
      sizes = {size_fact(tst, pol) for tst, pol in g} - {None}
      single = "one" in sizes and v is not None and (
          src(v) in (f"{members}[0]", f"{members}[-1]", f"{members}.pop()",
                     f"next(iter({members}))"))
      if not (single or sizes == {"none"}):
        raise AnalysisError(
            f"JoinTypes: `{src(r)}` is reached before the member-is-Any test "
            "under a condition the rule does not understand")
      early.append(src(r))
      continue
    arm_line = arm_line or r.lineno
    if _is_anything(v):
      rets.append("Any")
    elif isinstance(v, ast.Call) and \
        (dotted(v.func) or "").split(".")[-1] == "UnionType" and \
        len(v.args) == 1 and isinstance(v.args[0], ast.Tuple):
      elts = v.args[0].elts
      has_any = any(_is_anything(e) for e in elts)
      others = [e for e in elts if not _is_anything(e)]
      none_only = all(
          "NoneType" in src(defs.get(e.id, e)) if isinstance(e, ast.Name)
          else "NoneType" in src(e) for e in others)
      rets.append("Union[Any, None]" if has_any and none_only and len(others) <= 1
                  else "other:" + src(v))
    else:
      rets.append("other:" + (src(v) if v is not None else "None"))
  if not rets:
    raise AnalysisError("JoinTypes: no return is taken under the member-is-Any "
                        "condition")
  ok = all(r in ("Any", "Union[Any, None]") for r in rets)
  ctx.check(ok, "JoinTypes:Any-arm", UTILS, arm_line,
            f"when a member is Any, JoinTypes returns {rets}; it must return "
            "Any or Union[Any, None] (anything narrower drops values)",
            {"returns": rets, "members": members, "before_the_test": early})


def _all_params_any(test):
  """all(isinstance(p, pytd.AnythingType) for p in <x>.parameters)"""
  if not (isinstance(test, ast.Call) and dotted(test.func) == "all"
          and len(test.args) == 1
          and isinstance(test.args[0], (ast.GeneratorExp, ast.ListComp))):
    return False
  comp = test.args[0]
  if len(comp.generators) != 1 or comp.generators[0].ifs:
    return False
  g = comp.generators[0]
  e = comp.elt
  return (isinstance(g.target, ast.Name) and isinstance(g.iter, ast.Attribute)
          and g.iter.attr == "parameters"
          and isinstance(e, ast.Call) and dotted(e.func) == "isinstance"
          and len(e.args) == 2 and isinstance(e.args[0], ast.Name)
          and e.args[0].id == g.target.id
          and (dotted(e.args[1]) or "").split(".")[-1] == "AnythingType")


@rule("R11.4", "C11", floor=2)
def r11_4(ctx):
  """SimplifyContainers runs again after every pass that can create X[Any]."""
  mod = _opt(ctx)
  fn = mod.func("Optimize")

  def passes(unit):
    return {(dotted(c.func) or "").split(".")[-1]
            for c in ast.walk(unit) if isinstance(c, ast.Call)} \
        if isinstance(unit, ast.AST) else set()

  def gen(unit):
    return ["simplified"] if "SimplifyContainers" in passes(unit) else []

  def kill(unit):
    p = passes(unit)
    if p & CREATES_ANY_CONTAINER and "SimplifyContainers" not in p:
      return ["simplified"]
    return None

  f = flow.flow(fn, gen, kill, mode="must")
  producers = sorted({p for n in ast.walk(fn) if isinstance(n, ast.stmt)
                      and not isinstance(n, _FUNCS)
                      for p in (passes(n) & CREATES_ANY_CONTAINER)
                      if not isinstance(n, (ast.If, ast.For, ast.While, ast.With, ast.Try))})
  if "CollapseLongUnions" not in producers:
    raise AnalysisError("Optimize: CollapseLongUnions pass not found")
  exits = [(k, n, st) for k, n, st in f.exits if k != "raise"]
  if not exits:
    raise AnalysisError("Optimize has no normal exit")
  ok = all(st is not None and "simplified" in st for _, _, st in exits)
  ctx.check(ok, "Optimize:final-SimplifyContainers", OPT, fn.lineno,
            "some path from a pass that can create a container of Any "
            f"({producers}) reaches the end of Optimize without a later "
            "SimplifyContainers: a second run would still rewrite X[Any] to X",
            {"producers": producers, "exits": len(exits)})
  # the simplifier itself: a generic type whose parameters are all Any
  # becomes its base type (and nothing else is rewritten)
  sc = _method(mod, "SimplifyContainers", "_Simplify")
  rets = _returns(sc)
  guards_ok = False
  kinds = []
  for r in rets:
    g = [(src(t), p) for t, p in flow.guards(mod.parent, r, stop=sc)]
    v = src(r.value) if r.value is not None else "None"
    kinds.append((v, g))
    if v.endswith(".base_type") and any(
        p and _all_params_any(t) for t, p in flow.guards(mod.parent, r, stop=sc)):
      guards_ok = True
  others = [v for v, g in kinds if not v.endswith(".base_type")]
  param = sc.args.args[1].arg if len(sc.args.args) > 1 else None
  ctx.check(guards_ok and all(v == param for v in others),
            "SimplifyContainers._Simplify", OPT, sc.lineno,
            "_Simplify must return t.base_type only when all parameters are "
            f"Any and t itself otherwise; found {kinds}",
            {"returns": [v for v, _ in kinds]})


def _rejoins_unions(mod, cls_name):
  """Does visitor `cls_name` re-normalise a union that contains Any?  True for
  a VisitUnionType with a `return ..JoinTypes(<param>.type_list)` that is
  unconditional or taken when <generic/Any> is in the union."""
  if cls_name not in mod.classes:
    return False
  vu = _methods(mod, cls_name).get("VisitUnionType")
  if vu is None or len(vu.args.args) != 2:
    return False
  u = vu.args.args[1].arg
  for r in _returns(vu):
    v = r.value
    if isinstance(v, ast.Call) and \
        (dotted(v.func) or "").split(".")[-1] == "JoinTypes" and \
        len(v.args) == 1 and src(v.args[0]) == f"{u}.type_list":
      g = flow.guards(mod.parent, r, stop=vu)
      pos = [t for t, p in g if p]
      if not g:
        return True
      if all(isinstance(t, ast.Compare) and len(t.ops) == 1
             and isinstance(t.ops[0], ast.In)
             and src(t.comparators[0]) == f"{u}.type_list" for t in pos) and pos:
        return True
  return False


def _puts_any_into_types(mod, cls_name, seen=()):
  """Does visitor `cls_name` replace a non-union leaf type by AnythingType
  (directly, or through a visitor it applies to sub-trees)?"""
  if cls_name not in mod.classes or cls_name in seen:
    return False
  for name, m in _methods(mod, cls_name).items():
    if not name.startswith("Visit") or name == "VisitUnionType":
      continue
    for r in _returns(m):
      v = r.value
      if v is None:
        continue
      if _is_anything(v):
        return True
      d = dotted(v)
      if d and d.startswith("self."):
        init = _methods(mod, cls_name).get("__init__")
        if init is not None and any(
            isinstance(a, ast.Assign) and dotted(a.targets[0]) == d
            and _is_anything(a.value) for a in ast.walk(init)):
          return True
    for c in calls_in(m):
      if isinstance(c.func, ast.Attribute) and c.func.attr == "Visit" and \
          len(c.args) == 1 and isinstance(c.args[0], ast.Call):
        inner = (dotted(c.args[0].func) or "").split(".")[-1]
        if _puts_any_into_types(mod, inner, seen + (cls_name,)):
          return True
  return False


@rule("R11.5", "C11", floor=1)
def r11_5(ctx):
  """After a pass that can put Any into a union, unions are re-joined."""
  mod = _opt(ctx)
  fn = mod.func("Optimize")

  def passes(unit):
    return [(dotted(c.func) or "").split(".")[-1]
            for c in ast.walk(unit) if isinstance(c, ast.Call)] \
        if isinstance(unit, ast.AST) else []

  all_passes = sorted({p for n in ast.walk(fn) for p in passes(n)
                       if p in mod.classes})
  producers = [p for p in all_passes
               if _puts_any_into_types(mod, p) and not _rejoins_unions(mod, p)
               and p != "CollapseLongUnions"]
  joiners = [p for p in all_passes if _rejoins_unions(mod, p)]
  if "SimplifyUnions" not in joiners:
    raise AnalysisError(
        "SimplifyUnions is no longer recognised as a union re-joining pass")
  if not producers:
    raise AnalysisError(
        "no pass of Optimize was recognised as replacing a type by Any "
        "(AdjustReturnAndConstantGenericType expected)")

  def gen(unit):
    return ["joined"] if set(passes(unit)) & set(joiners) else []

  def kill(unit):
    p = set(passes(unit))
    if p & set(producers) and not p & set(joiners):
      return ["joined"]
    return None

  f = flow.flow(fn, gen, kill, mode="must")
  exits = [st for k, _, st in f.exits if k != "raise"]
  ok = bool(exits) and all(st is not None and "joined" in st for st in exits)
  # is there a re-join after the producer on *some* path?
  fm = flow.flow(fn, gen, kill, mode="may")
  some = any(st is not None and "joined" in st
             for k, _, st in fm.exits if k != "raise")
  facts = {"any_producers": producers, "union_joiners": joiners,
           "rejoined_on_every_path": ok, "rejoined_on_some_path": some}
  if ok:
    ctx.ok("Optimize:union-rejoin-after-Any-producer", OPT, fn.lineno, facts)
  elif some:
    ctx.bad("Optimize:union-rejoin-after-Any-producer", OPT, fn.lineno,
            f"{producers} can turn a union member into Any, and a re-joining "
            f"pass ({joiners}) follows only on some paths: on the others "
            "Optimize leaves Union[X, Any], which a second run collapses to "
            "Any", facts)
  else:
    ctx.bad("Optimize:no-union-rejoin-after-Any-producer", OPT, fn.lineno,
            f"{producers} replaces `object` by Any inside return/constant "
            f"types *after* the last union-joining pass ({joiners}): "
            "`def f() -> Union[list[int], object]` is emitted as "
            "Union[list[int], Any], and optimising that output again gives "
            "Any - Optimize is not idempotent", facts)


# -- R11.6: direction of the class-hierarchy queries --------------------------------

HIER = "SuperClassHierarchy"
# producers of a class-name -> [class-name] mapping and the direction they map in
_MAPPING_PRODUCERS = {
    "ExtractSuperClassesByName": "up", "ExtractSuperClasses": "up",
    "GetSuperClasses": "up", "GetSubClasses": "down",
}
_FLIP = {"up": "down", "down": "up"}


def _last(node):
  return (dotted(node) or "").split(".")[-1]


def _local_values(fn, name):
  """Values assigned to local `name` in fn (plain single-target assignments);
  None if it is bound in any other way."""
  out = []
  for n in walk_no_nested(fn):
    if isinstance(n, ast.Assign):
      for t in n.targets:
        if isinstance(t, ast.Name) and t.id == name:
          if len(n.targets) != 1:
            return None
          out.append(n.value)
        elif any(isinstance(x, ast.Name) and x.id == name
                 and isinstance(x.ctx, ast.Store) for x in ast.walk(t)):
          return None
    elif isinstance(n, (ast.AugAssign, ast.AnnAssign, ast.NamedExpr)):
      t = n.target
      if isinstance(t, ast.Name) and t.id == name:
        return None
    elif isinstance(n, (ast.For, ast.comprehension)):
      if any(isinstance(x, ast.Name) and x.id == name for x in ast.walk(n.target)):
        return None
  return out


def _mapping_direction(mod, fn, expr, what, depth=0):
  """Direction ('up': class -> superclasses, 'down': class -> subclasses) of a
  hierarchy mapping expression inside `fn`."""
  if depth > 5:
    raise AnalysisError(f"{what}: mapping provenance too deep")
  if isinstance(expr, ast.Call):
    last = _last(expr.func)
    if last in _MAPPING_PRODUCERS and not expr.args:
      return {_MAPPING_PRODUCERS[last]}
    if last == "invert_dict" and len(expr.args) == 1:
      return {_FLIP[d] for d in
              _mapping_direction(mod, fn, expr.args[0], what, depth + 1)}
    if last in ("dict", "copy", "deepcopy") and len(expr.args) <= 1:
      inner = expr.args[0] if expr.args else expr.func.value \
          if isinstance(expr.func, ast.Attribute) else None
      if inner is not None:
        return _mapping_direction(mod, fn, inner, what, depth + 1)
    if last == "Visit" and len(expr.args) == 1 and \
        isinstance(expr.args[0], ast.Call) and \
        _last(expr.args[0].func) in _MAPPING_PRODUCERS:
      return {_MAPPING_PRODUCERS[_last(expr.args[0].func)]}
  if isinstance(expr, ast.Name):
    vals = _local_values(fn, expr.id)
    if not vals:
      raise AnalysisError(f"{what}: `{expr.id}` is not a plainly assigned local")
    dirs = set()
    for v in vals:
      dirs |= _mapping_direction(mod, fn, v, what, depth + 1)
    # in-place merges: name.update(X)
    for c in calls_in(fn):
      if isinstance(c.func, ast.Attribute) and c.func.attr == "update" and \
          isinstance(c.func.value, ast.Name) and c.func.value.id == expr.id:
        if len(c.args) != 1 or c.keywords:
          raise AnalysisError(f"{what}: `{src(c)}` not understood")
        dirs |= _mapping_direction(mod, fn, c.args[0], what, depth + 1)
    return dirs
  raise AnalysisError(f"{what}: mapping expression `{src(expr)}` not understood")


def _hierarchy_model(ctx, mod):
  """-> (field -> direction, method -> set of directions, ctor site facts)."""
  def make():
    opt = mod.func("Optimize")
    ctor = [c for c in calls_in(opt) if _last(c.func) == HIER]
    if len(ctor) != 1 or len(ctor[0].args) != 1 or ctor[0].keywords:
      raise AnalysisError(f"Optimize: expected one {HIER}(<mapping>) call")
    arg_dirs = _mapping_direction(mod, opt, ctor[0].args[0], f"Optimize:{HIER}")
    init = _method(mod, HIER, "__init__")
    params = [a.arg for a in init.args.args[1:]]
    if len(params) != 1:
      raise AnalysisError(f"{HIER}.__init__ signature not understood")
    fields = {}

    def field_dir(expr, depth=0):
      if depth > 4:
        raise AnalysisError(f"{HIER}.__init__: field provenance too deep")
      if isinstance(expr, ast.Name) and expr.id == params[0]:
        return "param"
      d = dotted(expr)
      if d and d.startswith("self.") and d.count(".") == 1:
        f = d.split(".")[1]
        if f not in fields:
          raise AnalysisError(f"{HIER}.__init__: self.{f} read before set")
        return fields[f]
      if isinstance(expr, ast.Call):
        last = _last(expr.func)
        if last == "invert_dict" and len(expr.args) == 1:
          inner = field_dir(expr.args[0], depth + 1)
          return {"param": "~param", "~param": "param"}[inner]
        if last in ("dict", "copy", "deepcopy"):
          inner = expr.args[0] if expr.args else (
              expr.func.value if isinstance(expr.func, ast.Attribute) else None)
          if inner is not None and len(expr.args) <= 1 and not expr.keywords:
            return field_dir(inner, depth + 1)
      raise AnalysisError(
          f"{HIER}.__init__: field value `{src(expr)}` not understood")
    for st in init.body:
      if isinstance(st, ast.Expr) and isinstance(st.value, (ast.Constant, ast.Call)):
        if isinstance(st.value, ast.Call) and not src(st.value).startswith("super()"):
          raise AnalysisError(f"{HIER}.__init__: `{src(st)}` not understood")
        continue
      if not (isinstance(st, ast.Assign) and len(st.targets) == 1
              and (dotted(st.targets[0]) or "").startswith("self.")):
        raise AnalysisError(f"{HIER}.__init__: `{src(st)}` not understood")
      fields[dotted(st.targets[0]).split(".")[1]] = field_dir(st.value)
    methods = _methods(mod, HIER)
    # fields must not be rebound / mutated outside __init__
    for name, m in methods.items():
      if name == "__init__":
        continue
      for n in ast.walk(m):
        if isinstance(n, ast.Attribute) and dotted(n.value) == "self" and \
            n.attr in fields and not isinstance(n.ctx, ast.Load):
          raise AnalysisError(f"{HIER}.{name} rebinds self.{n.attr}")
    reads = {}

    def direct(m):
      return {n.attr for n in ast.walk(m) if isinstance(n, ast.Attribute)
              and dotted(n.value) == "self" and n.attr in fields}

    def callees(m):
      return {c.func.attr for c in calls_in(m)
              if isinstance(c.func, ast.Attribute) and dotted(c.func.value) == "self"
              and c.func.attr in methods}
    for name, m in methods.items():
      if name == "__init__":
        continue
      seen, todo, fs = set(), [name], set()
      while todo:
        x = todo.pop()
        if x in seen:
          continue
        seen.add(x)
        fs |= direct(methods[x])
        todo.extend(callees(methods[x]))
      reads[name] = fs
    return {"arg_dirs": arg_dirs, "fields": fields, "reads": reads,
            "ctor_line": ctor[0].lineno}
  return ctx.memo(("c11hier", mod.rel), make)


def _query_direction(model, meth, what):
  """Direction in which hierarchy method `meth` walks, as a set."""
  if meth not in model["reads"]:
    raise AnalysisError(f"{what}: `{meth}` is not a method of {HIER}")
  if len(model["arg_dirs"]) != 1:
    raise AnalysisError(f"{what}: the mapping handed to {HIER} has directions "
                        f"{sorted(model['arg_dirs'])}")
  base = next(iter(model["arg_dirs"]))
  out = set()
  for f in model["reads"][meth]:
    out.add(base if model["fields"][f] == "param" else _FLIP[base])
  return out


def _hierarchy_consumers(mod, fn):
  """Visitor classes constructed in Optimize with the hierarchy object:
  [(class name, constructor call)]."""
  locals_ = {n.targets[0].id for n in walk_no_nested(fn)
             if isinstance(n, ast.Assign) and len(n.targets) == 1
             and isinstance(n.targets[0], ast.Name)
             and isinstance(n.value, ast.Call) and _last(n.value.func) == HIER}
  # plain copies of such a local (`hierarchy = h`, e.g. the value an inlined
  # helper returns)
  grew = True
  while grew:
    grew = False
    for n in walk_no_nested(fn):
      if isinstance(n, ast.Assign) and len(n.targets) == 1 and \
          isinstance(n.targets[0], ast.Name) and isinstance(n.value, ast.Name) \
          and n.value.id in locals_ and n.targets[0].id not in locals_:
        locals_.add(n.targets[0].id)
        grew = True
  out = []
  for c in calls_in(fn):
    name = _last(c.func)
    if name == HIER or name not in mod.classes:
      continue
    if any(isinstance(a, ast.Name) and a.id in locals_ for a in c.args) or \
        any(isinstance(a, ast.Call) and _last(a.func) == HIER for a in c.args):
      out.append((name, c))
  return out


def _hierarchy_attr(mod, cls):
  """Attribute of visitor `cls` that holds the constructor's hierarchy argument."""
  init = _methods(mod, cls).get("__init__")
  if init is None or len(init.args.args) != 2:
    raise AnalysisError(f"{cls}.__init__(self, hierarchy) not recognised")
  p = init.args.args[1].arg
  attrs = [dotted(n.targets[0]).split(".")[1] for n in ast.walk(init)
           if isinstance(n, ast.Assign) and len(n.targets) == 1
           and (dotted(n.targets[0]) or "").startswith("self.")
           and isinstance(n.value, ast.Name) and n.value.id == p]
  if len(attrs) != 1:
    raise AnalysisError(f"{cls}.__init__ does not store its hierarchy argument once")
  return attrs[0]


def _hierarchy_queries(mod, m, attr):
  """[(call, method name)] for self.<attr>.<M>(..) calls in method m, also
  through a local alias `h = self.<attr>`."""
  aliases = {n.targets[0].id for n in walk_no_nested(m)
             if isinstance(n, ast.Assign) and len(n.targets) == 1
             and isinstance(n.targets[0], ast.Name)
             and dotted(n.value) == f"self.{attr}"}
  out = []
  for c in calls_in(m):
    if not isinstance(c.func, ast.Attribute):
      continue
    recv = c.func.value
    if dotted(recv) == f"self.{attr}" or \
        (isinstance(recv, ast.Name) and recv.id in aliases):
      out.append((c, c.func.attr))
  return out


def _rename(expr, old, new="_"):
  class T(ast.NodeTransformer):
    def visit_Name(self, node):
      return ast.Name(id=new, ctx=node.ctx) if node.id == old else node
  import copy
  return src(T().visit(copy.deepcopy(expr)))


def _join_arg(mod, m, u):
  """The (resolved) argument of the `return ..JoinTypes(X)` of a VisitUnionType
  whose other returns give back the input union unchanged."""
  joins = []
  for r in _returns(m):
    v = r.value
    if isinstance(v, ast.Name) and v.id == u:
      continue
    if isinstance(v, ast.Call) and _last(v.func) == "JoinTypes" and \
        len(v.args) == 1 and not v.keywords:
      joins.append(v.args[0])
    else:
      raise AnalysisError(
          f"{m.name}: return value `{src(v) if v is not None else None}` "
          "not understood")
  if len(joins) != 1:
    raise AnalysisError(f"{m.name}: expected one `return ..JoinTypes(..)`")
  x = joins[0]
  for _ in range(3):
    if isinstance(x, ast.Call) and _last(x.func) in ("tuple", "list") and \
        len(x.args) == 1:
      x = x.args[0]
    elif isinstance(x, ast.Name):
      vals = _local_values(m, x.id)
      if not vals or len(vals) != 1:
        raise AnalysisError(f"{m.name}: `{x.id}` is not assigned exactly once")
      x = vals[0]
  return x


def _count_threshold(cond, t):
  """`C[K] <= 1` / `C[K] < 2` / `not C[K] > 1` / `not C[K] >= 2` -> (C, K src
  with the member variable renamed); None if not that idiom."""
  neg = False
  while isinstance(cond, ast.UnaryOp) and isinstance(cond.op, ast.Not):
    cond, neg = cond.operand, not neg
  if not (isinstance(cond, ast.Compare) and len(cond.ops) == 1):
    return None
  l, op, r = cond.left, cond.ops[0], cond.comparators[0]
  if not (isinstance(l, ast.Subscript) and isinstance(l.value, ast.Name)
          and isinstance(r, ast.Constant) and isinstance(r.value, int)):
    return None
  keeps_single = (
      (not neg and isinstance(op, ast.LtE) and r.value == 1) or
      (not neg and isinstance(op, ast.Lt) and r.value == 2) or
      (neg and isinstance(op, ast.Gt) and r.value == 1) or
      (neg and isinstance(op, ast.GtE) and r.value == 2))
  if not keeps_single:
    return None
  return l.value.id, _rename(l.slice, t)


def _counter_of_generator(mod, m, call, st, counter, u, what):
  """`COUNT = [collections.]Counter(N for T in <..u.type_list..> [if ..] for N in
  <call>)`: the closure of every (selected) member is counted element by
  element, exactly what `COUNT += Counter(<call>)` in a loop over the members
  does.  -> T (the member variable), or None if `call` is not in that position."""
  comp = mod.parent.get(mod.parent.get(call))
  if not (isinstance(mod.parent.get(call), ast.comprehension)
          and isinstance(comp, (ast.GeneratorExp, ast.ListComp))):
    return None
  ctor = mod.parent.get(comp)
  if not (isinstance(st, ast.Assign) and len(st.targets) == 1
          and isinstance(st.targets[0], ast.Name) and st.targets[0].id == counter
          and isinstance(ctor, ast.Call) and st.value is ctor
          and _last(ctor.func) == "Counter" and ctor.args == [comp]
          and not ctor.keywords):
    return None
  gens = comp.generators
  if not (len(gens) == 2 and gens[1].iter is call and not gens[1].ifs
          and isinstance(gens[1].target, ast.Name)
          and isinstance(comp.elt, ast.Name) and comp.elt.id == gens[1].target.id
          and isinstance(gens[0].target, ast.Name)
          and gens[0].target.id != gens[1].target.id
          and not any(g.is_async for g in gens)):
    raise AnalysisError(
        f"{what}: `{src(st)[:120]}` counts something other than the elements "
        "of one closure per union member")
  if f"{u}.type_list" not in src(gens[0].iter):
    raise AnalysisError(
        f"{what}: `{src(call)}` is not evaluated once per union member")
  vals = _local_values(m, counter)
  if vals is None or len(vals) != 1:
    raise AnalysisError(f"{what}: the counter `{counter}` is bound more than once")
  return gens[0].target.id


def _absorb_shape(mod, cls, m, u, attr, model):
  """Subset shape: `return JoinTypes([t for t in u.type_list if COUNT[key(t)]
  <= 1])` where COUNT accumulates the closure of every member.
  -> (verdict, facts)."""
  what = f"{cls}.{m.name}"
  comp = _join_arg(mod, m, u)
  if not (isinstance(comp, (ast.ListComp, ast.GeneratorExp))
          and len(comp.generators) == 1
          and isinstance(comp.generators[0].target, ast.Name)
          and isinstance(comp.elt, ast.Name)
          and comp.elt.id == comp.generators[0].target.id
          and src(comp.generators[0].iter) == f"{u}.type_list"):
    return None
  g = comp.generators[0]
  t = g.target.id
  if len(g.ifs) != 1:
    raise AnalysisError(f"{what}: member filter has {len(g.ifs)} conditions")
  ct = _count_threshold(g.ifs[0], t)
  if ct is None:
    raise AnalysisError(
        f"{what}: member filter `{src(g.ifs[0])}` is not the "
        "`count[key(member)] <= 1` idiom")
  counter, key = ct
  queries = _hierarchy_queries(mod, m, attr)
  if not queries:
    raise AnalysisError(f"{what}: no query of self.{attr} found")
  feeding = []
  for call, meth in queries:
    st = mod.enclosing_stmt(call)
    member = _counter_of_generator(mod, m, call, st, counter, u, what)
    if member is not None:
      # COUNT = Counter(name for T in <u.type_list> [if ..] for name in QUERY(key(T)))
      if len(call.args) != 1 or _rename(call.args[0], member) != key:
        raise AnalysisError(
            f"{what}: closure is keyed by `{src(call.args[0]) if call.args else ''}` "
            f"but the filter probes `{src(g.ifs[0])}`")
      feeding.append((meth, sorted(_query_direction(model, meth, what))))
      continue
    feeds = (isinstance(st, ast.AugAssign) and isinstance(st.op, ast.Add)
             and isinstance(st.target, ast.Name) and st.target.id == counter) or (
                 isinstance(st, ast.Expr) and isinstance(st.value, ast.Call)
                 and isinstance(st.value.func, ast.Attribute)
                 and st.value.func.attr == "update"
                 and isinstance(st.value.func.value, ast.Name)
                 and st.value.func.value.id == counter)
    if not feeds:
      raise AnalysisError(
          f"{what}: hierarchy query `{src(call)}` does not feed the counter "
          f"`{counter}`: its role is not understood")
    # the member the closure is taken of: the enclosing loop's variable
    loop = mod.parent.get(st)
    while loop is not None and not isinstance(loop, (ast.For,) + _FUNCS):
      loop = mod.parent.get(loop)
    if not (isinstance(loop, ast.For) and isinstance(loop.target, ast.Name)
            and f"{u}.type_list" in src(loop.iter)):
      raise AnalysisError(
          f"{what}: `{src(call)}` is not evaluated once per union member")
    if len(call.args) != 1 or _rename(call.args[0], loop.target.id) != key:
      raise AnalysisError(
          f"{what}: closure is keyed by `{src(call.args[0]) if call.args else ''}` "
          f"but the filter probes `{src(g.ifs[0])}`")
    feeding.append((meth, sorted(_query_direction(model, meth, what))))
  facts = {"shape": "drop members counted in more than one member's closure",
           "closures": [f"{mth}:{'/'.join(ds)}" for mth, ds in feeding]}
  return _direction_verdict(what, feeding, "down"), facts


def _direction_verdict(what, feeding, want):
  """True if every closure walks `want`; False if some closure definitely
  walks the other way; AnalysisError if a closure reads both tables."""
  for meth, ds in feeding:
    if len(ds) != 1:
      raise AnalysisError(
          f"{what}: {HIER}.{meth} reads tables of direction {ds}: its "
          "direction is not definite")
  return all(ds == [want] for _, ds in feeding)


def _common_shape(mod, cls, m, u, attr, model):
  """Join shape: the result types are built from names drawn out of a set that
  is the intersection of one closure per member."""
  what = f"{cls}.{m.name}"
  comp = _join_arg(mod, m, u)
  if not (isinstance(comp, (ast.ListComp, ast.GeneratorExp))
          and len(comp.generators) == 1
          and isinstance(comp.generators[0].iter, ast.Name)):
    return None
  acc = comp.generators[0].iter.id
  pruning = {id(c) for cond in comp.generators[0].ifs
             for c in ast.walk(cond) if isinstance(c, ast.Call)}
  feeding = []
  covered = []
  for call, meth in _hierarchy_queries(mod, m, attr):
    if id(call) in pruning:
      continue
    par = mod.parent.get(call)
    st = mod.enclosing_stmt(call)
    if isinstance(par, ast.Assign) and len(par.targets) == 1 and \
        isinstance(par.targets[0], ast.Name) and par.targets[0].id == acc:
      pass
    elif isinstance(par, ast.Call) and isinstance(par.func, ast.Attribute) and \
        par.func.attr in ("intersection_update", "intersection") and \
        isinstance(par.func.value, ast.Name) and par.func.value.id == acc:
      pass
    elif isinstance(par, ast.AugAssign) and isinstance(par.op, ast.BitAnd) and \
        isinstance(par.target, ast.Name) and par.target.id == acc:
      pass
    else:
      raise AnalysisError(
          f"{what}: hierarchy query `{src(call)}` does not flow into the "
          f"candidate set `{acc}` by assignment / intersection")
    loop = mod.parent.get(st)
    while loop is not None and not isinstance(loop, (ast.For,) + _FUNCS):
      loop = mod.parent.get(loop)
    covered.append(src(loop.iter) if isinstance(loop, ast.For)
                   else src(call.args[0]) if call.args else "?")
    feeding.append((meth, sorted(_query_direction(model, meth, what))))
  if not feeding:
    raise AnalysisError(f"{what}: no closure feeds the candidate set `{acc}`")
  for n in walk_no_nested(m):
    if isinstance(n, ast.Call) and isinstance(n.func, ast.Attribute) and \
        isinstance(n.func.value, ast.Name) and n.func.value.id == acc and \
        n.func.attr in ("update", "add", "union"):
      raise AnalysisError(f"{what}: candidate set `{acc}` is also grown")
  whole = any(c == f"{u}.type_list" for c in covered) or (
      any(f"{u}.type_list[0]" in c for c in covered)
      and any(c == f"{u}.type_list[1:]" for c in covered))
  if not whole:
    raise AnalysisError(
        f"{what}: closures are taken over {covered}: cannot see that every "
        "member of the union is covered")
  facts = {"shape": "join of names common to one closure per member",
           "closures": [f"{mth}:{'/'.join(ds)}" for mth, ds in feeding],
           "members_covered": covered}
  return _direction_verdict(what, feeding, "up"), facts


def check_hierarchy_direction(ctx):
  """Shared by R11.6 and R1.6 (C01)."""
  mod = _opt(ctx)
  fn = mod.func("Optimize")
  model = _hierarchy_model(ctx, mod)
  dirs = sorted(model["arg_dirs"])
  both = set(model["fields"].values()) == {"param", "~param"}
  ctx.check(dirs == ["up"] and both, f"{HIER}:mapping-direction", OPT,
            model["ctor_line"],
            f"Optimize builds {HIER} from a mapping with direction(s) {dirs} "
            f"and its fields are {model['fields']}: a class -> superclasses "
            "mapping and its inversion are needed to answer both kinds of query",
            {"mapping": dirs, "fields": model["fields"],
             "method_reads": {k: sorted(v) for k, v in model["reads"].items()}})
  consumers = _hierarchy_consumers(mod, fn)
  if not consumers:
    raise AnalysisError("Optimize: no visitor is constructed with the hierarchy")
  seen = set()
  for cls, call in consumers:
    if cls in seen:
      continue
    seen.add(cls)
    m = _methods(mod, cls).get("VisitUnionType")
    if m is None or len(m.args.args) != 2:
      raise AnalysisError(f"{cls}: VisitUnionType(self, union) not found")
    u = m.args.args[1].arg
    attr = _hierarchy_attr(mod, cls)
    res = _absorb_shape(mod, cls, m, u, attr, model)
    if res is not None:
      ok, facts = res
      ctx.check(ok, f"{cls}.VisitUnionType:absorbed-member-is-a-subclass", OPT,
                m.lineno,
                f"{cls} drops a union member when it lies in the closure "
                f"{facts['closures']} of another member; only a member of "
                "another member's SUBclass closure is covered by what stays "
                "(Union[A, B(A)] must become A, not B): with the superclass "
                "closure the union is narrowed to the subclass", facts)
      continue
    res = _common_shape(mod, cls, m, u, attr, model)
    if res is not None:
      ok, facts = res
      ctx.check(ok, f"{cls}.VisitUnionType:joined-type-is-a-common-superclass",
                OPT, m.lineno,
                f"{cls} replaces a union by names common to the closures "
                f"{facts['closures']} of its members; only common SUPERclasses "
                "admit every member", facts)
      continue
    raise AnalysisError(
        f"{cls}.VisitUnionType: neither the subset-filter nor the "
        "common-closure shape; the role of its hierarchy queries is unknown")


@rule("R11.6", "C11", floor=3)
def r11_6(ctx):
  """Hierarchy-based union rewriting walks the hierarchy in the widening
  direction."""
  check_hierarchy_direction(ctx)


# -- R11.7: bare-class consumers run on simplified containers ---------------------------

def _applied_passes(mod, fn, unit):
  """Names of the visitor classes applied (`X.Visit(P(..))`, also through a
  local bound to `P(..)`) when `unit` is evaluated."""
  out = set()
  if not isinstance(unit, ast.AST):
    return out
  for c in ast.walk(unit):
    if isinstance(c, ast.Call) and isinstance(c.func, ast.Attribute) and \
        c.func.attr == "Visit" and len(c.args) == 1:
      a = c.args[0]
      if isinstance(a, ast.Name):
        vals = _local_values(fn, a.id)
        if not vals or len(vals) != 1 or not isinstance(vals[0], ast.Call):
          raise AnalysisError(
              f"Optimize: visitor object `{a.id}` is not bound exactly once")
        a = vals[0]
      if isinstance(a, ast.Call):
        out.add(_last(a.func))
      else:
        raise AnalysisError(f"Optimize: `{src(c)}` applies an unknown visitor")
  return out


@rule("R11.7", "C11", floor=3)
def r11_7(ctx):
  """A pass that reasons about bare class names runs on simplified containers."""
  mod = _opt(ctx)
  fn = mod.func("Optimize")
  consumers = {}
  for cls, call in _hierarchy_consumers(mod, fn):
    consumers.setdefault(cls, call)
  if not consumers:
    raise AnalysisError("Optimize: no visitor is constructed with the hierarchy")
  for cls in consumers:
    m = _methods(mod, cls).get("VisitUnionType")
    if m is None:
      raise AnalysisError(f"{cls}: VisitUnionType not found")
    attr = _hierarchy_attr(mod, cls)
    qs = _hierarchy_queries(mod, m, attr)
    # the hierarchy is keyed by class name: X[Any] prints as "X[Any]", which is
    # no key of it, so only the bare class X takes part
    named = [c for c, _ in qs if c.args and isinstance(c.args[0], ast.Call)
             and dotted(c.args[0].func) == "str"]
    looks_inside = any(isinstance(n, ast.Attribute) and n.attr == "base_type"
                       for n in ast.walk(m))
    if not named or looks_inside:
      raise AnalysisError(
          f"{cls}.VisitUnionType no longer keys the hierarchy by str(member) "
          "only: whether it needs simplified containers is unknown")
  normaliser = "SimplifyContainers"

  def gen(unit):
    return ["bare"] if normaliser in _applied_passes(mod, fn, unit) else []

  def kill(unit):
    p = _applied_passes(mod, fn, unit)
    if p & CREATES_ANY_CONTAINER and normaliser not in p:
      return ["bare"]
    return None

  f = flow.flow(fn, gen, kill, mode="must")
  sites = {}
  order = _u.stmt_order(fn)   # source order, also of statements inlined from helpers
  for n in ast.walk(fn):
    if isinstance(n, ast.stmt) and not isinstance(
        n, _FUNCS + (ast.If, ast.For, ast.While, ast.With, ast.Try)):
      for cls in _applied_passes(mod, fn, n) & set(consumers):
        sites.setdefault(cls, []).append(n)
  last_consumer_line = 0
  last_consumer_rank = -1
  for cls in sorted(consumers):
    if cls not in sites:
      raise AnalysisError(f"Optimize constructs {cls} but never applies it")
    for i, st in enumerate(sites[cls]):
      before = f.before.get(st)
      if before is None:
        raise AnalysisError(f"Optimize: application of {cls} is unreachable")
      last_consumer_line = max(last_consumer_line, st.lineno)
      last_consumer_rank = max(last_consumer_rank, order[st])
      construct = f"Optimize:{cls}:runs-on-simplified-containers" + (
          "" if i == 0 else f"#{i + 1}")
      ctx.check("bare" in before, construct, OPT, st.lineno,
                f"{cls} only relates bare class names (it keys the hierarchy "
                f"by str(member)), but on some path to it no {normaliser} has "
                "run since the input / the last pass that can create X[Any] "
                f"({sorted(CREATES_ANY_CONTAINER)}): Union[Sub, X[Any]] is "
                f"left alone, the final {normaliser} turns it into "
                "Union[Sub, X], and optimising that output again drops Sub - "
                "Optimize is not idempotent",
                {"normaliser": normaliser,
                 "simplified_on_every_path": "bare" in before})
  # recorded, not judged (see EXPLANATION): creators that run after the last
  # bare-class consumer and are followed by the final normaliser
  late = sorted({p for n in ast.walk(fn) if isinstance(n, ast.stmt)
                 and not isinstance(n, _FUNCS + (ast.If, ast.For, ast.While,
                                                 ast.With, ast.Try))
                 and order[n] > last_consumer_rank
                 for p in _applied_passes(mod, fn, n) & CREATES_ANY_CONTAINER})
  ctx.check(not late, "Optimize:no-X[Any]-producer-after-last-hierarchy-pass", OPT,
            last_consumer_line,
            f"{late} can create X[Any] after the last bare-class consumer; the "
            "final SimplifyContainers then exposes a bare X that no hierarchy "
            "pass sees in this run (Union[Stack, list[object]] -> "
            "Union[Stack, list], and -> list on a second run): Optimize is "
            "not idempotent (defect D46, repaired by 2abd347)",
            {"late_producers": late})


VARIANTS = [
    # R11.1
    {"name": "generate_pyi_ast-lossy", "rule": "R11.1", "file": IO, "expect": "fire",
     "old": "        lossy=False,", "new": "        lossy=True,"},
    {"name": "generate_pyi_ast-remove-mutable-from-options", "rule": "R11.1", "file": IO, "expect": "fire",
     "old": "        remove_mutable=False,", "new": "        remove_mutable=options.protocols,"},
    {"name": "generate_pyi_ast-use-abcs", "rule": "R11.1", "file": IO, "expect": "fire",
     "old": "        use_abcs=False,", "new": "        use_abcs=True,"},
    {"name": "Optimize-default-lossy", "rule": "R11.1", "file": OPT, "expect": "fire",
     "old": "    deps=None,\n    lossy=False,", "new": "    deps=None,\n    lossy=True,"},
    {"name": "return-type-join-lossy", "rule": "R11.1", "file": PYTDFN, "expect": "fire",
     "old": "ret_type = optimize.Optimize(pytd_utils.JoinTypes(options))",
     "new": "ret_type = optimize.Optimize(pytd_utils.JoinTypes(options), None, True)"},
    {"name": "twin-generate_pyi_ast-omit-defaults", "rule": "R11.1", "file": IO, "expect": "silent",
     "old": "        lossy=False,\n        use_abcs=False,\n        max_union=7,\n        remove_mutable=False,\n",
     "new": "        max_union=7,\n        lossy=False,\n"},
    {"name": "twin-printer-explicit-flags", "rule": "R11.1", "file": PRINTER, "expect": "silent",
     "old": "optimize.Optimize(pytd_type.Visit(visitors.RemoveUnknownClasses()))",
     "new": "optimize.Optimize(pytd_type.Visit(visitors.RemoveUnknownClasses()), None, False, use_abcs=False)"},
    # R11.2
    {"name": "FindCommonSuperClasses-unguarded", "rule": "R11.2", "file": OPT, "expect": "fire",
     "old": "    if lossy:\n      node = node.Visit(FindCommonSuperClasses(hierarchy))",
     "new": "    if hierarchy:\n      node = node.Visit(FindCommonSuperClasses(hierarchy))"},
    {"name": "abcs-guard-inverted", "rule": "R11.2", "file": OPT, "expect": "fire",
     "old": "    if use_abcs:\n      superclasses.update(abc_hierarchy.GetSuperClasses())",
     "new": "    if not use_abcs:\n      superclasses.update(abc_hierarchy.GetSuperClasses())"},
    {"name": "absorb-mutable-hoisted", "rule": "R11.2", "file": OPT, "expect": "fire",
     "old": "  if remove_mutable:\n    node = node.Visit(AbsorbMutableParameters())\n",
     "new": "  node = node.Visit(AbsorbMutableParameters())\n  if remove_mutable:\n"},
    {"name": "collapse-unions-unconditional", "rule": "R11.2", "file": OPT, "expect": "fire",
     "old": "  if max_union:\n    node = node.Visit(CollapseLongUnions(max_union))",
     "new": "  if True:\n    node = node.Visit(CollapseLongUnions(max_union or 7))"},
    {"name": "lossy-guard-weakened-to-or", "rule": "R11.2", "file": OPT, "expect": "fire",
     "old": "    if lossy:\n      node = node.Visit(FindCommonSuperClasses(hierarchy))",
     "new": "    if lossy or use_abcs:\n      node = node.Visit(FindCommonSuperClasses(hierarchy))"},
    {"name": "unknown-pass-added", "rule": "R11.2", "file": OPT, "expect": "error",
     "old": "  node = node.Visit(CombineReturnsAndExceptions())\n",
     "new": "  node = node.Visit(CombineReturnsAndExceptions())\n  node = node.Visit(AddInheritedMethods())\n"},
    {"name": "twin-lossy-guard-conjunction", "rule": "R11.2", "file": OPT, "expect": "silent",
     "old": "    if lossy:\n      node = node.Visit(FindCommonSuperClasses(hierarchy))",
     "new": "    if lossy and hierarchy:\n      finder = FindCommonSuperClasses(hierarchy)\n      node = node.Visit(finder)"},
    {"name": "twin-lossy-pass-built-outside-guard", "rule": "R11.2", "file": OPT, "expect": "silent",
     "old": "    if lossy:\n      node = node.Visit(FindCommonSuperClasses(hierarchy))",
     "new": "    finder = FindCommonSuperClasses(hierarchy)\n    if lossy:\n      node = node.Visit(finder)"},
    {"name": "twin-lossy-guard-negated-else", "rule": "R11.2", "file": OPT, "expect": "silent",
     "old": "    if lossy:\n      node = node.Visit(FindCommonSuperClasses(hierarchy))",
     "new": "    if not lossy:\n      pass\n    else:\n      node = node.Visit(FindCommonSuperClasses(hierarchy))"},
    # R11.3
    {"name": "collapse-to-object", "rule": "R11.3", "file": OPT, "expect": "fire",
     "old": "    self.generic_type = pytd.AnythingType()\n    self.max_length = max_length",
     "new": "    self.generic_type = pytd.ClassType(\"builtins.object\")\n    self.max_length = max_length"},
    {"name": "collapse-truncates-union", "rule": "R11.3", "file": OPT, "expect": "fire",
     "old": "      return self.generic_type\n    elif self.generic_type in union.type_list:",
     "new": "      return pytd_utils.JoinTypes(union.type_list[: self.max_length])\n    elif self.generic_type in union.type_list:"},
    {"name": "collapse-long-arm-returns-input", "rule": "R11.3", "file": OPT, "expect": "fire",
     "old": "      return self.generic_type\n    elif self.generic_type in union.type_list:",
     "new": "      return union\n    elif self.generic_type in union.type_list:"},
    {"name": "join-any-arm-drops-any", "rule": "R11.3", "file": UTILS, "expect": "fire",
     "old": "      return pytd.UnionType((pytd.AnythingType(), nonetype))\n    return pytd.AnythingType()",
     "new": "      return pytd.UnionType((pytd.AnythingType(), nonetype))\n    return pytd.UnionType(tuple(new_types[:1]))"},
    {"name": "join-any-none-arm-returns-none", "rule": "R11.3", "file": UTILS, "expect": "fire",
     "old": "      return pytd.UnionType((pytd.AnythingType(), nonetype))",
     "new": "      return nonetype"},
    {"name": "twin-collapse-reordered-arms", "rule": "R11.3", "file": OPT, "expect": "silent",
     "old": "    elif self.generic_type in union.type_list:\n      return pytd_utils.JoinTypes(union.type_list)\n    else:\n      return union",
     "new": "    if self.generic_type not in union.type_list:\n      return union\n    return pytd_utils.JoinTypes(union.type_list)"},
    # R11.5 (today's instance is a known finding under its own construct name;
    # the variants repair it, or repair it on one path only)
    {"name": "twin-rejoin-after-adjust", "rule": "R11.5", "file": OPT, "expect": "silent",
     "old": "  node = node.Visit(AdjustReturnAndConstantGenericType())\n",
     "new": "  node = node.Visit(AdjustReturnAndConstantGenericType())\n  node = node.Visit(SimplifyUnions())\n"},
    {"name": "twin-adjust-moved-before-simplify-unions", "rule": "R11.5", "expect": "silent",
     "edits": [(OPT, "  node = node.Visit(AdjustReturnAndConstantGenericType())\n", ""),
               (OPT, "  node = node.Visit(RemoveDuplicates())\n",
                "  node = node.Visit(AdjustReturnAndConstantGenericType())\n  node = node.Visit(RemoveDuplicates())\n")]},
    {"name": "revert-D26-no-rejoin-after-adjust", "rule": "R11.5", "file": OPT, "expect": "fire",
     "old": "  # Turning `object` into `Any` above can put Any into a union; join again.\n  node = node.Visit(SimplifyUnions())\n",
     "new": ""},
    {"name": "rejoin-after-adjust-only-when-remove-mutable", "rule": "R11.5", "file": OPT, "expect": "fire",
     "old": "  # Turning `object` into `Any` above can put Any into a union; join again.\n  node = node.Visit(SimplifyUnions())\n  if remove_mutable:\n",
     "new": "  if remove_mutable:\n    node = node.Visit(SimplifyUnions())\n"},
    # R11.4
    {"name": "final-simplify-containers-dropped", "rule": "R11.4", "file": OPT, "expect": "fire",
     "old": "    node = node.Visit(visitors.AdjustSelf())\n  node = node.Visit(SimplifyContainers())\n",
     "new": "    node = node.Visit(visitors.AdjustSelf())\n"},
    {"name": "final-simplify-containers-only-when-mutable", "rule": "R11.4", "file": OPT, "expect": "fire",
     "old": "    node = node.Visit(visitors.AdjustSelf())\n  node = node.Visit(SimplifyContainers())\n",
     "new": "    node = node.Visit(visitors.AdjustSelf())\n    node = node.Visit(SimplifyContainers())\n"},
    {"name": "collapse-moved-after-final-simplify", "rule": "R11.4", "expect": "fire",
     "edits": [(OPT, "  if max_union:\n    node = node.Visit(CollapseLongUnions(max_union))\n", ""),
               (OPT, "  if deps and can_do_lookup:\n    node = visitors.LookupClasses(",
                "  if max_union:\n    node = node.Visit(CollapseLongUnions(max_union))\n  if deps and can_do_lookup:\n    node = visitors.LookupClasses(")]},
    {"name": "simplify-any-param-suffices", "rule": "R11.4", "file": OPT, "expect": "fire",
     "old": "    if all(isinstance(p, pytd.AnythingType) for p in t.parameters):\n      return t.base_type",
     "new": "    if any(isinstance(p, pytd.AnythingType) for p in t.parameters):\n      return t.base_type"},
    {"name": "twin-final-simplify-renamed-local", "rule": "R11.4", "file": OPT, "expect": "silent",
     "old": "    node = node.Visit(visitors.AdjustSelf())\n  node = node.Visit(SimplifyContainers())\n",
     "new": "    node = node.Visit(visitors.AdjustSelf())\n  simplifier = SimplifyContainers()\n  node = node.Visit(simplifier)\n"},
    # R11.6
    {"name": "seeded-C01-m1", "rule": "R11.6", "patch": "seeded/C01-m1/patch.diff", "expect": "fire"},
    {"name": "expand-subclasses-walks-superclass-table", "rule": "R11.6", "file": OPT, "expect": "fire",
     "old": "        queue.extend(self._subclasses[item])",
     "new": "        queue.extend(self._superclasses.get(item, []))"},
    {"name": "subclass-table-not-inverted", "rule": "R11.6", "file": OPT, "expect": "fire",
     "old": "    self._subclasses = utils.invert_dict(self._superclasses)",
     "new": "    self._subclasses = dict(self._superclasses)"},
    {"name": "hierarchy-built-from-subclass-mapping", "rule": "R11.6", "file": OPT, "expect": "fire",
     "old": "      superclasses.update(abc_hierarchy.GetSuperClasses())",
     "new": "      superclasses.update(abc_hierarchy.GetSubClasses())"},
    {"name": "common-superclass-uses-subclass-closure", "rule": "R11.6", "file": OPT, "expect": "fire",
     "old": "      intersection.intersection_update(\n          self.hierarchy.ExpandSuperClasses(str(t))\n      )",
     "new": "      intersection.intersection_update(\n          self.hierarchy.ExpandSubClasses(str(t))\n      )"},
    {"name": "absorb-by-superclass-membership-idiom", "rule": "R11.6", "file": OPT, "expect": "error",
     "old": "    new_type_list = [t for t in union.type_list if c[str(t)] <= 1]",
     "new": "    names = {str(t) for t in union.type_list}\n    new_type_list = [t for t in union.type_list if not (self.hierarchy.ExpandSuperClasses(str(t)) - {str(t)}) & names]"},
    {"name": "twin-absorb-counter-renamed-update-form", "rule": "R11.6", "expect": "silent",
     "edits": [(OPT, "    c = collections.Counter()\n    for t in set(union.type_list):",
                "    seen_in = collections.Counter()\n    for member in set(union.type_list):"),
               (OPT, "      if isinstance(t, pytd.GENERIC_BASE_TYPE):\n        c += collections.Counter(self.hierarchy.ExpandSubClasses(str(t)))",
                "      if isinstance(member, pytd.GENERIC_BASE_TYPE):\n        seen_in.update(self.hierarchy.ExpandSubClasses(str(member)))"),
               (OPT, "    new_type_list = [t for t in union.type_list if c[str(t)] <= 1]",
                "    new_type_list = [t for t in union.type_list if seen_in[str(t)] < 2]")]},
    {"name": "twin-absorb-hierarchy-alias-and-inline-return", "rule": "R11.6", "expect": "silent",
     "edits": [(OPT, "    c = collections.Counter()\n    for t in set(union.type_list):",
                "    c = collections.Counter()\n    h = self.hierarchy\n    for t in set(union.type_list):"),
               (OPT, "        c += collections.Counter(self.hierarchy.ExpandSubClasses(str(t)))",
                "        c += collections.Counter(h.ExpandSubClasses(str(t)))"),
               (OPT, "    new_type_list = [t for t in union.type_list if c[str(t)] <= 1]\n    return pytd_utils.JoinTypes(new_type_list)",
                "    return pytd_utils.JoinTypes(\n        [x for x in union.type_list if not c[str(x)] > 1])")]},
    {"name": "twin-hierarchy-mapping-copied", "rule": "R11.6", "file": OPT, "expect": "silent",
     "old": "    hierarchy = SuperClassHierarchy(superclasses)",
     "new": "    by_name = dict(superclasses)\n    hierarchy = SuperClassHierarchy(by_name)"},
    # R11.7
    {"name": "seeded-C11-m2", "rule": "R11.7", "patch": "seeded/C11-m2/patch.diff", "expect": "fire"},
    {"name": "first-simplify-containers-before-combine", "rule": "R11.7", "file": OPT, "expect": "fire",
     "old": "  node = node.Visit(CombineContainers())\n  node = node.Visit(SimplifyContainers())\n  if deps:",
     "new": "  node = node.Visit(SimplifyContainers())\n  node = node.Visit(CombineContainers())\n  if deps:"},
    {"name": "first-simplify-containers-only-with-max-union", "rule": "R11.7", "file": OPT, "expect": "fire",
     "old": "  node = node.Visit(CombineContainers())\n  node = node.Visit(SimplifyContainers())\n  if deps:",
     "new": "  node = node.Visit(CombineContainers())\n  if max_union:\n    node = node.Visit(SimplifyContainers())\n  if deps:"},
    {"name": "collapse-long-unions-before-hierarchy-pass", "rule": "R11.7", "expect": "fire",
     "edits": [(OPT, "  if max_union:\n    node = node.Visit(CollapseLongUnions(max_union))\n", ""),
               (OPT, "  node = node.Visit(CombineContainers())\n  node = node.Visit(SimplifyContainers())\n  if deps:",
                "  node = node.Visit(CombineContainers())\n  node = node.Visit(SimplifyContainers())\n  if max_union:\n    node = node.Visit(CollapseLongUnions(max_union))\n  if deps:")]},
    {"name": "twin-first-simplify-on-both-arms", "rule": "R11.7", "expect": "silent",
     "edits": [(OPT, "  node = node.Visit(CombineContainers())\n  node = node.Visit(SimplifyContainers())\n  if deps:\n",
                "  node = node.Visit(CombineContainers())\n  if deps:\n    node = node.Visit(SimplifyContainers())\n"),
               (OPT, "  if max_union:\n    node = node.Visit(CollapseLongUnions(max_union))\n",
                "  else:\n    node = node.Visit(SimplifyContainers())\n  if max_union:\n    node = node.Visit(CollapseLongUnions(max_union))\n")]},
    {"name": "twin-first-simplify-bound-to-local", "rule": "R11.7", "file": OPT, "expect": "silent",
     "old": "  node = node.Visit(CombineContainers())\n  node = node.Visit(SimplifyContainers())\n  if deps:",
     "new": "  node = node.Visit(CombineContainers())\n  drop_any_params = SimplifyContainers()\n  node = node.Visit(drop_any_params)\n  if deps:"},
    {"name": "twin-hierarchy-pass-object-built-early", "rule": "R11.7", "expect": "silent",
     "edits": [(OPT, "    hierarchy = SuperClassHierarchy(superclasses)\n    node = node.Visit(SimplifyUnionsWithSuperclasses(hierarchy))",
                "    hierarchy = SuperClassHierarchy(superclasses)\n    absorb = SimplifyUnionsWithSuperclasses(hierarchy)\n    node = node.Visit(absorb)")]},
    # second batch of behaviour-preserving refactorings: the refactored shape is a
    # must-silent twin, refactoring + defect must fire (benign/<id>/*.diff)
    {"name": "twin-benign-C11-r1-jointypes-early-returns", "rule": "R11.3", "patch": "benign/C11-r1/patch.diff", "expect": "silent"},
    {"name": "C11-r1+any-none-arm-returns-none", "rule": "R11.3", "patch": "benign/C11-r1/defect_any_none_arm_returns_none.diff", "expect": "fire"},
    {"name": "C11-r1+any-arm-keeps-first-member", "rule": "R11.3", "patch": "benign/C11-r1/defect_any_arm_keeps_first_member.diff", "expect": "fire"},
    {"name": "C11-r1+any-test-not-negated", "rule": "R11.3", "patch": "benign/C11-r1/defect_any_test_not_negated.diff", "expect": "fire"},
    {"name": "C11-r1+early-return-for-two-members", "rule": "R11.3", "patch": "benign/C11-r1/unsupported_early_return_two_members.diff", "expect": "error"},
    {"name": "twin-benign-C11-r4-table-driven-passes", "rule": "R11.7", "patch": "benign/C11-r4/patch.diff", "expect": "silent"},
    {"name": "C11-r4+abcs-flag-constant-true", "rule": "R11.2", "patch": "benign/C11-r4/defect_abcs_flag_constant_true.diff", "expect": "fire"},
    {"name": "C11-r4+abcs-guard-in-helper-tests-other-flag", "rule": "R11.2", "patch": "benign/C11-r4/defect_abcs_guard_in_helper_wrong_flag.diff", "expect": "fire"},
    {"name": "C11-r4+lossy-pass-unguarded-via-helper", "rule": "R11.2", "patch": "benign/C11-r4/defect_lossy_pass_unguarded_via_helper.diff", "expect": "fire"},
    {"name": "C11-r4+collapse-in-first-table", "rule": "R11.2", "patch": "benign/C11-r4/defect_collapse_in_first_table_after_simplify.diff", "expect": "fire"},
    {"name": "C11-r4+collapse-in-first-table-before-hierarchy-pass", "rule": "R11.7", "patch": "benign/C11-r4/defect_collapse_in_first_table_after_simplify.diff", "expect": "fire"},
    {"name": "C11-r4+simplify-before-combine-in-table", "rule": "R11.7", "patch": "benign/C11-r4/defect_simplify_before_combine_in_table.diff", "expect": "fire"},
    {"name": "C11-r4+rejoin-before-adjust-in-table", "rule": "R11.5", "patch": "benign/C11-r4/defect_rejoin_before_adjust_in_table.diff", "expect": "fire"},
    {"name": "C11-r4+final-simplify-dropped", "rule": "R11.4", "patch": "benign/C11-r4/defect_final_simplify_dropped.diff", "expect": "fire"},
    {"name": "C11-r4+absorb-counts-superclass-closure", "rule": "R11.6", "patch": "benign/C11-r4/defect_absorb_counts_superclass_closure.diff", "expect": "fire"},
    {"name": "C11-r4+helper-merges-subclass-mapping", "rule": "R11.6", "patch": "benign/C11-r4/defect_helper_merges_subclass_mapping.diff", "expect": "fire"},
    {"name": "C11-r4+base-class-does-not-store-hierarchy", "rule": "R11.6", "patch": "benign/C11-r4/defect_base_class_stores_other_object.diff", "expect": "error"},
    {"name": "C11-r4+helper-call-in-expression", "rule": "R11.4", "patch": "benign/C11-r4/unsupported_helper_call_in_expression.diff", "expect": "error"},
    {"name": "twin-first-passes-in-a-literal-table", "rule": "R11.7", "file": OPT, "expect": "silent",
     "old": "  node = node.Visit(CombineContainers())\n  node = node.Visit(SimplifyContainers())\n  if deps:",
     "new": "  for v in (CombineContainers(), SimplifyContainers()):\n    node = node.Visit(v)\n  if deps:"},
    {"name": "first-passes-in-a-literal-table-wrong-order", "rule": "R11.7", "file": OPT, "expect": "fire",
     "old": "  node = node.Visit(CombineContainers())\n  node = node.Visit(SimplifyContainers())\n  if deps:",
     "new": "  for v in (SimplifyContainers(), CombineContainers()):\n    node = node.Visit(v)\n  if deps:"},
    {"name": "twin-hierarchy-visitor-init-in-local-base", "rule": "R11.6", "expect": "silent",
     "edits": [(OPT, "class SimplifyUnionsWithSuperclasses(visitors.Visitor):",
                "class _WithHierarchy(visitors.Visitor):\n\n  def __init__(self, hierarchy):\n    super().__init__()\n    self.hierarchy = hierarchy\n\n\nclass SimplifyUnionsWithSuperclasses(_WithHierarchy):"),
               (OPT, "   A union B = A, if B is a subset of A.)\n  \"\"\"\n\n  def __init__(self, hierarchy):\n    super().__init__()\n    self.hierarchy = hierarchy\n",
                "   A union B = A, if B is a subset of A.)\n  \"\"\"\n")]},
    {"name": "revert-D46-no-final-hierarchy-pass", "rule": "R11.7", "file": OPT, "expect": "fire",
     "old": "  if deps:\n    # SimplifyContainers can expose a bare class (list[Any] -> list) that the\n    # hierarchy pass above could not yet relate to its subclasses.\n    node = node.Visit(SimplifyUnionsWithSuperclasses(hierarchy))\n",
     "new": ""},
]
