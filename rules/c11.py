"""C11 - optimisation only widens, idempotently: the configuration clauses.

Decides: that pytype runs pytd/optimize.py with the lossless settings, that
every meaning-changing pass of `Optimize` is control-dependent on its flag,
that collapsing goes to the top type, and one ordering fact idempotence needs
(containers are re-simplified after every pass that can create `X[Any]`).
Does NOT decide containment (input <= output) or idempotence themselves.
"""
import ast

from sa.core import rule, AnalysisError
from sa.pyindex import get_module, dotted, src, calls_in, try_fold, walk_no_nested, all_py_files
from sa import flow

EXPLANATION = (
    "Static guard rails for the pyi optimiser, evaluated on the AST of "
    "pytd/optimize.py, pytd/pytd_utils.py, io.py and the other callers of "
    "optimize.Optimize: R11.1 the defaults of Optimize and every call pytype "
    "makes (io.generate_pyi_ast, PyTDFunction return-type joining, the pretty "
    "printer; thorough tier: every non-test call in the package) use "
    "lossy=False, use_abcs=False, remove_mutable=False as constants; R11.2 in "
    "Optimize every visitor pass is classified by a closed table: the "
    "meaning-changing ones (FindCommonSuperClasses, abc_hierarchy superclasses, "
    "AbsorbMutableParameters, MergeTypeParameters, CollapseLongUnions) are "
    "control-dependent on lossy / use_abcs / remove_mutable / max_union, and "
    "an unknown pass is an analysis error; R11.3 CollapseLongUnions only "
    "returns its input, a JoinTypes of its members or generic_type = "
    "AnythingType(), the over-long arm returns generic_type, and the Any arm "
    "of pytd_utils.JoinTypes returns Any or Union[Any, None]; R11.4 every "
    "path from a pass that can create a container of Any to the end of "
    "Optimize runs SimplifyContainers again (otherwise a second run would "
    "rewrite List[Any] to List).  These are necessary conditions only: that "
    "each lossless visitor really widens, and that a second run is the "
    "identity, are not decided.  R11.5 every path from a pass that can turn "
    "a union member into Any (object -> Any in return and constant types) to "
    "the end of Optimize runs a union-joining pass again (otherwise the "
    "emitted Union[X, Any] collapses to Any on a second run).")
ASSUMPTIONS = [
    "the classification of optimize.py's visitors into lossless / "
    "meaning-changing follows their docstrings and the `lossy`, `use_abcs`, "
    "`remove_mutable`, `max_union` parameter documentation of Optimize",
    "pytd/main.py (the stand-alone pytd tool) forwards the user's command-line "
    "flags; it is not one of 'the settings pytype uses' and is recorded, not "
    "judged",
    "test helpers (pytype/tests, *_test.py) are not part of pytype's output path",
]

OPT = "pytype/pytd/optimize.py"
UTILS = "pytype/pytd/pytd_utils.py"
IO = "pytype/io.py"
PYTDFN = "pytype/abstract/_pytd_function.py"
PRINTER = "pytype/pretty_printer_base.py"
MAIN = "pytype/pytd/main.py"

FLAGS = ("lossy", "use_abcs", "remove_mutable")

# pass (callee's last name) -> flag it must be control-dependent on
GUARDED = {
    "FindCommonSuperClasses": "lossy",
    "GetSuperClasses": "use_abcs",           # abc_hierarchy.GetSuperClasses()
    "AbsorbMutableParameters": "remove_mutable",
    "MergeTypeParameters": "remove_mutable",
    "CollapseLongUnions": "max_union",
}
# passes that keep the meaning of the declarations (may run unconditionally)
LOSSLESS = {
    "NormalizeGenericSelfTypes", "RemoveDuplicates", "SimplifyUnions",
    "CombineReturnsAndExceptions", "CombineContainers", "SimplifyContainers",
    "SimplifyUnionsWithSuperclasses", "AdjustReturnAndConstantGenericType",
    "AdjustSelf", "ExtractSuperClassesByName",
}
# passes after which a generic type may have only-Any parameters
CREATES_ANY_CONTAINER = {
    "CombineContainers", "CollapseLongUnions",
    "AdjustReturnAndConstantGenericType", "AbsorbMutableParameters",
    "MergeTypeParameters", "FindCommonSuperClasses",
}

_FUNCS = (ast.FunctionDef, ast.AsyncFunctionDef)


def _qualname(mod, node):
  parts = []
  while node is not None:
    if isinstance(node, _FUNCS + (ast.ClassDef,)):
      parts.append(node.name)
    node = mod.parent.get(node)
  return ".".join(reversed(parts)) or "<module>"


def _signature(fn):
  """param -> (position, default node or None) for plain parameters."""
  a = fn.args
  pos = a.posonlyargs + a.args
  defaults = [None] * (len(pos) - len(a.defaults)) + list(a.defaults)
  out = {p.arg: (i, d) for i, (p, d) in enumerate(zip(pos, defaults))}
  for p, d in zip(a.kwonlyargs, a.kw_defaults):
    out[p.arg] = (None, d)
  return out


def _optimize_calls(mod):
  out = []
  for c in calls_in(mod.tree):
    d = dotted(c.func) or ""
    if d == "optimize.Optimize" or d.endswith(".optimize.Optimize"):
      out.append(c)
    elif d == "Optimize" and mod.imports.get("Optimize", "").endswith(
        "optimize.Optimize"):
      out.append(c)
  return out


def _is_test_file(rel):
  return rel.endswith("_test.py") or "/tests/" in rel or "/test_data/" in rel \
      or rel.endswith("test_utils.py") or rel.endswith("test_base.py")


@rule("R11.1", "C11", floor=4)
def r11_1(ctx):
  """pytype calls Optimize with the lossless settings only."""
  opt = get_module(ctx, OPT)
  sig = _signature(opt.func("Optimize"))
  missing = [f for f in FLAGS if f not in sig]
  if missing:
    raise AnalysisError(f"Optimize has no parameter(s) {missing}")
  defaults = {f: try_fold(sig[f][1], default=src(sig[f][1]) if sig[f][1] is not None else "<required>")
              for f in FLAGS}
  ctx.check(all(defaults[f] is False for f in FLAGS), "Optimize:defaults", OPT,
            opt.func("Optimize").lineno,
            f"Optimize's defaults are {defaults}; callers that omit the flags "
            "rely on all three being False", {"defaults": defaults})
  files = [IO, PYTDFN, PRINTER]
  if ctx.tier == "thorough":
    for rel in all_py_files(ctx):
      if rel in files or rel == OPT or _is_test_file(rel):
        continue
      if "Optimize(" in ctx.read(rel):
        files.append(rel)
  anchored = {IO: "generate_pyi_ast"}
  for rel in files:
    mod = get_module(ctx, rel)
    calls = _optimize_calls(mod)
    if rel in (IO, PYTDFN, PRINTER) and not calls:
      raise AnalysisError(f"{rel}: optimize.Optimize call not found")
    if rel in anchored and not any(
        _qualname(mod, mod.enclosing_function(c)) == anchored[rel]
        for c in calls):
      raise AnalysisError(f"{rel}: {anchored[rel]} no longer calls Optimize")
    seen = {}
    for c in sorted(calls, key=lambda c: c.lineno):
      q = _qualname(mod, mod.enclosing_function(c))
      n = seen.get(q, 0)
      seen[q] = n + 1
      construct = f"{q}:Optimize-settings" + ("" if n == 0 else f"#{n + 1}")
      if any(isinstance(a, ast.Starred) for a in c.args) or \
          any(k.arg is None for k in c.keywords):
        raise AnalysisError(f"{rel}:{q}: Optimize called with */** arguments")
      got, forwarded = {}, []
      for f in FLAGS:
        node = None
        for k in c.keywords:
          if k.arg == f:
            node = k.value
        p = sig[f][0]
        if node is None and p is not None and len(c.args) > p:
          node = c.args[p]
        if node is None:
          got[f] = defaults[f]
        else:
          got[f] = try_fold(node, default=src(node))
          if rel == MAIN and isinstance(node, ast.Attribute) and node.attr == f:
            forwarded.append(f)
      facts = {"settings": got}
      if forwarded and len(forwarded) == len(FLAGS):
        facts["command_line_tool"] = True
        ctx.ok(construct, rel, c.lineno, facts)
        continue
      ctx.check(all(got[f] is False for f in FLAGS), construct, rel, c.lineno,
                f"Optimize is called with {got}; the lossless settings are "
                "lossy=False, use_abcs=False, remove_mutable=False", facts)


def _flag_in_test(test, flag, pol=True):
  """Does `test` evaluating to `pol` imply that `flag` is truthy?"""
  if isinstance(test, ast.UnaryOp) and isinstance(test.op, ast.Not):
    return _flag_in_test(test.operand, flag, not pol)
  if pol:
    if isinstance(test, ast.Name) and test.id == flag:
      return True
    if isinstance(test, ast.BoolOp) and isinstance(test.op, ast.And):
      return any(_flag_in_test(v, flag, True) for v in test.values)
    return False
  if isinstance(test, ast.BoolOp) and isinstance(test.op, ast.Or):
    return any(_flag_in_test(v, flag, False) for v in test.values)
  return False


def _pass_calls(fn):
  """Calls in Optimize that construct a visitor / hierarchy source."""
  out = []
  for c in calls_in(fn):
    d = dotted(c.func)
    if d is None:
      continue
    last = d.split(".")[-1]
    if last in GUARDED or last in LOSSLESS:
      out.append((last, c))
    elif last[:1].isupper() and last not in (
        "Visit", "SuperClassHierarchy", "LookupClasses"):
      out.append((last, c))
  return out


@rule("R11.2", "C11", floor=5)
def r11_2(ctx):
  """Meaning-changing passes of Optimize are guarded by their flag."""
  mod = get_module(ctx, OPT)
  fn = mod.func("Optimize")
  params = set(_signature(fn))
  for flag in set(GUARDED.values()):
    if flag not in params:
      raise AnalysisError(f"Optimize has no parameter {flag}")
    stores = [n for n in ast.walk(fn) if isinstance(n, ast.Name)
              and n.id == flag and isinstance(n.ctx, ast.Store)]
    if stores:
      raise AnalysisError(f"Optimize rebinds its parameter {flag}")
  found = {}
  for name, call in _pass_calls(fn):
    if name not in GUARDED and name not in LOSSLESS:
      raise AnalysisError(
          f"Optimize runs a pass `{name}` that is not in the lossless / "
          "guarded classification table: a human must classify it")
    # every visitor in optimize.py must still exist under that name
    if name in GUARDED:
      found.setdefault(name, []).append(call)
  for name, flag in sorted(GUARDED.items()):
    calls = found.get(name)
    if not calls:
      raise AnalysisError(f"Optimize no longer mentions the pass {name}")
    for i, call in enumerate(calls):
      construct = f"Optimize:{name}" + ("" if i == 0 else f"#{i + 1}")
      stmts = [mod.enclosing_stmt(call)]
      par = mod.parent.get(call)
      if isinstance(par, ast.Assign) and par.value is call and \
          len(par.targets) == 1 and isinstance(par.targets[0], ast.Name):
        # pass object bound to a local: what matters is where it is applied
        local = par.targets[0].id
        stmts = [mod.enclosing_stmt(n) for n in walk_no_nested(fn)
                 if isinstance(n, ast.Name) and n.id == local
                 and isinstance(n.ctx, ast.Load)]
        if not stmts:
          raise AnalysisError(f"{construct}: pass object `{local}` is never used")
      all_g = []
      ok = True
      for stmt in stmts:
        if isinstance(stmt, (ast.If, ast.While)):
          # used in a header: not guarded by that header's own test
          raise AnalysisError(f"{construct}: pass used in a condition")
        g = flow.guards(mod.parent, stmt, stop=fn)
        all_g.append([(src(t), p) for t, p in g])
        ok = ok and any(_flag_in_test(t, flag, p) for t, p in g)
      gtxt = all_g[0] if len(all_g) == 1 else all_g
      ctx.check(ok, construct, OPT, call.lineno,
                f"{name} changes the meaning of the declarations and must "
                f"only run under `if {flag}:`; path condition is {gtxt}",
                {"flag": flag, "guards": gtxt})


def _is_anything(node):
  return isinstance(node, ast.Call) and \
      (dotted(node.func) or "").split(".")[-1] == "AnythingType" and \
      not node.args and not node.keywords


def _returns(fn):
  return [n for n in walk_no_nested(fn) if isinstance(n, ast.Return)]


@rule("R11.3", "C11", floor=4)
def r11_3(ctx):
  """Collapsing goes to the top type."""
  mod = get_module(ctx, OPT)
  cls = "CollapseLongUnions"
  stores = [(mod.enclosing_function(n), n) for n in ast.walk(mod.cls(cls))
            if isinstance(n, ast.Assign)
            and any(dotted(t) == "self.generic_type" for t in n.targets)]
  vals = [src(n.value) for _, n in stores]
  ctx.check(bool(stores) and all(_is_anything(n.value) for _, n in stores)
            and all(f is not None and f.name == "__init__" for f, _ in stores),
            f"{cls}.generic_type", OPT, mod.cls(cls).lineno,
            f"generic_type is assigned {vals}; long unions must collapse to "
            "Any (pytd.AnythingType()), never to a narrower type",
            {"values": vals})
  vu = mod.func(f"{cls}.VisitUnionType")
  params = [a.arg for a in vu.args.args]
  if len(params) != 2:
    raise AnalysisError(f"{cls}.VisitUnionType signature not understood")
  union = params[1]
  kinds = []
  long_arm = None
  for r in _returns(vu):
    v = r.value
    if v is None:
      kind = "None"
    elif dotted(v) == "self.generic_type":
      kind = "top"
    elif isinstance(v, ast.Name) and v.id == union:
      kind = "input"
    elif isinstance(v, ast.Call) and \
        (dotted(v.func) or "").split(".")[-1] == "JoinTypes" and \
        len(v.args) == 1 and src(v.args[0]) == f"{union}.type_list":
      kind = "join(input)"
    else:
      kind = "other:" + src(v)
    kinds.append(kind)
    g = flow.guards(mod.parent, r, stop=vu)
    for t, p in g:
      for c in ast.walk(t):
        if p and isinstance(c, ast.Compare) and len(c.ops) == 1 and \
            isinstance(c.ops[0], (ast.Gt, ast.GtE)) and \
            src(c.left) == f"len({union}.type_list)" and \
            src(c.comparators[0]) == "self.max_length":
          if not (isinstance(t, ast.BoolOp) and isinstance(t.op, ast.Or)):
            long_arm = kind
  ctx.check(all(k in ("top", "input", "join(input)") for k in kinds),
            f"{cls}.VisitUnionType:returns", OPT, vu.lineno,
            f"VisitUnionType returns {kinds}; only the input union, a "
            "JoinTypes of its members, or generic_type are widening",
            {"returns": kinds})
  if long_arm is None:
    raise AnalysisError(
        f"{cls}.VisitUnionType: the `len({union}.type_list) > self.max_length` "
        "arm was not recognised")
  ctx.check(long_arm == "top", f"{cls}.VisitUnionType:over-long-arm", OPT,
            vu.lineno, f"the over-long arm returns {long_arm}; it must return "
            "self.generic_type", {"returns": long_arm})
  # JoinTypes: the arm taken when some member is Any
  um = get_module(ctx, UTILS)
  jt = um.func("JoinTypes")
  arms = [n for n in ast.walk(jt) if isinstance(n, ast.If) and any(
      isinstance(c, ast.Call) and dotted(c.func) == "isinstance"
      and len(c.args) == 2 and (dotted(c.args[1]) or "").endswith("AnythingType")
      for c in ast.walk(n.test))]
  if len(arms) != 1:
    raise AnalysisError("JoinTypes: the Any arm was not recognised")
  arm = arms[0]
  defs = {n.targets[0].id: n.value for n in ast.walk(jt)
          if isinstance(n, ast.Assign) and len(n.targets) == 1
          and isinstance(n.targets[0], ast.Name)}
  rets = []
  ok = True
  body_returns = [n for st in arm.body for n in ast.walk(st)
                  if isinstance(n, ast.Return)]
  if not body_returns or not flow.terminates(arm.body):
    ok = False
  for r in body_returns:
    v = r.value
    if _is_anything(v):
      rets.append("Any")
    elif isinstance(v, ast.Call) and \
        (dotted(v.func) or "").split(".")[-1] == "UnionType" and \
        len(v.args) == 1 and isinstance(v.args[0], ast.Tuple):
      elts = v.args[0].elts
      has_any = any(_is_anything(e) for e in elts)
      others = [e for e in elts if not _is_anything(e)]
      none_only = all(
          "NoneType" in src(defs.get(e.id, e)) if isinstance(e, ast.Name)
          else "NoneType" in src(e) for e in others)
      rets.append("Union[Any, None]" if has_any and none_only and len(others) <= 1
                  else "other:" + src(v))
    else:
      rets.append("other:" + (src(v) if v is not None else "None"))
  ok = ok and all(r in ("Any", "Union[Any, None]") for r in rets)
  ctx.check(ok, "JoinTypes:Any-arm", UTILS, arm.lineno,
            f"when a member is Any, JoinTypes returns {rets}; it must return "
            "Any or Union[Any, None] (anything narrower drops values)",
            {"returns": rets})


def _all_params_any(test):
  """all(isinstance(p, pytd.AnythingType) for p in <x>.parameters)"""
  if not (isinstance(test, ast.Call) and dotted(test.func) == "all"
          and len(test.args) == 1
          and isinstance(test.args[0], (ast.GeneratorExp, ast.ListComp))):
    return False
  comp = test.args[0]
  if len(comp.generators) != 1 or comp.generators[0].ifs:
    return False
  g = comp.generators[0]
  e = comp.elt
  return (isinstance(g.target, ast.Name) and isinstance(g.iter, ast.Attribute)
          and g.iter.attr == "parameters"
          and isinstance(e, ast.Call) and dotted(e.func) == "isinstance"
          and len(e.args) == 2 and isinstance(e.args[0], ast.Name)
          and e.args[0].id == g.target.id
          and (dotted(e.args[1]) or "").split(".")[-1] == "AnythingType")


@rule("R11.4", "C11", floor=2)
def r11_4(ctx):
  """SimplifyContainers runs again after every pass that can create X[Any]."""
  mod = get_module(ctx, OPT)
  fn = mod.func("Optimize")

  def passes(unit):
    return {(dotted(c.func) or "").split(".")[-1]
            for c in ast.walk(unit) if isinstance(c, ast.Call)} \
        if isinstance(unit, ast.AST) else set()

  def gen(unit):
    return ["simplified"] if "SimplifyContainers" in passes(unit) else []

  def kill(unit):
    p = passes(unit)
    if p & CREATES_ANY_CONTAINER and "SimplifyContainers" not in p:
      return ["simplified"]
    return None

  f = flow.flow(fn, gen, kill, mode="must")
  producers = sorted({p for n in ast.walk(fn) if isinstance(n, ast.stmt)
                      and not isinstance(n, _FUNCS)
                      for p in (passes(n) & CREATES_ANY_CONTAINER)
                      if not isinstance(n, (ast.If, ast.For, ast.While, ast.With, ast.Try))})
  if "CollapseLongUnions" not in producers:
    raise AnalysisError("Optimize: CollapseLongUnions pass not found")
  exits = [(k, n, st) for k, n, st in f.exits if k != "raise"]
  if not exits:
    raise AnalysisError("Optimize has no normal exit")
  ok = all(st is not None and "simplified" in st for _, _, st in exits)
  ctx.check(ok, "Optimize:final-SimplifyContainers", OPT, fn.lineno,
            "some path from a pass that can create a container of Any "
            f"({producers}) reaches the end of Optimize without a later "
            "SimplifyContainers: a second run would still rewrite X[Any] to X",
            {"producers": producers, "exits": len(exits)})
  # the simplifier itself: a generic type whose parameters are all Any
  # becomes its base type (and nothing else is rewritten)
  sc = mod.func("SimplifyContainers._Simplify")
  rets = _returns(sc)
  guards_ok = False
  kinds = []
  for r in rets:
    g = [(src(t), p) for t, p in flow.guards(mod.parent, r, stop=sc)]
    v = src(r.value) if r.value is not None else "None"
    kinds.append((v, g))
    if v.endswith(".base_type") and any(
        p and _all_params_any(t) for t, p in flow.guards(mod.parent, r, stop=sc)):
      guards_ok = True
  others = [v for v, g in kinds if not v.endswith(".base_type")]
  param = sc.args.args[1].arg if len(sc.args.args) > 1 else None
  ctx.check(guards_ok and all(v == param for v in others),
            "SimplifyContainers._Simplify", OPT, sc.lineno,
            "_Simplify must return t.base_type only when all parameters are "
            f"Any and t itself otherwise; found {kinds}",
            {"returns": [v for v, _ in kinds]})


def _rejoins_unions(mod, cls_name):
  """Does visitor `cls_name` re-normalise a union that contains Any?  True for
  a VisitUnionType with a `return ..JoinTypes(<param>.type_list)` that is
  unconditional or taken when <generic/Any> is in the union."""
  if cls_name not in mod.classes:
    return False
  vu = mod.methods(cls_name).get("VisitUnionType")
  if vu is None or len(vu.args.args) != 2:
    return False
  u = vu.args.args[1].arg
  for r in _returns(vu):
    v = r.value
    if isinstance(v, ast.Call) and \
        (dotted(v.func) or "").split(".")[-1] == "JoinTypes" and \
        len(v.args) == 1 and src(v.args[0]) == f"{u}.type_list":
      g = flow.guards(mod.parent, r, stop=vu)
      pos = [t for t, p in g if p]
      if not g:
        return True
      if all(isinstance(t, ast.Compare) and len(t.ops) == 1
             and isinstance(t.ops[0], ast.In)
             and src(t.comparators[0]) == f"{u}.type_list" for t in pos) and pos:
        return True
  return False


def _puts_any_into_types(mod, cls_name, seen=()):
  """Does visitor `cls_name` replace a non-union leaf type by AnythingType
  (directly, or through a visitor it applies to sub-trees)?"""
  if cls_name not in mod.classes or cls_name in seen:
    return False
  for name, m in mod.methods(cls_name).items():
    if not name.startswith("Visit") or name == "VisitUnionType":
      continue
    for r in _returns(m):
      v = r.value
      if v is None:
        continue
      if _is_anything(v):
        return True
      d = dotted(v)
      if d and d.startswith("self."):
        init = mod.methods(cls_name).get("__init__")
        if init is not None and any(
            isinstance(a, ast.Assign) and dotted(a.targets[0]) == d
            and _is_anything(a.value) for a in ast.walk(init)):
          return True
    for c in calls_in(m):
      if isinstance(c.func, ast.Attribute) and c.func.attr == "Visit" and \
          len(c.args) == 1 and isinstance(c.args[0], ast.Call):
        inner = (dotted(c.args[0].func) or "").split(".")[-1]
        if _puts_any_into_types(mod, inner, seen + (cls_name,)):
          return True
  return False


@rule("R11.5", "C11", floor=1)
def r11_5(ctx):
  """After a pass that can put Any into a union, unions are re-joined."""
  mod = get_module(ctx, OPT)
  fn = mod.func("Optimize")

  def passes(unit):
    return [(dotted(c.func) or "").split(".")[-1]
            for c in ast.walk(unit) if isinstance(c, ast.Call)] \
        if isinstance(unit, ast.AST) else []

  all_passes = sorted({p for n in ast.walk(fn) for p in passes(n)
                       if p in mod.classes})
  producers = [p for p in all_passes
               if _puts_any_into_types(mod, p) and not _rejoins_unions(mod, p)
               and p != "CollapseLongUnions"]
  joiners = [p for p in all_passes if _rejoins_unions(mod, p)]
  if "SimplifyUnions" not in joiners:
    raise AnalysisError(
        "SimplifyUnions is no longer recognised as a union re-joining pass")
  if not producers:
    raise AnalysisError(
        "no pass of Optimize was recognised as replacing a type by Any "
        "(AdjustReturnAndConstantGenericType expected)")

  def gen(unit):
    return ["joined"] if set(passes(unit)) & set(joiners) else []

  def kill(unit):
    p = set(passes(unit))
    if p & set(producers) and not p & set(joiners):
      return ["joined"]
    return None

  f = flow.flow(fn, gen, kill, mode="must")
  exits = [st for k, _, st in f.exits if k != "raise"]
  ok = bool(exits) and all(st is not None and "joined" in st for st in exits)
  # is there a re-join after the producer on *some* path?
  fm = flow.flow(fn, gen, kill, mode="may")
  some = any(st is not None and "joined" in st
             for k, _, st in fm.exits if k != "raise")
  facts = {"any_producers": producers, "union_joiners": joiners,
           "rejoined_on_every_path": ok, "rejoined_on_some_path": some}
  if ok:
    ctx.ok("Optimize:union-rejoin-after-Any-producer", OPT, fn.lineno, facts)
  elif some:
    ctx.bad("Optimize:union-rejoin-after-Any-producer", OPT, fn.lineno,
            f"{producers} can turn a union member into Any, and a re-joining "
            f"pass ({joiners}) follows only on some paths: on the others "
            "Optimize leaves Union[X, Any], which a second run collapses to "
            "Any", facts)
  else:
    ctx.bad("Optimize:no-union-rejoin-after-Any-producer", OPT, fn.lineno,
            f"{producers} replaces `object` by Any inside return/constant "
            f"types *after* the last union-joining pass ({joiners}): "
            "`def f() -> Union[list[int], object]` is emitted as "
            "Union[list[int], Any], and optimising that output again gives "
            "Any - Optimize is not idempotent", facts)


VARIANTS = [
    # R11.1
    {"name": "generate_pyi_ast-lossy", "rule": "R11.1", "file": IO, "expect": "fire",
     "old": "        lossy=False,", "new": "        lossy=True,"},
    {"name": "generate_pyi_ast-remove-mutable-from-options", "rule": "R11.1", "file": IO, "expect": "fire",
     "old": "        remove_mutable=False,", "new": "        remove_mutable=options.protocols,"},
    {"name": "generate_pyi_ast-use-abcs", "rule": "R11.1", "file": IO, "expect": "fire",
     "old": "        use_abcs=False,", "new": "        use_abcs=True,"},
    {"name": "Optimize-default-lossy", "rule": "R11.1", "file": OPT, "expect": "fire",
     "old": "    deps=None,\n    lossy=False,", "new": "    deps=None,\n    lossy=True,"},
    {"name": "return-type-join-lossy", "rule": "R11.1", "file": PYTDFN, "expect": "fire",
     "old": "ret_type = optimize.Optimize(pytd_utils.JoinTypes(options))",
     "new": "ret_type = optimize.Optimize(pytd_utils.JoinTypes(options), None, True)"},
    {"name": "twin-generate_pyi_ast-omit-defaults", "rule": "R11.1", "file": IO, "expect": "silent",
     "old": "        lossy=False,\n        use_abcs=False,\n        max_union=7,\n        remove_mutable=False,\n",
     "new": "        max_union=7,\n        lossy=False,\n"},
    {"name": "twin-printer-explicit-flags", "rule": "R11.1", "file": PRINTER, "expect": "silent",
     "old": "optimize.Optimize(pytd_type.Visit(visitors.RemoveUnknownClasses()))",
     "new": "optimize.Optimize(pytd_type.Visit(visitors.RemoveUnknownClasses()), None, False, use_abcs=False)"},
    # R11.2
    {"name": "FindCommonSuperClasses-unguarded", "rule": "R11.2", "file": OPT, "expect": "fire",
     "old": "    if lossy:\n      node = node.Visit(FindCommonSuperClasses(hierarchy))",
     "new": "    if hierarchy:\n      node = node.Visit(FindCommonSuperClasses(hierarchy))"},
    {"name": "abcs-guard-inverted", "rule": "R11.2", "file": OPT, "expect": "fire",
     "old": "    if use_abcs:\n      superclasses.update(abc_hierarchy.GetSuperClasses())",
     "new": "    if not use_abcs:\n      superclasses.update(abc_hierarchy.GetSuperClasses())"},
    {"name": "absorb-mutable-hoisted", "rule": "R11.2", "file": OPT, "expect": "fire",
     "old": "  if remove_mutable:\n    node = node.Visit(AbsorbMutableParameters())\n",
     "new": "  node = node.Visit(AbsorbMutableParameters())\n  if remove_mutable:\n"},
    {"name": "collapse-unions-unconditional", "rule": "R11.2", "file": OPT, "expect": "fire",
     "old": "  if max_union:\n    node = node.Visit(CollapseLongUnions(max_union))",
     "new": "  if True:\n    node = node.Visit(CollapseLongUnions(max_union or 7))"},
    {"name": "lossy-guard-weakened-to-or", "rule": "R11.2", "file": OPT, "expect": "fire",
     "old": "    if lossy:\n      node = node.Visit(FindCommonSuperClasses(hierarchy))",
     "new": "    if lossy or use_abcs:\n      node = node.Visit(FindCommonSuperClasses(hierarchy))"},
    {"name": "unknown-pass-added", "rule": "R11.2", "file": OPT, "expect": "error",
     "old": "  node = node.Visit(CombineReturnsAndExceptions())\n",
     "new": "  node = node.Visit(CombineReturnsAndExceptions())\n  node = node.Visit(AddInheritedMethods())\n"},
    {"name": "twin-lossy-guard-conjunction", "rule": "R11.2", "file": OPT, "expect": "silent",
     "old": "    if lossy:\n      node = node.Visit(FindCommonSuperClasses(hierarchy))",
     "new": "    if lossy and hierarchy:\n      finder = FindCommonSuperClasses(hierarchy)\n      node = node.Visit(finder)"},
    {"name": "twin-lossy-pass-built-outside-guard", "rule": "R11.2", "file": OPT, "expect": "silent",
     "old": "    if lossy:\n      node = node.Visit(FindCommonSuperClasses(hierarchy))",
     "new": "    finder = FindCommonSuperClasses(hierarchy)\n    if lossy:\n      node = node.Visit(finder)"},
    {"name": "twin-lossy-guard-negated-else", "rule": "R11.2", "file": OPT, "expect": "silent",
     "old": "    if lossy:\n      node = node.Visit(FindCommonSuperClasses(hierarchy))",
     "new": "    if not lossy:\n      pass\n    else:\n      node = node.Visit(FindCommonSuperClasses(hierarchy))"},
    # R11.3
    {"name": "collapse-to-object", "rule": "R11.3", "file": OPT, "expect": "fire",
     "old": "    self.generic_type = pytd.AnythingType()\n    self.max_length = max_length",
     "new": "    self.generic_type = pytd.ClassType(\"builtins.object\")\n    self.max_length = max_length"},
    {"name": "collapse-truncates-union", "rule": "R11.3", "file": OPT, "expect": "fire",
     "old": "      return self.generic_type\n    elif self.generic_type in union.type_list:",
     "new": "      return pytd_utils.JoinTypes(union.type_list[: self.max_length])\n    elif self.generic_type in union.type_list:"},
    {"name": "collapse-long-arm-returns-input", "rule": "R11.3", "file": OPT, "expect": "fire",
     "old": "      return self.generic_type\n    elif self.generic_type in union.type_list:",
     "new": "      return union\n    elif self.generic_type in union.type_list:"},
    {"name": "join-any-arm-drops-any", "rule": "R11.3", "file": UTILS, "expect": "fire",
     "old": "      return pytd.UnionType((pytd.AnythingType(), nonetype))\n    return pytd.AnythingType()",
     "new": "      return pytd.UnionType((pytd.AnythingType(), nonetype))\n    return pytd.UnionType(tuple(new_types[:1]))"},
    {"name": "join-any-none-arm-returns-none", "rule": "R11.3", "file": UTILS, "expect": "fire",
     "old": "      return pytd.UnionType((pytd.AnythingType(), nonetype))",
     "new": "      return nonetype"},
    {"name": "twin-collapse-reordered-arms", "rule": "R11.3", "file": OPT, "expect": "silent",
     "old": "    elif self.generic_type in union.type_list:\n      return pytd_utils.JoinTypes(union.type_list)\n    else:\n      return union",
     "new": "    if self.generic_type not in union.type_list:\n      return union\n    return pytd_utils.JoinTypes(union.type_list)"},
    # R11.5 (today's instance is a known finding under its own construct name;
    # the variants repair it, or repair it on one path only)
    {"name": "twin-rejoin-after-adjust", "rule": "R11.5", "file": OPT, "expect": "silent",
     "old": "  node = node.Visit(AdjustReturnAndConstantGenericType())\n",
     "new": "  node = node.Visit(AdjustReturnAndConstantGenericType())\n  node = node.Visit(SimplifyUnions())\n"},
    {"name": "twin-adjust-moved-before-simplify-unions", "rule": "R11.5", "expect": "silent",
     "edits": [(OPT, "  node = node.Visit(AdjustReturnAndConstantGenericType())\n", ""),
               (OPT, "  node = node.Visit(RemoveDuplicates())\n",
                "  node = node.Visit(AdjustReturnAndConstantGenericType())\n  node = node.Visit(RemoveDuplicates())\n")]},
    {"name": "revert-D26-no-rejoin-after-adjust", "rule": "R11.5", "file": OPT, "expect": "fire",
     "old": "  # Turning `object` into `Any` above can put Any into a union; join again.\n  node = node.Visit(SimplifyUnions())\n",
     "new": ""},
    {"name": "rejoin-after-adjust-only-when-remove-mutable", "rule": "R11.5", "file": OPT, "expect": "fire",
     "old": "  # Turning `object` into `Any` above can put Any into a union; join again.\n  node = node.Visit(SimplifyUnions())\n  if remove_mutable:\n",
     "new": "  if remove_mutable:\n    node = node.Visit(SimplifyUnions())\n"},
    # R11.4
    {"name": "final-simplify-containers-dropped", "rule": "R11.4", "file": OPT, "expect": "fire",
     "old": "    node = node.Visit(visitors.AdjustSelf())\n  node = node.Visit(SimplifyContainers())\n",
     "new": "    node = node.Visit(visitors.AdjustSelf())\n"},
    {"name": "final-simplify-containers-only-when-mutable", "rule": "R11.4", "file": OPT, "expect": "fire",
     "old": "    node = node.Visit(visitors.AdjustSelf())\n  node = node.Visit(SimplifyContainers())\n",
     "new": "    node = node.Visit(visitors.AdjustSelf())\n    node = node.Visit(SimplifyContainers())\n"},
    {"name": "collapse-moved-after-final-simplify", "rule": "R11.4", "expect": "fire",
     "edits": [(OPT, "  if max_union:\n    node = node.Visit(CollapseLongUnions(max_union))\n", ""),
               (OPT, "  if deps and can_do_lookup:\n    node = visitors.LookupClasses(",
                "  if max_union:\n    node = node.Visit(CollapseLongUnions(max_union))\n  if deps and can_do_lookup:\n    node = visitors.LookupClasses(")]},
    {"name": "simplify-any-param-suffices", "rule": "R11.4", "file": OPT, "expect": "fire",
     "old": "    if all(isinstance(p, pytd.AnythingType) for p in t.parameters):\n      return t.base_type",
     "new": "    if any(isinstance(p, pytd.AnythingType) for p in t.parameters):\n      return t.base_type"},
    {"name": "twin-final-simplify-renamed-local", "rule": "R11.4", "file": OPT, "expect": "silent",
     "old": "    node = node.Visit(visitors.AdjustSelf())\n  node = node.Visit(SimplifyContainers())\n",
     "new": "    node = node.Visit(visitors.AdjustSelf())\n  simplifier = SimplifyContainers()\n  node = node.Visit(simplifier)\n"},
]
