"""E3 value provenance (shared by rules/c19.py and rules/c20.py).

Reaching definitions over `sa.flow` in "may" mode: for a *use* of a local name
the set of binding sites (`Def`) that may have produced its value, plus

* `origins(expr)`: follows plain copies (`a = b`, walrus, IfExp arms) back to
  the expressions / parameters / loop targets a value can come from;
* `assigned_on_every_path(name, stmt)`: must-mode companion (a binding of
  `name` dominates `stmt`; loop heads forget what was only bound in an earlier
  iteration, so a stale loop-carried value is noticed);
* `template_tokens(expr)`: `.format` / f-string / `%` templates as a uniform
  list of literal and field tokens.

No aliasing through containers is tracked: a rule that would need it gets an
AnalysisError, never a guess.  This module defines no rules (its name does not
start with "c", so check.py does not load it as a property).
"""
from __future__ import annotations

import ast
import re
import string

from sa.core import AnalysisError
from sa import flow
from sa.pyindex import dotted, src, try_fold

_COMPS = (ast.ListComp, ast.SetComp, ast.DictComp, ast.GeneratorExp)
_SCOPES = (ast.FunctionDef, ast.AsyncFunctionDef, ast.Lambda, ast.ClassDef)
# callables that exhaust a generator expression before the statement ends
_CONSUMERS = {"tuple", "list", "set", "frozenset", "sorted", "dict", "any",
              "all", "sum", "min", "max"}
_ITER_WRAPPERS = {"tuple", "list", "set", "frozenset", "sorted", "reversed",
                  "iter"}


class Def:
  """One binding site of a local name."""
  __slots__ = ("name", "kind", "node", "value", "path", "op")

  def __init__(self, name, kind, node, value=None, path=(), op=None):
    self.name = name      # bound name
    self.kind = kind      # param assign unpack aug for with walrus def import match comp
    self.node = node      # statement / For / withitem / comprehension / arg
    self.value = value    # assigned expr; iterable for for/comp; ctx expr for with
    self.path = path      # position inside an unpacked tuple, () = whole value
    self.op = op

  def __repr__(self):
    return f"<Def {self.name} {self.kind}@{getattr(self.node, 'lineno', '?')} {self.path}>"

  def describe(self):
    v = src(self.value) if self.value is not None else ""
    if len(v) > 60:
      v = v[:57] + "..."
    return f"{self.kind}:{v}{list(self.path) if self.path else ''}"


def target_names(t, path=()):
  """(name, path) for every Name bound by assignment target `t`."""
  if isinstance(t, ast.Name):
    yield t.id, path
  elif isinstance(t, (ast.Tuple, ast.List)):
    for i, e in enumerate(t.elts):
      if isinstance(e, ast.Starred):
        yield from target_names(e.value, path + ("*",))
      else:
        yield from target_names(e, path + (i,))
  elif isinstance(t, ast.Starred):
    yield from target_names(t.value, path + ("*",))


def _walk_scope(node):
  """Walks `node` without entering nested function/class/lambda scopes."""
  todo = [node]
  while todo:
    n = todo.pop()
    yield n
    for c in ast.iter_child_nodes(n):
      if isinstance(c, _SCOPES):
        continue
      todo.append(c)


class ReachingDefs:
  """Reaching definitions of the locals of one function."""

  def __init__(self, mod, fn):
    self.mod = mod
    self.fn = fn
    self.parent = mod.parent
    self._gen = {}
    self.unsupported = {}
    params = []
    a = fn.args
    for p in a.posonlyargs + a.args + a.kwonlyargs:
      params.append(p)
    if a.vararg:
      params.append(a.vararg)
    if a.kwarg:
      params.append(a.kwarg)
    self.params = {p.arg: Def(p.arg, "param", p) for p in params}
    self.positional = [p.arg for p in a.posonlyargs + a.args]
    # bindings the flow engine never shows to gen(): handlers, del, global
    for n in ast.walk(fn):
      if isinstance(n, ast.ExceptHandler) and n.name:
        self.unsupported[n.name] = "bound by an except clause"
      elif isinstance(n, (ast.Global, ast.Nonlocal)):
        for nm in n.names:
          self.unsupported[nm] = "declared global/nonlocal"
      elif isinstance(n, ast.Delete):
        for t in n.targets:
          for nm, _ in target_names(t):
            self.unsupported[nm] = "deleted"
    self.may = flow.flow(fn, self._gen_unit, self._kill_unit, mode="may",
                         entry=frozenset(self.params.values()))
    self._must = None

  # -- transfer functions ----------------------------------------------------
  def _defs_of_unit(self, unit):
    if unit in self._gen:
      return self._gen[unit]
    out = []
    if isinstance(unit, ast.Assign):
      for t in unit.targets:
        for nm, path in target_names(t):
          out.append(Def(nm, "assign" if not path else "unpack", unit,
                         unit.value, path))
    elif isinstance(unit, ast.AnnAssign):
      if unit.value is not None:
        for nm, path in target_names(unit.target):
          out.append(Def(nm, "assign", unit, unit.value, path))
    elif isinstance(unit, ast.AugAssign):
      for nm, path in target_names(unit.target):
        out.append(Def(nm, "aug", unit, unit.value, path, op=unit.op))
    elif isinstance(unit, (ast.FunctionDef, ast.AsyncFunctionDef, ast.ClassDef)):
      out.append(Def(unit.name, "def", unit))
    elif isinstance(unit, (ast.Import, ast.ImportFrom)):
      for al in unit.names:
        out.append(Def(al.asname or al.name.split(".")[0], "import", unit))
    elif isinstance(unit, ast.withitem):
      if unit.optional_vars is not None:
        for nm, path in target_names(unit.optional_vars):
          out.append(Def(nm, "with", unit, unit.context_expr, path))
    elif isinstance(unit, ast.pattern):
      for n in ast.walk(unit):
        nm = getattr(n, "name", None) if isinstance(n, (ast.MatchAs, ast.MatchStar)) \
            else getattr(n, "rest", None) if isinstance(n, ast.MatchMapping) else None
        if nm:
          out.append(Def(nm, "match", unit))
    elif isinstance(unit, ast.expr) and isinstance(
        getattr(unit, "ctx", None), ast.Store):
      loop = self.parent.get(unit)
      if not isinstance(loop, (ast.For, ast.AsyncFor)) or loop.target is not unit:
        raise AnalysisError(
            f"provenance: store-context unit outside a for header in "
            f"{self.fn.name}")
      for nm, path in target_names(unit):
        out.append(Def(nm, "for", loop, loop.iter, path))
    # walrus targets anywhere in the unit (not in nested scopes; a compound
    # statement never reaches here as a whole, only its header expressions)
    if isinstance(unit, (ast.stmt, ast.expr, ast.withitem)) and not isinstance(
        unit, (ast.FunctionDef, ast.AsyncFunctionDef, ast.ClassDef)):
      for n in _walk_scope(unit):
        if isinstance(n, ast.NamedExpr):
          out.append(Def(n.target.id, "walrus", unit, n.value))
    self._gen[unit] = out
    return out

  def _gen_unit(self, unit):
    return self._defs_of_unit(unit)

  def _kill_unit(self, unit):
    names = {d.name for d in self._defs_of_unit(unit)}
    if not names:
      return None
    return lambda fact: fact.name in names

  # -- where is an expression evaluated? -----------------------------------------
  def _climb(self, node):
    """Returns (stmt, child-of-stmt containing node, enclosing comprehensions).

    Comprehensions are listed innermost first as (comp, child) pairs.
    """
    comps = []
    cur = node
    if isinstance(cur, ast.stmt):
      raise AnalysisError("provenance: not an expression")
    while True:
      par = self.parent.get(cur)
      if par is None:
        raise AnalysisError("provenance: node outside the indexed module")
      if isinstance(par, ast.comprehension):
        comp = self.parent[par]
        comps.append((comp, par, cur))
        cur = comp
        continue
      if isinstance(par, _COMPS):
        comps.append((par, cur))
        cur = par
        continue
      if isinstance(par, ast.Lambda):
        raise AnalysisError(
            f"provenance: use of a name inside a lambda in {self.fn.name}")
      if isinstance(par, ast.stmt):
        return par, cur, comps
      if isinstance(par, (ast.ExceptHandler, ast.match_case)):
        raise AnalysisError("provenance: use in an except/case header")
      cur = par

  def _state_for(self, stmt, child):
    f = self.may
    if stmt is self.fn:
      raise AnalysisError("provenance: use in the function header")
    if stmt not in f.before:
      raise AnalysisError(
          f"provenance: statement at line {stmt.lineno} was not analysed")
    if isinstance(stmt, ast.While):
      st = f.after_header.get(stmt)
    elif isinstance(stmt, (ast.With, ast.AsyncWith)):
      st = f.before[stmt]
      for item in stmt.items:
        if item is child:
          break
        if st is not None:
          names = {d.name for d in self._defs_of_unit(item)}
          st = frozenset(x for x in st if x.name not in names) | frozenset(
              self._defs_of_unit(item))
    elif isinstance(stmt, (ast.For, ast.AsyncFor)):
      if child is not stmt.iter:
        raise AnalysisError("provenance: use inside a for target")
      st = f.before[stmt]
    elif isinstance(stmt, ast.Match):
      if child is not stmt.subject:
        raise AnalysisError("provenance: use inside a match pattern")
      st = f.before[stmt]
    else:
      st = f.before[stmt]
    if st is None:
      raise AnalysisError(
          f"provenance: statement at line {stmt.lineno} is unreachable")
    return st

  def defs_of(self, name_node):
    """Definitions that may reach this use of a name (frozenset of Def).

    Empty = not a local of the function (global, builtin, free variable).
    """
    if not isinstance(name_node, ast.Name):
      raise AnalysisError(f"provenance: not a name: {src(name_node)}")
    name = name_node.id
    stmt, child, comps = self._climb(name_node)
    # comprehension-local names shadow the function's
    for entry in comps:
      if len(entry) == 2:
        comp, sub = entry      # use in the element expression
        visible = comp.generators
      else:
        comp, gen, sub = entry  # use inside generator `gen`
        idx = comp.generators.index(gen)
        visible = comp.generators[:idx] if sub is gen.iter else \
            comp.generators[:idx + 1]
      for g in reversed(visible):
        for nm, path in target_names(g.target):
          if nm == name:
            return frozenset([self._comp_def(g, nm, path)])
    # lazily evaluated generator expressions must be consumed on the spot
    for entry in comps:
      comp = entry[0]
      if isinstance(comp, ast.GeneratorExp):
        first_iter = len(entry) == 3 and entry[1] is comp.generators[0] \
            and entry[2] is comp.generators[0].iter
        if not first_iter and not self._consumed_now(comp):
          raise AnalysisError(
              "provenance: name used inside a generator expression that is "
              "not consumed by the enclosing call")
    if name in self.unsupported:
      raise AnalysisError(
          f"provenance: {name} in {self.fn.name} is {self.unsupported[name]}")
    for d in self._defs_of_unit(stmt) if not isinstance(
        stmt, (ast.If, ast.While, ast.For, ast.With, ast.Try, ast.Match,
               ast.AsyncFor, ast.AsyncWith)) else ():
      if d.kind == "walrus" and d.name == name:
        raise AnalysisError("provenance: walrus rebinding inside the statement")
    st = self._state_for(stmt, child)
    return frozenset(d for d in st if d.name == name)

  def _comp_def(self, gen, nm, path):
    key = ("comp", gen, nm)
    if key not in self._gen:
      self._gen[key] = Def(nm, "comp", gen, gen.iter, path)
    return self._gen[key]

  def _consumed_now(self, genexp):
    par = self.parent.get(genexp)
    if not isinstance(par, ast.Call) or genexp not in par.args:
      return False
    d = dotted(par.func)
    if d in _CONSUMERS:
      return True
    return isinstance(par.func, ast.Attribute) and par.func.attr in ("join",)

  def single_def(self, name_node, what=""):
    ds = self.defs_of(name_node)
    if len(ds) != 1:
      raise AnalysisError(
          f"provenance: {what or name_node.id} in {self.fn.name} has "
          f"{len(ds)} reaching definitions, expected exactly one")
    return next(iter(ds))

  # -- origins -------------------------------------------------------------------
  def origins(self, expr, _seen=None):
    """Terminal sources of a value: list of Origin (copy chains followed)."""
    seen = _seen if _seen is not None else set()
    if isinstance(expr, ast.IfExp):
      return self.origins(expr.body, seen) + self.origins(expr.orelse, seen)
    if isinstance(expr, ast.NamedExpr):
      return self.origins(expr.value, seen)
    if isinstance(expr, ast.Name):
      ds = self.defs_of(expr)
      if not ds:
        return [Origin("global", expr, None)]
      out = []
      for d in sorted(ds, key=lambda d: (getattr(d.node, "lineno", 0), d.kind)):
        if d in seen:
          continue
        seen.add(d)
        if d.kind in ("assign", "walrus") and not d.path:
          out.extend(self.origins(d.value, seen))
        else:
          out.append(Origin(d.kind, None, d))
      return out
    return [Origin("expr", expr, None)]

  # -- must-mode companion -------------------------------------------------------
  def assigned_on_every_path(self, name, stmt):
    """True iff a binding of `name` dominates `stmt` (same loop iteration)."""
    if self._must is None:
      self._must = flow.flow(
          self.fn, lambda u: [d.name for d in self._defs_of_unit(u)],
          mode="must", entry=frozenset(self.params))
    st = self._must.before.get(stmt)
    if st is None:
      raise AnalysisError(
          f"provenance: statement at line {getattr(stmt, 'lineno', 0)} is "
          "unreachable or unknown")
    return name in st

  def stmt_of(self, node):
    """The simple statement / compound header statement evaluating `node`."""
    return self._climb(node)[0] if not isinstance(node, ast.stmt) else node


class Origin:
  __slots__ = ("kind", "expr", "d")

  def __init__(self, kind, expr, d):
    self.kind = kind   # "expr", "global" or a Def kind
    self.expr = expr
    self.d = d

  def describe(self):
    if self.expr is not None:
      s = src(self.expr)
      return s if len(s) <= 70 else s[:67] + "..."
    return self.d.describe()


def executes_before(mod, fn, first_pred, stmt, kill_pred=None):
  """Must-mode: on every path to `stmt`, a unit satisfying `first_pred` ran.

  Facts die at loop heads unless they also held on loop entry, so for two
  statements of one loop body this is 'earlier in the same iteration'.
  """
  def gen(unit):
    return ["seen"] if first_pred(unit) else []
  kill = None
  if kill_pred is not None:
    kill = lambda unit: ["seen"] if kill_pred(unit) else None
  f = flow.flow(fn, gen, kill, mode="must")
  st = f.before.get(stmt)
  if st is None:
    raise AnalysisError(
        f"statement at line {getattr(stmt, 'lineno', 0)} of {fn.name} is "
        "unreachable or unknown")
  return "seen" in st


def strip_iter_wrappers(expr):
  """`sorted(x)`, `tuple(x)`, `list(x)` ... iterate over the elements of x."""
  while isinstance(expr, ast.Call) and dotted(expr.func) in _ITER_WRAPPERS \
      and len(expr.args) == 1 and not expr.keywords:
    expr = expr.args[0]
  return expr


def bind_args(call, fn, skip_self=False):
  """Maps parameter names of `fn` to the argument expressions of `call`."""
  a = fn.args
  pos = [p.arg for p in a.posonlyargs + a.args]
  if skip_self:
    pos = pos[1:]
  names = set(pos) | {p.arg for p in a.kwonlyargs}
  out = {}
  for i, v in enumerate(call.args):
    if isinstance(v, ast.Starred):
      raise AnalysisError(f"call of {fn.name} uses *args")
    if i >= len(pos):
      raise AnalysisError(f"call of {fn.name} has too many positional args")
    out[pos[i]] = v
  for k in call.keywords:
    if k.arg is None:
      raise AnalysisError(f"call of {fn.name} uses **kwargs")
    if k.arg not in names or k.arg in out:
      raise AnalysisError(f"call of {fn.name}: unknown/duplicate keyword {k.arg}")
    out[k.arg] = k.value
  return out


# -- string templates ----------------------------------------------------------------

_PCT = re.compile(r"%(?:\((\w+)\))?([#0\- +]*)(\*|\d+)?(?:\.(\*|\d+))?([a-zA-Z%])")


def template_tokens(expr, mod=None):
  """Uniform token list for f-strings, `.format`, `%` and `+` of strings.

  Tokens: ("lit", text) | ("field", expr) | ("item", expr, i) (element i of a
  tuple-valued expression given as the right operand of `%`).
  """
  toks = _tokens(expr, mod)
  out = []
  for t in toks:
    if t[0] == "lit" and out and out[-1][0] == "lit":
      out[-1] = ("lit", out[-1][1] + t[1])
    elif t[0] == "lit" and t[1] == "":
      continue
    else:
      out.append(t)
  return out


def _tokens(expr, mod):
  if isinstance(expr, ast.Constant) and isinstance(expr.value, str):
    return [("lit", expr.value)]
  if isinstance(expr, ast.JoinedStr):
    out = []
    for v in expr.values:
      if isinstance(v, ast.Constant):
        out.append(("lit", str(v.value)))
      elif isinstance(v, ast.FormattedValue) and v.conversion == -1 \
          and v.format_spec is None:
        out.append(("field", v.value))
      else:
        raise AnalysisError("template: f-string field with conversion/spec")
    return out
  if isinstance(expr, ast.BinOp) and isinstance(expr.op, ast.Add):
    return _tokens(expr.left, mod) + _tokens(expr.right, mod)
  if isinstance(expr, ast.Call) and isinstance(expr.func, ast.Attribute) \
      and expr.func.attr == "format":
    tmpl = try_fold(expr.func.value, mod=mod)
    if not isinstance(tmpl, str):
      raise AnalysisError("template: .format on a non-constant string")
    if any(isinstance(a, ast.Starred) for a in expr.args) or any(
        k.arg is None for k in expr.keywords):
      raise AnalysisError("template: .format with * or ** arguments")
    kws = {k.arg: k.value for k in expr.keywords}
    out = []
    auto = 0
    for lit, field, spec, conv in string.Formatter().parse(tmpl):
      if lit:
        out.append(("lit", lit))
      if field is None:
        continue
      if spec or conv:
        raise AnalysisError("template: format field with conversion/spec")
      if field == "":
        field = str(auto)
        auto += 1
      if field.isdigit():
        if int(field) >= len(expr.args):
          raise AnalysisError("template: positional field out of range")
        out.append(("field", expr.args[int(field)]))
      elif field in kws:
        out.append(("field", kws[field]))
      else:
        raise AnalysisError(f"template: field {{{field}}} has no argument")
    return out
  if isinstance(expr, ast.BinOp) and isinstance(expr.op, ast.Mod):
    tmpl = try_fold(expr.left, mod=mod)
    if not isinstance(tmpl, str):
      raise AnalysisError("template: % on a non-constant string")
    out = []
    pos = 0
    fields = 0
    pieces = []
    for m in _PCT.finditer(tmpl):
      pieces.append(("lit", tmpl[pos:m.start()]))
      pos = m.end()
      if m.group(5) == "%":
        pieces.append(("lit", "%"))
        continue
      if m.group(1) or m.group(2) or m.group(3) or m.group(4) or \
          m.group(5) not in "sd":
        raise AnalysisError("template: % directive with flags/width/mapping key")
      pieces.append(("slot", fields))
      fields += 1
    pieces.append(("lit", tmpl[pos:]))
    if "%" in "".join(p[1] for p in pieces if p[0] == "lit" and p[1] != "%"):
      raise AnalysisError("template: unparsed % directive")
    right = expr.right
    for p in pieces:
      if p[0] == "lit":
        out.append(p)
      elif isinstance(right, ast.Tuple):
        if len(right.elts) != fields:
          raise AnalysisError("template: % argument count mismatch")
        out.append(("field", right.elts[p[1]]))
      elif fields == 1:
        out.append(("field", right))
      else:
        out.append(("item", right, p[1]))
    return out
  raise AnalysisError(f"template: unsupported string construction {src(expr)[:60]}")
