"""C13 - calls bind arguments as CPython does: the structural clauses.

Decides: that the two argument binders (the interpreter-function binder in
abstract/_function_base.py and the stub-signature binder in
abstract/_pytd_function.py) raise the same binder errors under the same
necessary conditions, that both keep a keyword named like a positional-only
parameter out of the name->argument map, that every binder error has a
dispatch arm reported under its own error name, and that the call record
(`function.Args`) is frozen and not mutated by the binders.  Does NOT decide
the per-parameter mapping itself.
"""
import ast
import copy
import itertools

from sa.core import rule, AnalysisError
from sa.pyindex import get_module, dotted, src, calls_in, walk_no_nested, all_py_files
from sa import flow
from rules import _util_c13c02c10 as U

EXPLANATION = (
    "Static sibling-agreement and dispatch rules for argument binding, "
    "evaluated on the AST of abstract/_function_base.py, "
    "abstract/_pytd_function.py, abstract/function.py, errors/error_types.py "
    "and errors/errors.py.  R13.1: for every `raise error_types.X` in "
    "SignedFunction._map_args and in PyTDSignature._map_args + "
    "_fill_in_missing_parameters (each resolved through the module-local MRO "
    "of its class, with the self-helpers it was split into inlined in place) "
    "the path condition (enclosing tests, negated "
    "early exits, loop domains) is turned into a propositional formula over a "
    "sibling-neutral vocabulary (signature has *args / **kwargs, call site "
    "has * / **, name is positional-only / a passed keyword / already bound, "
    "extra or positional-only keywords present, too many positionals) and "
    "the literals that the raise *necessarily* implies are computed by truth "
    "table; both siblings must raise the same five errors (WrongArgCount, "
    "WrongKeywordArgs[extra], WrongKeywordArgs[posonly], DuplicateKeyword, "
    "MissingParameter) with the same necessary literals, which must include "
    "the CPython-derived ones (extra/posonly keyword => no **kwargs; count => "
    "no *args; missing => no */** at the call site; duplicate => name not "
    "positional-only); every store of keyword arguments into the "
    "name->argument map must exclude positional-only names in both siblings, "
    "and the interpreter sibling's **kwargs dictionary must not omit "
    "positional-only names.  R13.2: every FailedFunctionCall / DictKeyMissing "
    "subclass reaches its own arm of errors.invalid_function_call before the "
    "AssertionError, the four binder errors are routed to reporters "
    "registered as wrong-arg-count, wrong-keyword-args, missing-parameter, "
    "duplicate-keyword-argument, which read attributes the error class "
    "really sets and always emit.  R13.3: function.Args is a frozen attrs "
    "class.  R13.4: the binders never store into or call a mutator on the "
    "call record.  R13.5: in both binders the quantity the number of "
    "positional arguments is compared with before WrongArgCount is raised is "
    "the number of positional parameters only - len(signature.param_names), "
    "also through locals, count-preserving maps and the binder class's own "
    "one-line method (SignedFunction.argcount, whose overrides in subclasses "
    "must agree; InterpreterFunction.argcount reads code.argcount, which "
    "blocks.OrderedCode copies from CPython's co_argcount; an override that "
    "returns an instance attribute `self.X` is classified by the single "
    "binding `self.X = E` in the methods of the binder class and its "
    "subclasses - code.argcount + code.kwonlyargcount counts all named "
    "parameters; no or several bindings is an analysis error); a capacity that "
    "also counts keyword-only parameters (len(pytd_sig.params), "
    "len(param_names + kwonly_params), a list built per pytd parameter) or "
    "only the positional-only ones is a violation, any other expression an "
    "analysis error.  The mapping of individual parameters to arguments is "
    "not decided.")
ASSUMPTIONS = [
    "`x is None` and `not x` are treated as the same 'absent' test for the "
    "call record's starargs/starstarargs and the signature's "
    "varargs/kwargs names (they are a Variable/str or None)",
    "Signature.kwargs_name / varargs_name are set exactly when the pytd "
    "signature has starstarargs / starargs (Signature.from_pytd)",
    "the interpreter binder's per-parameter flag bound by `for key, flag in "
    "itertools.chain(get_nondefault_params(), ((k, True) for k in "
    "kwonly_params))` means 'keyword-only'; guard literals are computed for "
    "the positional-parameter case (flag False), where both binders must "
    "agree; the extra keyword-only refinement of the interpreter binder is "
    "recorded, not compared",
    "the negation of an earlier check whose only effect is to raise another "
    "binder error orders the errors and is not counted as a guard",
    "guard conditions are canonicalised through once-bound locals (a set "
    "bound to `(set(positional) - posonly) & set(kws)` read for truthiness "
    "means 'some passed keyword is bound positionally and is not "
    "positional-only'; a condition local `too_many = len(posargs) > n` is "
    "replaced by its definition when the names it reads have the same "
    "reaching definitions at both places; `{k for k in X}` names the same set "
    "as X; the name->argument map may be built under another local that the "
    "returned name is a plain copy of); when the two binders' necessary "
    "literals differ, or a CPython-derived literal is missing, and the raise "
    "is guarded by a condition outside the vocabulary that reads anything "
    "but the per-parameter loop variables (a call of an unknown predicate, an "
    "unclassified local), the rule raises an analysis error instead of a "
    "violation - such a condition may imply the missing fact; per-parameter "
    "refinements (`p.optional`, the keyword-only flag) cannot, except for "
    "positional-only-ness",
    "the binder functions (SignedFunction._map_args, PyTDSignature._map_args "
    "and _fill_in_missing_parameters) are looked up along the module-local MRO "
    "of their class (a method moved into a local mixin / base is found there; "
    "a non-local base before the definition is an analysis error) and the "
    "private helpers they call as statements on self (`self._helper(..)`, also "
    "`x = self._helper(..)` when the helper ends in its only return) are "
    "inlined in place, parameters bound to the arguments and helper locals "
    "renamed, bare-return guard clauses rewritten to if/else, so that raises, "
    "map stores and call-record mutations inside the helpers are seen under "
    "the conjunction of the caller's and the helper's path conditions; a "
    "helper that is overridden in a subclass (same file or "
    "_interpreter_function.py), or that cannot be inlined exactly (return "
    "inside a loop, several value returns, */** parameters, nested "
    "functions), is left in place and is an analysis error when it raises a "
    "binder error; value helpers used inside expressions (self.argcount, "
    "self.get_nondefault_params) are not followed except as described for "
    "R13.5",
    "Signature.param_names holds exactly the positional parameters "
    "(positional-only first), kwonly_params the keyword-only ones, and "
    "pytd_sig.params both kinds (Signature.from_pytd); CPython's co_argcount "
    "excludes keyword-only parameters",
]
# rules/c13_inherited_slots.py (R13.21)
EXPLANATION += (
    "  R13.21 (rules/c13_inherited_slots.py) constructor slots are inherited: "
    "special_builtins.Object._has_own(node, cls, method) - which decides "
    "whether object.__new__/__init__ tolerate the constructor's arguments - "
    "must compute its verdict from a resolution of `method` along cls's MRO "
    "(attribute_handler.get_attribute & co. called with cls and method, also "
    "through locals) compared (!=) with object's own self.members[method]; a "
    "verdict or early exit decided by cls's OWN member table (`method in "
    "cls`, cls.members, cls.get_own_attributes()) is a violation (a subclass "
    "inheriting __new__(cls, x) gets a false wrong-arg-count), anything else "
    "an analysis error; and Object.get_special_attribute pairs the slots "
    "cross-wise (looking up __new__ asks about __init__ and hands out "
    "__new__extra_args, and vice versa), as object_new/object_init do.  "
    "Blind spot: what get_attribute itself returns for metaclass-defined or "
    "overlay-provided __new__/__init__ is not decided.")
# rules/c13_posonly_kw.py (R13.20)
EXPLANATION += (
    "  R13.20 (rules/c13_posonly_kw.py) in the stub binder (as R13.1 sees it: "
    "resolved along the local MRO, self-helpers inlined) the loop that appends "
    "(name, **kwargs value type) formals - found by its role: it appends an "
    "expression reading the local bound from <signature>.kwargs_name - must "
    "iterate the extra keywords AND the passed keywords that name a "
    "positional-only parameter (classified with R13.1's set vocabulary: "
    "`extra | posonly-kw`); iterating the extra keywords only is the known "
    "finding, any other set an analysis error.")
ASSUMPTIONS += [
    "R13.21: CPython's object_new/object_init (typeobject.c) accept excess "
    "arguments iff the other slot is overridden anywhere in the type's MRO",
]
# rules/c13_defaults.py (R13.22), rules/c13_splat_keywords.py (R13.24)
EXPLANATION += (
    "  R13.22 (rules/c13_defaults.py) assigning `f.__defaults__ = t` replaces "
    "the positional defaults in both sibling setters: "
    "SignedFunction.set_function_defaults (resolved along the local MRO, "
    "self-helpers inlined) is interpreted path by path over the components "
    "{old-pos, old-kw, new} of the mapping it leaves in signature.defaults "
    "(re-binding drops what was there; `.update`, `[k] = v`, `|=` - also "
    "through aliases of the mapping or of the signature - keep it; `{**a, "
    "**b}`, `a | b`, `dict(a, **b)`, copies join; a comprehension or delete "
    "loop filtered by membership in the signature's param_names / "
    "kwonly_params selects; `.clear()` empties): on every normal exit `new` "
    "is in and `old-pos` is out (a positional parameter the new tuple does "
    "not cover becomes required, as in CPython); PyTDSignature.set_defaults "
    "passes every rebuilt pytd.Parameter an `optional=` decided by the "
    "remaining new defaults alone (True under them, False otherwise, never "
    "read back from the old parameter); and attribute.py hands a store to "
    "`__defaults__` of a function to set_function_defaults(node, value).  "
    "Anything else done to the mapping (hand-over to code that is not "
    "followed, selective pop/del outside the understood loop) is an analysis "
    "error.  Not decided here: that the new entries are keyed by the LAST "
    "len(t) positional names, and that keyword-only defaults survive (R13.23, "
    "parked in rules/pending_c13_kwdefaults.py because today's tree violates "
    "it).  R13.24 (rules/c13_splat_keywords.py) while Args.simplify "
    "normalises a call record, every test `name in <keyword map>` made by "
    "simplify or by a self-helper it calls (the `*xs` expansion in "
    "_unpack_and_match_args asks which parameters are passed by keyword; "
    "reads through self.namedargs, a parameter, a copy or a key view, "
    "lambdas and comprehensions included) sees exactly the keywords of the "
    "record simplify returns on that path: keyword maps are abstract objects "
    "with contents over {explicit, unpacked} and tracked aliasing, so an "
    "in-place merge of the `**` dictionary (update_args_dict - recognised by "
    "its body -, .update, |=, a store loop) is visible through "
    "self.namedargs while a merge into a copy is not; the test's content at "
    "the time of the helper call must equal the returned record's, and the "
    "unpacked keywords must reach the returned record.  Blind spots: only "
    "Args.simplify and the self-helpers of Args are followed (two levels); "
    "what the expansion does with the answer is not decided.")
ASSUMPTIONS += [
    "R13.22: Signature.defaults holds the defaults of positional and "
    "keyword-only parameters in one mapping keyed by name; values built "
    "without reading that mapping are 'new'",
    "R13.24: Args.namedargs is never None (attrs converter); calls that mix "
    "`*` with keywords arrive with the keywords packed in starstarargs "
    "(CALL_FUNCTION_EX), Args.starstarargs_as_dict() returns that dict or None",
]

FB = "pytype/abstract/_function_base.py"
PF = "pytype/abstract/_pytd_function.py"
FN = "pytype/abstract/function.py"
ET = "pytype/errors/error_types.py"
ERRORS = "pytype/errors/errors.py"

_FUNCS = (ast.FunctionDef, ast.AsyncFunctionDef)


# -- reaching definitions ---------------------------------------------------------

def _stored_names(unit):
  out, tgts = [], []
  if isinstance(unit, ast.Assign):
    tgts = unit.targets
  elif isinstance(unit, ast.AugAssign):
    tgts = [unit.target]
  elif isinstance(unit, ast.AnnAssign) and unit.value is not None:
    tgts = [unit.target]
  elif isinstance(unit, ast.withitem) and unit.optional_vars is not None:
    tgts = [unit.optional_vars]
  elif isinstance(unit, (ast.Name, ast.Tuple, ast.List, ast.Starred)) and \
      isinstance(getattr(unit, "ctx", None), ast.Store):
    tgts = [unit]
  elif isinstance(unit, _FUNCS + (ast.ClassDef,)):
    return [unit.name]
  for t in tgts:
    for n in ast.walk(t):
      if isinstance(n, ast.Name) and isinstance(n.ctx, ast.Store):
        out.append(n.id)
  if isinstance(unit, ast.AST):
    for n in ast.walk(unit):
      if isinstance(n, ast.NamedExpr):
        out.append(n.target.id)
  return out


class _Defs:
  def __init__(self, fn):
    self.fn = fn
    a = fn.args
    params = [x.arg for x in a.posonlyargs + a.args + a.kwonlyargs]
    params += [x.arg for x in (a.vararg, a.kwarg) if x is not None]
    self.params = params

    def gen(unit):
      return [(n, unit) for n in _stored_names(unit)]

    def kill(unit):
      names = set(_stored_names(unit))
      return (lambda fact: fact[0] in names) if names else None

    self.flow = flow.flow(fn, gen, kill, mode="may",
                          entry=frozenset((p, "param") for p in params))

  def at(self, name, stmt):
    st = self.flow.before.get(stmt)
    if st is None:
      raise AnalysisError(f"{self.fn.name}: unreachable statement at line "
                          f"{getattr(stmt, 'lineno', '?')}")
    return frozenset(d for n, d in st if n == name)

  def value(self, name, stmt):
    """The expression `name` is bound to at stmt, if there is exactly one
    plain assignment reaching it; else None."""
    ds = self.at(name, stmt)
    if len(ds) != 1:
      return None, None
    d = next(iter(ds))
    if isinstance(d, ast.Assign) and len(d.targets) == 1 and \
        isinstance(d.targets[0], ast.Name):
      return d.value, d
    if isinstance(d, ast.AnnAssign) and isinstance(d.target, ast.Name):
      return d.value, d
    return None, None


# -- a binder = function(s) + map name --------------------------------------------

class _Binder:
  """One argument binder: the methods `names` of `receiver`, resolved along the
  receiver's module-local MRO (a method moved into a local mixin is found
  there), with the private helpers they were split into
  (`self.<helper>(..)` statements, resolved the same way) inlined in place, so
  that path conditions and reaching definitions span the whole binder."""

  def __init__(self, ctx, label, rel, receiver, names):
    self.label = label
    self.rel = rel
    self.receiver = receiver
    mod = get_module(ctx, rel)
    self.fns = []
    extra = {}
    inlined_all = []
    # a helper overridden in a subclass is not what runs there: never inlined
    overridden = {}
    for r in sorted({rel, IF}):
      m = get_module(ctx, r)
      for c in U.local_subclasses(m, receiver):
        for meth in m.methods(c):
          overridden.setdefault(meth, f"{r}:{c}")
    for name in names:
      owner, fn = U.resolve_method(mod, receiver, name)
      q = f"{receiver}.{name}"
      inl = U.inline_calls(mod, fn, receiver=receiver, module_helpers=False,
                           only=lambda n: n not in overridden)
      if inl.fn is not fn:
        extra.update({k: v for k, v in inl.mod.parent.items()
                      if k not in mod.parent})
      inlined_all += inl.inlined
      # helpers left in place must not hide binder errors
      for c in calls_in(inl.fn):
        f = c.func
        if isinstance(f, ast.Attribute) and dotted(f.value) == "self" and \
            U.has_method(mod, receiver, f.attr):
          h = U.resolve_method(mod, receiver, f.attr)[1]
          hidden = sorted({(dotted(x.exc.func) or "?").split(".")[-1]
                           for x in ast.walk(h) if isinstance(x, ast.Raise)
                           and isinstance(x.exc, ast.Call)} & set(BINDER_ERRORS))
          if hidden and h is not fn:
            why = dict(inl.skipped).get(f.attr) or (
                f"overridden in {overridden[f.attr]}" if f.attr in overridden
                else "not called as a statement")
            raise AnalysisError(
                f"{q}: helper self.{f.attr} raises {hidden} but could not be "
                f"inlined ({why})")
      self.fns.append((q, inl.fn))
    # a binder function that is also inlined into another one is analysed once
    self.fns = [(q, fn) for q, fn in self.fns
                if q.split(".")[-1] not in inlined_all]
    self.inlined = sorted(set(inlined_all))
    self.mod = U.ModView(mod, extra) if extra else mod
    self.defs = {q: _Defs(fn) for q, fn in self.fns}
    self.maps = {q: self._map_name(q, fn) for q, fn in self.fns}
    self.map_names = {q: self._map_aliases(q, fn) for q, fn in self.fns}

  def _map_name(self, q, fn):
    """The name->argument dictionary of this function: the returned name (or
    second element of the returned pair), else the subscript-stored parameter."""
    rets = [n for n in walk_no_nested(fn) if isinstance(n, ast.Return)
            and n.value is not None]
    names = set()
    for r in rets:
      v = r.value
      if isinstance(v, ast.Tuple) and len(v.elts) == 2:
        v = v.elts[1]
      if isinstance(v, ast.Name):
        names.add(v.id)
      else:
        raise AnalysisError(f"{q}: return value {src(r.value)} not understood")
    if not names:
      for n in walk_no_nested(fn):
        if isinstance(n, ast.Assign):
          for t in n.targets:
            if isinstance(t, ast.Subscript) and isinstance(t.value, ast.Name) \
                and t.value.id in self.defs[q].params:
              names.add(t.value.id)
    if len(names) != 1:
      raise AnalysisError(f"{q}: name->argument map not identified ({names})")
    return next(iter(names))

  def _map_aliases(self, q, fn):
    """Names denoting the map object: the map name plus locals it is a plain
    copy of / that are plain copies of it (`callargs = bound`), each bound
    exactly once in the function."""
    m = self.maps[q]
    stores = {}
    for n in walk_no_nested(fn):
      if isinstance(n, ast.Name) and isinstance(n.ctx, ast.Store):
        stores[n.id] = stores.get(n.id, 0) + 1
    out = {m}
    changed = True
    while changed:
      changed = False
      for n in walk_no_nested(fn):
        if isinstance(n, ast.Assign) and len(n.targets) == 1 and \
            isinstance(n.targets[0], ast.Name) and isinstance(n.value, ast.Name):
          a, b = n.targets[0].id, n.value.id
          if stores.get(a) == 1 and stores.get(b, 0) <= 1 and \
              ((a in out) != (b in out)):
            out |= {a, b}
            changed = True
    return out


def _binders(ctx):
  def make():
    return (
        _Binder(ctx, "interpreter", FB, "SignedFunction", ["_map_args"]),
        _Binder(ctx, "pytd", PF, "PyTDSignature",
                ["_map_args", "_fill_in_missing_parameters"]))
  return ctx.memo("c13binders", make)


# -- canonicalisation ---------------------------------------------------------------

class _Canon:
  """Classifies expressions of one binder function in the neutral vocabulary."""

  def __init__(self, binder, q, fn):
    self.b = binder
    self.q = q
    self.fn = fn
    self.defs = binder.defs[q]
    self.map = binder.maps[q]
    self.map_names = binder.map_names[q]
    params = self.defs.params
    if "args" not in params:
      raise AnalysisError(f"{q}: no `args` parameter (the call record)")

  # alias substitution: sig -> self.signature
  def subst(self, expr, stmt, depth=0):
    defs = self.defs

    class T(ast.NodeTransformer):
      def visit_Name(self_inner, node):
        if isinstance(node.ctx, ast.Load) and depth < 4:
          v, d = defs.value(node.id, stmt)
          if v is not None and dotted(v) is not None and \
              not (isinstance(v, ast.Name) and v.id == node.id):
            return self.subst(v, d, depth + 1)
        return node
    return T().visit(copy.deepcopy(expr))

  def sig_attr(self, expr, stmt):
    """'varargs' / 'kwargs' / 'call.starargs' / 'call.starstarargs' / None."""
    e = self.subst(expr, stmt)
    d = dotted(e)
    if d is None:
      return None
    parts = d.split(".")
    if parts[0] == "args" and len(parts) == 2 and \
        self.defs.at("args", stmt) == frozenset(["param"]):
      if parts[1] in ("starargs", "starstarargs"):
        return "call." + parts[1]
      return None
    if parts[0] == "self" and len(parts) == 3 and \
        parts[1] in ("signature", "pytd_sig"):
      if parts[2] in ("kwargs_name",) or \
          (parts[1] == "pytd_sig" and parts[2] == "starstarargs"):
        return "sig.kwargs"
      if parts[2] in ("varargs_name",) or \
          (parts[1] == "pytd_sig" and parts[2] == "starargs"):
        return "sig.varargs"
    return None

  def sig_field(self, expr, stmt):
    """Last attribute of a self.signature / self.pytd_sig chain, else None."""
    e = self.subst(expr, stmt)
    d = dotted(e)
    if d is None:
      return None
    parts = d.split(".")
    if parts[0] == "self" and len(parts) == 3 and \
        parts[1] in ("signature", "pytd_sig"):
      return parts[2]
    return None

  def posargs_like(self, expr, stmt, depth=0):
    e = expr
    if isinstance(e, ast.Name) and depth < 4:
      v, d = self.defs.value(e.id, stmt)
      if v is None:
        return False
      return self.posargs_like(v, d, depth + 1)
    if dotted(e) == "args.posargs":
      return True
    if isinstance(e, ast.ListComp) and len(e.generators) == 1 and \
        not e.generators[0].ifs and dotted(e.generators[0].iter) == "args.posargs":
      return True
    return False

  def set_class(self, expr, stmt, depth=0):
    """Classifies a collection of names: keywords / posonly / params /
    positional-params / bound / extra / posonly-kw / bound-nonposonly / None."""
    if depth > 6:
      return None
    e = expr
    if isinstance(e, ast.Name):
      if e.id in self.map_names:
        return "bound"
      v, d = self.defs.value(e.id, stmt)
      if v is None:
        return None
      return self.set_class(v, d, depth + 1)
    if isinstance(e, ast.Call) and isinstance(e.func, ast.Name) and \
        e.func.id in ("set", "frozenset", "list", "tuple", "sorted") and \
        len(e.args) == 1 and not e.keywords:
      return self.set_class(e.args[0], stmt, depth + 1)
    if dotted(e) == "args.namedargs":
      return "keywords"
    if isinstance(e, ast.Call) and isinstance(e.func, ast.Attribute) and \
        e.func.attr == "keys" and not e.args and not e.keywords:
      return self.set_class(e.func.value, stmt, depth + 1)
    if isinstance(e, ast.DictComp) and len(e.generators) == 1:
      g = e.generators[0]
      if not g.ifs and isinstance(g.iter, ast.Call) and \
          isinstance(g.iter.func, ast.Attribute) and g.iter.func.attr == "items" \
          and isinstance(g.target, ast.Tuple) and len(g.target.elts) == 2 and \
          isinstance(e.key, ast.Name) and \
          isinstance(g.target.elts[0], ast.Name) and \
          e.key.id == g.target.elts[0].id:
        return self.set_class(g.iter.func.value, stmt, depth + 1)
      return None
    if isinstance(e, (ast.SetComp, ast.ListComp, ast.GeneratorExp)) and \
        len(e.generators) == 1 and not e.generators[0].ifs and \
        isinstance(e.generators[0].target, ast.Name) and \
        isinstance(e.elt, ast.Name) and e.elt.id == e.generators[0].target.id:
      # {k for k in X}: the same names as X
      return self.set_class(e.generators[0].iter, stmt, depth + 1)
    if isinstance(e, ast.SetComp) and len(e.generators) == 1:
      g = e.generators[0]
      if not g.ifs and isinstance(g.target, ast.Name) and \
          isinstance(e.elt, ast.Attribute) and e.elt.attr == "name" and \
          isinstance(e.elt.value, ast.Name) and e.elt.value.id == g.target.id \
          and self.sig_field(g.iter, stmt) == "params":
        return "params"
      return None
    if isinstance(e, ast.Call) and dotted(e.func) == "dict" and \
        len(e.args) == 1 and isinstance(e.args[0], ast.Call) and \
        dotted(e.args[0].func) == "zip" and len(e.args[0].args) == 2:
      z = e.args[0].args
      if self.sig_field(z[0], stmt) == "param_names" and \
          self.posargs_like(z[1], stmt):
        return "bound"
      return None
    f = self.sig_field(e, stmt)
    if f == "posonly_params":
      return "posonly"
    if f == "param_names":
      return "positional-params"
    if f == "kwonly_params":
      return "kwonly-params"
    if isinstance(e, ast.BinOp) and isinstance(e.op, ast.Add):
      l = self.set_class(e.left, stmt, depth + 1)
      r = self.set_class(e.right, stmt, depth + 1)
      if {l, r} == {"positional-params", "kwonly-params"}:
        return "params"
      return None
    l = r = op = None
    if isinstance(e, ast.BinOp) and isinstance(e.op, (ast.Sub, ast.BitAnd, ast.BitOr)):
      l, r = e.left, e.right
      op = {ast.Sub: "diff", ast.BitAnd: "and", ast.BitOr: "or"}[type(e.op)]
    elif isinstance(e, ast.Call) and isinstance(e.func, ast.Attribute) and \
        e.func.attr in ("difference", "intersection", "union") and len(e.args) == 1:
      l, r = e.func.value, e.args[0]
      op = {"difference": "diff", "intersection": "and", "union": "or"}[e.func.attr]
    if op:
      lc = self.set_class(l, stmt, depth + 1)
      rc = self.set_class(r, stmt, depth + 1)
      if op == "diff" and lc == "keywords" and rc == "params":
        return "extra"
      if op == "diff" and lc == "bound" and rc == "posonly":
        return "bound-nonposonly"
      if op == "or" and {lc, rc} == {"extra", "posonly-kw"}:
        return "extra+posonly-kw"
      if op == "and" and {lc, rc} == {"keywords", "posonly"}:
        return "posonly-kw"
      if op == "and" and {lc, rc} == {"keywords", "bound-nonposonly"}:
        return "duplicated"
      if op == "and" and {lc, rc} == {"keywords", "bound"}:
        return "duplicated-any"
      return None
    return None

  # formula construction ------------------------------------------------------
  def atom(self, expr, stmt):
    """-> (name, vocabulary?)"""
    if isinstance(expr, ast.Name) and expr.id in getattr(self, "_flags", {}):
      return ("atom", self._flags[expr.id])
    sa = self.sig_attr(expr, stmt)
    if sa:
      return ("atom", sa)
    if isinstance(expr, ast.Name):
      sc = self.set_class(expr, stmt)
      if sc in ("extra", "posonly-kw"):
        return ("atom", f"{sc}!=0")
      if sc == "duplicated":
        # some passed keyword is already bound positionally and is not
        # positional-only
        return ("and", [("atom", "name in bound"), ("atom", "name in keywords"),
                        ("not", ("atom", "name in posonly"))])
      if sc == "duplicated-any":
        return ("and", [("atom", "name in bound"), ("atom", "name in keywords")])
      # a once-bound local holding a condition: `too_many = len(..) > n`
      v, d = self.defs.value(expr.id, stmt)
      if v is not None and _depth_ok(self) and isinstance(
          v, (ast.Compare, ast.BoolOp, ast.UnaryOp, ast.Call)) and \
          all(self.defs.at(n, d) == self.defs.at(n, stmt)
              for n in flow.names_in(v) if n != expr.id):
        self._bool_depth = getattr(self, "_bool_depth", 0) + 1
        try:
          return self.formula(v, d)
        finally:
          self._bool_depth -= 1
    if isinstance(expr, ast.Call) and \
        (dotted(expr.func) or "").split(".")[-1] == "has_visible_namedarg":
      return ("atom", "call.visible-namedarg")
    return ("atom", "?" + src(expr))

  def formula(self, expr, stmt):
    if isinstance(expr, ast.UnaryOp) and isinstance(expr.op, ast.Not):
      return ("not", self.formula(expr.operand, stmt))
    if isinstance(expr, ast.BoolOp):
      kind = "and" if isinstance(expr.op, ast.And) else "or"
      return (kind, [self.formula(v, stmt) for v in expr.values])
    if isinstance(expr, ast.Constant) and isinstance(expr.value, bool):
      return ("const", expr.value)
    if isinstance(expr, ast.Compare) and len(expr.ops) == 1:
      op, l, r = expr.ops[0], expr.left, expr.comparators[0]
      if isinstance(op, (ast.Is, ast.IsNot)) and \
          isinstance(r, ast.Constant) and r.value is None:
        f = self.formula(l, stmt)
        return ("not", f) if isinstance(op, ast.Is) else f
      if isinstance(op, (ast.In, ast.NotIn)):
        sc = self.set_class(r, stmt)
        if sc in ("posonly", "keywords", "bound"):
          f = ("atom", f"name in {sc}")
        elif sc == "bound-nonposonly":
          f = ("and", [("atom", "name in bound"),
                       ("not", ("atom", "name in posonly"))])
        else:
          f = ("atom", "?" + src(ast.Compare(left=l, ops=[ast.In()],
                                              comparators=[r])))
        return ("not", f) if isinstance(op, ast.NotIn) else f
      if isinstance(op, ast.Gt) and isinstance(l, ast.Call) and \
          dotted(l.func) == "len" and len(l.args) == 1 and \
          self.posargs_like(l.args[0], stmt):
        return ("atom", "too-many-positional")
      if isinstance(op, ast.Lt) and isinstance(r, ast.Call) and \
          dotted(r.func) == "len" and len(r.args) == 1 and \
          self.posargs_like(r.args[0], stmt):
        return ("atom", "too-many-positional")
      # len(posargs) >= capacity / capacity <= len(posargs): a different fact
      # of the vocabulary (not the CPython condition)
      for cnt, o in ((l, ast.GtE), (r, ast.LtE)):
        if isinstance(op, o) and isinstance(cnt, ast.Call) and \
            dotted(cnt.func) == "len" and len(cnt.args) == 1 and \
            self.posargs_like(cnt.args[0], stmt):
          return ("atom", "positional>=capacity")
    return self.atom(expr, stmt)

  def loop_domain(self, loop):
    """Membership literals implied by iterating `for v in D`."""
    it = loop.iter
    if isinstance(it, ast.Call) and isinstance(it.func, ast.Attribute) and \
        it.func.attr in ("items", "keys") and not it.args:
      it = it.func.value
    sc = self.set_class(it, loop)
    if sc in ("keywords", "posonly", "bound"):
      return [("atom", f"name in {sc}")]
    if sc == "bound-nonposonly":
      return [("atom", "name in bound"), ("not", ("atom", "name in posonly"))]
    if sc in ("extra", "posonly-kw"):
      return [("atom", "name in keywords")]
    return []

  def kwonly_flag(self, loop):
    """`for key, flag in itertools.chain(.., ((k, True) for k in
    <sig>.kwonly_params))`: the name of the is-keyword-only flag, or None."""
    t = loop.target
    if not (isinstance(t, ast.Tuple) and len(t.elts) == 2
            and all(isinstance(e, ast.Name) for e in t.elts)):
      return None
    it = loop.iter
    if not (isinstance(it, ast.Call)
            and (dotted(it.func) or "").split(".")[-1] == "chain"):
      return None
    for a in it.args:
      if isinstance(a, (ast.GeneratorExp, ast.ListComp)) and \
          len(a.generators) == 1 and \
          isinstance(a.elt, ast.Tuple) and len(a.elt.elts) == 2 and \
          isinstance(a.elt.elts[1], ast.Constant) and \
          a.elt.elts[1].value is True and \
          self.set_class(a.generators[0].iter, loop) == "kwonly-params":
        return t.elts[1].id
    return None

  def path_condition(self, stmt):
    """Conjunction of the tests controlling `stmt`.  Negations contributed by
    an *earlier* check that only raises are left out: they order the errors,
    they do not guard this one."""
    mod = self.b.mod
    flags = {}
    loops = []
    node = stmt
    while node is not None and node is not self.fn:
      node = mod.parent.get(node)
      if isinstance(node, ast.For):
        loops.append(node)
        fl = self.kwonly_flag(node)
        if fl:
          flags[fl] = "param.kwonly"
    self._flags = flags
    conj = []
    for test, pol in flow.guards(mod.parent, stmt, stop=self.fn):
      owner = mod.parent.get(test)
      if isinstance(owner, ast.If) and owner.test is test and \
          not _contains(owner, stmt):
        exit_block = owner.orelse if pol else owner.body
        if _only_raises(exit_block):
          continue
      holder = mod.enclosing_stmt(test)
      f = self.formula(test, holder)
      conj.append(f if pol else ("not", f))
    loop_names = set()
    for lp in loops:
      conj.extend(self.loop_domain(lp))
      for n in ast.walk(lp.target):
        if isinstance(n, ast.Name):
          loop_names.add(n.id)
    f = ("and", conj)
    self._loop_names = loop_names
    for a in _atoms(f, set()):
      if a.startswith("?") and a[1:] in loop_names:
        raise AnalysisError(
            f"{self.q}: the per-parameter flag `{a[1:]}` in a binder guard "
            "could not be resolved (is-keyword-only idiom not recognised)")
    return f, {"param.kwonly": False} if "param.kwonly" in _atoms(f, set()) else {}


def _depth_ok(canon):
  return getattr(canon, "_bool_depth", 0) < 4


def _contains(root, node):
  return any(n is node for n in ast.walk(root))


def _only_raises(block):
  if not block:
    return False
  last = block[-1]
  if isinstance(last, ast.Raise):
    return True
  if isinstance(last, ast.If):
    return _only_raises(last.body) and _only_raises(last.orelse)
  return False


def _atoms(f, out):
  if f[0] == "atom":
    out.add(f[1])
  elif f[0] == "not":
    _atoms(f[1], out)
  elif f[0] in ("and", "or"):
    for g in f[1]:
      _atoms(g, out)
  return out


def _eval(f, env):
  k = f[0]
  if k == "atom":
    return env[f[1]]
  if k == "const":
    return f[1]
  if k == "not":
    return not _eval(f[1], env)
  if k == "and":
    return all(_eval(g, env) for g in f[1])
  return any(_eval(g, env) for g in f[1])


def _necessary_literals(f, fixed):
  """Vocabulary literals implied by f when the atoms in `fixed` have the
  given values (the positional-parameter case)."""
  atoms = sorted(_atoms(f, set()))
  if len(atoms) > 14:
    raise AnalysisError(f"path condition has {len(atoms)} atoms: too many")
  rest = [a for a in atoms if a not in fixed]
  vocab = [a for a in rest if not a.startswith("?")]
  models = []
  for vals in itertools.product([False, True], repeat=len(rest)):
    env = dict(zip(rest, vals), **fixed)
    if _eval(f, env):
      models.append(env)
  if not models:
    raise AnalysisError("path condition of a raise is unsatisfiable")
  lits = set()
  for a in vocab:
    if all(m[a] for m in models):
      lits.add(a)
    elif not any(m[a] for m in models):
      lits.add("not " + a)
  opaque = [a[1:] for a in rest if a.startswith("?")]
  return lits, opaque, [f"{k}={v}" for k, v in sorted(fixed.items())]


# -- raise facts -------------------------------------------------------------------

BINDER_ERRORS = ("WrongArgCount", "WrongKeywordArgs", "DuplicateKeyword",
                 "MissingParameter")

REQUIRED = {
    "WrongArgCount": {"not sig.varargs", "too-many-positional"},
    "WrongKeywordArgs[extra]": {"not sig.kwargs", "extra!=0"},
    "WrongKeywordArgs[posonly]": {"not sig.kwargs", "posonly-kw!=0"},
    "DuplicateKeyword": {"not name in posonly", "name in keywords",
                         "name in bound"},
    "MissingParameter": {"not call.starargs", "not call.starstarargs",
                         "not name in bound"},
}


def _raise_facts(binder):
  """key -> list of {literals, opaque, refinements, line, function}."""
  out = {}
  for q, fn in binder.fns:
    canon = _Canon(binder, q, fn)
    for r in walk_no_nested(fn):
      if not isinstance(r, ast.Raise) or r.exc is None:
        continue
      exc = r.exc
      if not isinstance(exc, ast.Call):
        raise AnalysisError(f"{q}: `raise {src(exc)}` is not a constructor call")
      name = (dotted(exc.func) or "?").split(".")[-1]
      if name not in BINDER_ERRORS:
        raise AnalysisError(f"{q}: raises {name}, not a known binder error")
      key = name
      if name == "WrongKeywordArgs":
        if len(exc.args) != 4:
          raise AnalysisError(f"{q}: WrongKeywordArgs call shape not understood")
        sc = canon.set_class(exc.args[3], r)
        tag = {"extra": "extra", "posonly-kw": "posonly"}.get(sc)
        if tag is None:
          raise AnalysisError(
              f"{q}: the keyword set `{src(exc.args[3])}` reported by "
              "WrongKeywordArgs could not be classified (extra / posonly)")
        key = f"WrongKeywordArgs[{tag}]"
      pc, fixed = canon.path_condition(r)
      lits, opaque, ref = _necessary_literals(pc, fixed)
      # conditions outside the vocabulary that read something else than the
      # per-parameter loop variables (they may hide any call-site / signature
      # fact); per-parameter refinements (`p.optional`) cannot
      hiding = []
      for o in opaque:
        try:
          names = flow.names_in(ast.parse(o, mode="eval").body)
        except SyntaxError:
          names = {"?"}
        if not names or not names <= canon._loop_names:
          hiding.append(o)
      out.setdefault(key, []).append({
          "literals": sorted(lits), "opaque": opaque, "opaque_nonlocal": hiding,
          "evaluated_for": ref, "line": r.lineno, "function": q})
  return out


def _kw_store_facts(binder):
  """Stores of passed keywords into the name->argument map:
  list of (function, line, description, excludes_posonly)."""
  out = []
  mod = binder.mod
  for q, fn in binder.fns:
    canon = _Canon(binder, q, fn)
    m = binder.maps[q]
    ms = binder.map_names[q]
    for n in walk_no_nested(fn):
      # MAP.update(E)
      if isinstance(n, ast.Call) and isinstance(n.func, ast.Attribute) and \
          isinstance(n.func.value, ast.Name) and n.func.value.id in ms:
        if n.func.attr not in ("update", "get", "items", "keys", "values",
                               "setdefault", "pop", "copy"):
          raise AnalysisError(f"{q}: `{m}.{n.func.attr}` not understood")
        if n.func.attr == "setdefault":
          raise AnalysisError(f"{q}: `{m}.setdefault` not understood")
        if n.func.attr != "update":
          continue
        if len(n.args) != 1 or n.keywords:
          raise AnalysisError(f"{q}: `{src(n)}` not understood")
        stmt = mod.enclosing_stmt(n)
        e = n.args[0]
        v = e
        vstmt = stmt
        if isinstance(e, ast.Name):
          vv, d = canon.defs.value(e.id, stmt)
          if vv is not None:
            v, vstmt = vv, d
        sc = canon.set_class(e, stmt)
        if sc == "keywords":
          out.append((q, n.lineno, src(n), False))
        elif sc == "bound":
          continue
        elif isinstance(v, ast.DictComp) and len(v.generators) == 1:
          g = v.generators[0]
          it = g.iter
          if isinstance(it, ast.Call) and isinstance(it.func, ast.Attribute) \
              and it.func.attr == "items":
            it = it.func.value
          isc = canon.set_class(it, vstmt)
          if isc == "keywords":
            if not (isinstance(g.target, ast.Tuple) and
                    isinstance(g.target.elts[0], ast.Name) and
                    isinstance(v.key, ast.Name) and
                    v.key.id == g.target.elts[0].id):
              raise AnalysisError(f"{q}: `{src(v)}` re-keys the keywords")
            f = ("and", [canon.formula(c, vstmt) for c in g.ifs])
            lits, _, _ = _necessary_literals(f, {}) if g.ifs else (set(), 0, 0)
            out.append((q, n.lineno, src(n), "not name in posonly" in lits))
          elif isc != "bound":
            raise AnalysisError(
                f"{q}: source of `{src(n)}` could not be classified")
        else:
          raise AnalysisError(
              f"{q}: source of `{src(n)}` could not be classified")
      # MAP[k] = v inside `for k, v in <keywords>.items()`
      if isinstance(n, ast.Assign):
        for t in n.targets:
          if isinstance(t, ast.Subscript) and isinstance(t.value, ast.Name) \
              and t.value.id in ms:
            loop = mod.parent.get(n)
            while loop is not None and loop is not fn and \
                not isinstance(loop, ast.For):
              loop = mod.parent.get(loop)
            if not isinstance(loop, ast.For):
              continue
            doms = canon.loop_domain(loop)
            if ("atom", "name in keywords") not in doms:
              continue
            tgt = loop.target
            first = tgt.elts[0] if isinstance(tgt, ast.Tuple) else tgt
            if not (isinstance(first, ast.Name) and
                    isinstance(t.slice, ast.Name) and t.slice.id == first.id):
              raise AnalysisError(
                  f"{q}: `{src(n)}` in the keyword loop not understood")
            pc, ref = canon.path_condition(n)
            lits, _, _ = _necessary_literals(pc, ref)
            out.append((q, n.lineno, src(n), "not name in posonly" in lits))
  return out


@rule("R13.1", "C13", floor=8)
def r13_1(ctx):
  """The two binders raise the same errors under the same necessary guards."""
  a, b = _binders(ctx)
  fa, fb = _raise_facts(a), _raise_facts(b)
  for key in sorted(set(REQUIRED) | set(fa) | set(fb)):
    ra, rb = fa.get(key, []), fb.get(key, [])
    facts = {a.label: ra, b.label: rb}
    line = (ra or rb or [{"line": 0}])[0]["line"]
    rel = FB if ra else PF
    if not ra or not rb:
      missing = a.label if not ra else b.label
      ctx.bad(key, rel, line,
              f"the {missing} binder never raises {key} although its sibling "
              "does (or CPython's binding rules require it)", facts)
      continue
    if len(ra) != 1 or len(rb) != 1:
      raise AnalysisError(f"{key}: raised at several places in one binder")
    la, lb = set(ra[0]["literals"]), set(rb[0]["literals"])
    req = REQUIRED.get(key, set())
    problems = []
    if la != lb:
      if la - lb:
        problems.append(f"only the {a.label} binder requires {sorted(la - lb)}")
      if lb - la:
        problems.append(f"only the {b.label} binder requires {sorted(lb - la)}")
    for lab, l in ((a.label, la), (b.label, lb)):
      if req - l:
        problems.append(
            f"the {lab} binder raises {key} without requiring "
            f"{sorted(req - l)}")
    if problems:
      # a guard the vocabulary does not cover may well imply the missing
      # literal: not decidable, never a violation
      for lab, r, l, other in ((a.label, ra[0], la, lb), (b.label, rb[0], lb, la)):
        miss = (other | req) - l
        hiding = r["opaque_nonlocal"] or (
            r["opaque"] if any("in posonly" in x for x in miss) else [])
        if hiding and miss:
          raise AnalysisError(
              f"{key}: the {lab} binder's raise is guarded by conditions "
              f"outside the vocabulary {hiding}; whether they imply "
              f"{sorted(miss)} is not understood")
    ctx.check(not problems, key, rel, line,
              f"binder guard facts disagree for {key}: " + "; ".join(problems),
              facts)
  # keyword -> map stores exclude positional-only names, in both siblings
  for binder in (a, b):
    stores = _kw_store_facts(binder)
    if not stores:
      raise AnalysisError(
          f"{binder.label}: no store of passed keywords into the "
          "name->argument map was recognised")
    bad = [s for s in stores if not s[3]]
    ctx.check(not bad, f"{binder.label}:keywords-into-map", binder.rel,
              (bad or stores)[0][1],
              f"{(bad or stores)[0][2]} enters every passed keyword into the "
              "name->argument map: a keyword named like a positional-only "
              "parameter then satisfies it (def f(p, /, **kw); f(p=0) is a "
              "TypeError in CPython); the sibling filters such names",
              {"stores": [{"function": s[0], "store": s[2],
                           "excludes_posonly": s[3]} for s in stores]})
  # the interpreter binder's **kwargs dict keeps positional-only-named keywords
  q, fn = a.fns[0]
  canon = _Canon(a, q, fn)
  omits = [(c, k.value) for c in calls_in(fn) for k in c.keywords
           if k.arg == "omit"]
  if len(omits) != 1:
    raise AnalysisError(f"{q}: the `omit=` of the **kwargs dict was not found")
  call, val = omits[0]
  stmt = a.mod.enclosing_stmt(call)
  if not any(canon.set_class(x, stmt) == "keywords" for x in call.args):
    raise AnalysisError(f"{q}: {src(call)} does not copy the passed keywords")
  v = val
  if isinstance(v, ast.Name):
    vv, d = canon.defs.value(v.id, stmt)
    if vv is None:
      raise AnalysisError(f"{q}: omit list `{v.id}` not resolved")
    v, stmt = vv, d
  parts = []
  todo = [v]
  while todo:
    x = todo.pop()
    if isinstance(x, ast.BinOp) and isinstance(x.op, ast.Add):
      todo += [x.left, x.right]
    else:
      parts.append(x)
  kinds = []
  for x in parts:
    if isinstance(x, ast.Subscript) and isinstance(x.slice, ast.Slice) and \
        canon.sig_field(x.value, stmt) == "param_names" and \
        x.slice.upper is None and x.slice.step is None and \
        x.slice.lower is not None and \
        canon.sig_field(x.slice.lower, stmt) == "posonly_count":
      kinds.append("non-posonly-params")
    else:
      sc = canon.set_class(x, stmt)
      if sc is None:
        raise AnalysisError(f"{q}: omit component {src(x)} not understood")
      kinds.append(sc)
  ok = "positional-params" not in kinds and "params" not in kinds and \
      "posonly" not in kinds
  ctx.check(ok, f"{a.label}:kwargs-dict-omit", FB, call.lineno,
            f"the **kwargs dictionary omits {sorted(kinds)}: a keyword named "
            "like a positional-only parameter must stay available to "
            "**kwargs (def f(x, /, **kw); f(0, x=1) binds kw={'x': 1})",
            {"omit": src(v), "components": sorted(kinds)})


# -- R13.2 ---------------------------------------------------------------------------

def _family(mod, roots):
  """class -> list of ancestors (nearest first) inside the module, for classes
  descending from roots."""
  bases = {}
  for name, cls in mod.classes.items():
    bases[name] = [(dotted(b) or "").split(".")[-1] for b in cls.bases]
  fam = {}

  def ancestors(n, seen=()):
    out = []
    for b in bases.get(n, []):
      if b in bases and b not in seen:
        out.append(b)
        out += ancestors(b, seen + (n,))
    return out
  for n in bases:
    anc = ancestors(n)
    if n in roots or any(r in anc for r in roots):
      fam[n] = anc
  return fam


def _init_attrs(mod, cls, fam):
  out = set()
  for c in [cls] + fam.get(cls, []):
    init = mod.methods(c).get("__init__") if c in mod.classes else None
    if init is None:
      continue
    for n in ast.walk(init):
      if isinstance(n, (ast.Assign, ast.AnnAssign)):
        tgts = n.targets if isinstance(n, ast.Assign) else [n.target]
        for t in tgts:
          if isinstance(t, ast.Attribute) and dotted(t.value) == "self":
            out.add(t.attr)
  return out


REPORTERS = {
    "WrongArgCount": ("wrong_arg_count", "wrong-arg-count"),
    "WrongKeywordArgs": ("wrong_keyword_args", "wrong-keyword-args"),
    "MissingParameter": ("missing_parameter", "missing-parameter"),
    "DuplicateKeyword": ("duplicate_keyword", "duplicate-keyword-argument"),
}


def _always_emits(mod, owner_methods, fn, depth=0):
  """Every normal exit of fn passes a call of self.error / self._add or of a
  same-class helper that always emits."""
  def gen(unit):
    for c in flow.unconditional_calls(unit):
      d = dotted(c.func) or ""
      if d in ("self.error", "self._add"):
        return ["emit"]
      if d.startswith("self.") and d.count(".") == 1 and depth < 3:
        h = owner_methods.get(d.split(".")[1])
        if h is not None and h is not fn and \
            _always_emits(mod, owner_methods, h, depth + 1):
          return ["emit"]
    return []
  f = flow.flow(fn, gen)
  exits = [st for k, _, st in f.exits if k != "raise"]
  return bool(exits) and all(st is not None and "emit" in st for st in exits)


@rule("R13.2", "C13", floor=11)
def r13_2(ctx):
  """Every call-failure class reaches its own arm and its own error name."""
  et = get_module(ctx, ET)
  fam = _family(et, {"FailedFunctionCall", "DictKeyMissing"})
  if len(fam) < 9:
    raise AnalysisError(f"error_types.py: only {len(fam)} call-failure classes")
  em = get_module(ctx, ERRORS)
  owner = None
  for cname in em.classes:
    if "invalid_function_call" in em.methods(cname):
      owner = cname
  if owner is None:
    raise AnalysisError("errors.py: invalid_function_call not found")
  methods = dict(em.methods(owner))
  for base in em.cls(owner).bases:
    bn = dotted(base)
    if bn in em.classes:
      for k, v in em.methods(bn).items():
        methods.setdefault(k, v)
  fn = methods["invalid_function_call"]
  params = [x.arg for x in fn.args.args]
  if len(params) < 3:
    raise AnalysisError("invalid_function_call signature not understood")
  err = params[2]
  # the isinstance chain that ends in `raise AssertionError`
  chain = None
  for st in fn.body:
    if isinstance(st, ast.If):
      node, arms = st, []
      while True:
        arms.append(node)
        if len(node.orelse) == 1 and isinstance(node.orelse[0], ast.If):
          node = node.orelse[0]
        else:
          break
      tail = node.orelse
      if tail and isinstance(tail[-1], ast.Raise) and \
          (dotted(tail[-1].exc.func if isinstance(tail[-1].exc, ast.Call)
                  else tail[-1].exc) or "") == "AssertionError":
        chain = arms
  if chain is None:
    raise AnalysisError(
        "invalid_function_call: isinstance chain ending in AssertionError "
        "not recognised")
  order = []
  for arm in chain:
    t = arm.test
    if not (isinstance(t, ast.Call) and dotted(t.func) == "isinstance"
            and len(t.args) == 2 and dotted(t.args[0]) == err):
      raise AnalysisError(
          f"invalid_function_call: arm test `{src(t)}` not understood")
    spec = t.args[1]
    names = [spec] if not isinstance(spec, ast.Tuple) else spec.elts
    order.append(([(dotted(n) or "?").split(".")[-1] for n in names], arm))
  own_arm = {c for names, _ in order for c in names}
  subclasses = {c: [d for d in fam if c in fam[d]] for c in fam}
  for cls in sorted(fam):
    line = et.cls(cls).lineno
    if cls not in own_arm and subclasses[cls]:
      # abstract base: must never be raised as itself
      files = [FB, PF, FN, ET]
      if ctx.tier == "thorough":
        files = [r for r in all_py_files(ctx) if not r.endswith("_test.py")]
      direct = []
      for rel in files:
        text = ctx.read(rel)
        if cls + "(" not in text:
          continue
        m = get_module(ctx, rel)
        for c in calls_in(m.tree):
          if (dotted(c.func) or "").split(".")[-1] == cls and \
              not isinstance(m.parent.get(c), ast.ClassDef):
            direct.append(f"{rel}:{c.lineno}")
      ctx.check(not direct, f"{cls}:abstract", ET, line,
                f"{cls} has no arm in invalid_function_call (it would hit the "
                f"AssertionError) but is instantiated at {direct}",
                {"instantiated_at": direct, "files_scanned": len(files)})
      continue
    first = None
    for names, arm in order:
      if any(n == cls or n in fam[cls] for n in names):
        first = (names, arm)
        break
    if first is None:
      ctx.bad(f"{cls}:arm", ET, line,
              f"{cls} has no arm in {owner}.invalid_function_call: raising it "
              "ends in AssertionError instead of a report",
              {"arms": [n for n, _ in order]})
      continue
    names, arm = first
    facts = {"dispatched_by": names}
    ok = cls in names or cls not in own_arm
    reason = (f"{cls} is caught by the earlier arm for {names} before its own "
              "arm is reached")
    if ok and cls in REPORTERS:
      meth, ename = REPORTERS[cls]
      calls = [c for st in arm.body for c in calls_in(st)
               if (dotted(c.func) or "") == f"self.{meth}"]
      facts["reporter"] = [src(c.func) for st in arm.body for c in calls_in(st)
                           if (dotted(c.func) or "").startswith("self.")]
      if not calls:
        ok, reason = False, (f"the {cls} arm calls {facts['reporter']}, "
                             f"expected self.{meth}")
      else:
        rep = methods.get(meth)
        if rep is None:
          raise AnalysisError(f"errors.py: reporter {meth} not found")
        reg = [x.value for d in rep.decorator_list if isinstance(d, ast.Call)
               and (dotted(d.func) or "").endswith("_error_name")
               for x in d.args if isinstance(x, ast.Constant)]
        facts["error_name"] = reg
        emits = _always_emits(em, methods, rep)
        facts["always_emits"] = emits
        if reg != [ename]:
          ok, reason = False, f"{meth} is registered as {reg}, expected {ename!r}"
        elif not emits:
          ok, reason = False, f"{meth} does not emit an error on every path"
    if ok:
      # attributes of the error object read in the arm exist on the class
      have = _init_attrs(et, cls, fam) | {"name"}
      used = {n.attr for st in arm.body for n in ast.walk(st)
              if isinstance(n, ast.Attribute) and dotted(n.value) == err}
      facts["reads"] = sorted(used)
      if used - have:
        ok, reason = False, (f"the {cls} arm reads error.{sorted(used - have)} "
                             f"which {cls}.__init__ never sets")
    ctx.check(ok, f"{cls}:arm", ET, line, reason, facts)


# -- R13.3 / R13.4 --------------------------------------------------------------------

@rule("R13.3", "C13", floor=1)
def r13_3(ctx):
  """function.Args is frozen."""
  mod = get_module(ctx, FN)
  cls = mod.cls("Args")
  frozen = False
  decos = []
  for d in cls.decorator_list:
    name = dotted(d.func if isinstance(d, ast.Call) else d) or ""
    decos.append(src(d))
    last = name.split(".")[-1]
    if last == "frozen" and name.split(".")[0] in ("attrs", "attr"):
      frozen = True
    if isinstance(d, ast.Call) and last in ("define", "s", "attrs", "dataclass",
                                            "mutable"):
      for k in d.keywords:
        if k.arg == "frozen" and isinstance(k.value, ast.Constant) and \
            k.value.value is True and last != "mutable":
          frozen = True
  if not decos:
    ctx.bad("function.Args:frozen", FN, cls.lineno,
            "Args has no class decorator: it is an ordinary mutable class")
    return
  ctx.check(frozen, "function.Args:frozen", FN, cls.lineno,
            f"Args is declared with {decos}; the call record must be frozen so "
            "a binder cannot change what the next signature sees",
            {"decorators": decos})


_MUTATORS = {"append", "extend", "insert", "remove", "pop", "popitem", "clear",
             "update", "setdefault", "sort", "reverse", "add", "discard",
             "__setitem__", "__delitem__"}


@rule("R13.4", "C13", floor=3)
def r13_4(ctx):
  """The binders do not mutate the call record's containers."""
  for binder in _binders(ctx):
    for q, fn in binder.fns:
      hits = []
      for n in walk_no_nested(fn):
        tgts = []
        if isinstance(n, ast.Assign):
          tgts = n.targets
        elif isinstance(n, (ast.AugAssign, ast.AnnAssign)):
          tgts = [n.target]
        elif isinstance(n, ast.Delete):
          tgts = n.targets
        for t in tgts:
          for x in ast.walk(t):
            if isinstance(x, (ast.Attribute, ast.Subscript)) and \
                isinstance(x.ctx, (ast.Store, ast.Del)):
              root = x.value
              d = dotted(root) or ""
              if d == "args" or d.startswith("args."):
                hits.append(f"{src(x)} (line {n.lineno})")
        if isinstance(n, ast.Call) and isinstance(n.func, ast.Attribute) and \
            n.func.attr in _MUTATORS:
          d = dotted(n.func.value) or ""
          if d.startswith("args."):
            hits.append(f"{src(n.func)}() (line {n.lineno})")
      ctx.check(not hits, f"{q}:no-args-mutation", binder.rel, fn.lineno,
                f"{q} mutates the call record: {hits}; every overload is "
                "matched against the same Args object",
                {"mutations": hits})


# -- R13.5: the positional capacity -----------------------------------------------------

IF = "pytype/abstract/_interpreter_function.py"

_COUNT_OF = {"positional-params": "positional", "params": "all-params",
             "kwonly-params": "keyword-only", "posonly": "positional-only"}


def _self_sig_seq(expr):
  """Context-free: self.signature.param_names -> 'positional-params', ..."""
  d = dotted(expr) or ""
  parts = d.split(".")
  if len(parts) == 3 and parts[0] == "self" and parts[1] in ("signature", "pytd_sig"):
    return {"param_names": "positional-params", "kwonly_params": "kwonly-params",
            "posonly_params": "posonly", "params": "params"}.get(parts[2])
  return None


def _seq_class(canon, expr, stmt, depth=0):
  """Which parameters a sequence holds one entry for (count-preserving maps
  are looked through)."""
  if depth > 5:
    return None
  if isinstance(expr, (ast.ListComp, ast.GeneratorExp)) and \
      len(expr.generators) == 1 and not expr.generators[0].ifs:
    return _seq_class(canon, expr.generators[0].iter, stmt, depth + 1)
  if isinstance(expr, ast.Call) and isinstance(expr.func, ast.Name) and \
      expr.func.id in ("list", "tuple") and len(expr.args) == 1:
    return _seq_class(canon, expr.args[0], stmt, depth + 1)
  if isinstance(expr, ast.BinOp) and isinstance(expr.op, ast.Add):
    l = _seq_class(canon, expr.left, stmt, depth + 1)
    r = _seq_class(canon, expr.right, stmt, depth + 1)
    return "params" if {l, r} == {"positional-params", "kwonly-params"} else None
  if canon is None:
    return _self_sig_seq(expr)
  if isinstance(expr, ast.Name):
    v, d = canon.defs.value(expr.id, stmt)
    if v is None:
      return None
    return _seq_class(canon, v, d, depth + 1)
  if canon.sig_field(expr, stmt) == "params":
    return "params"
  sc = canon.set_class(expr, stmt)
  return sc if sc in _COUNT_OF else None


def _count_class(ctx, binder, canon, expr, stmt, depth=0):
  """Classifies a number: 'positional' (number of positional parameters),
  'all-params', 'keyword-only', 'positional-only', or None (not understood)."""
  if depth > 5:
    return None
  if canon is not None and isinstance(expr, ast.Name):
    v, d = canon.defs.value(expr.id, stmt)
    if v is None:
      return None
    return _count_class(ctx, binder, canon, v, d, depth + 1)
  if isinstance(expr, ast.Call) and dotted(expr.func) == "len" and \
      len(expr.args) == 1 and not expr.keywords:
    return _COUNT_OF.get(_seq_class(canon, expr.args[0], stmt))
  if isinstance(expr, ast.BinOp) and isinstance(expr.op, ast.Add):
    l = _count_class(ctx, binder, canon, expr.left, stmt, depth + 1)
    r = _count_class(ctx, binder, canon, expr.right, stmt, depth + 1)
    if {l, r} == {"positional", "keyword-only"}:
      return "all-params"
    return None
  f = canon.sig_field(expr, stmt) if canon is not None else (
      (dotted(expr) or "").split(".")[-1]
      if (dotted(expr) or "").startswith(("self.signature.", "self.pytd_sig."))
      else None)
  if f == "posonly_count":
    return "positional-only"
  # self.code.<attr>: the code object's counters (blocks.OrderedCode copies
  # CPython's co_argcount / co_kwonlyargcount / co_posonlyargcount)
  d = dotted(expr) or ""
  if canon is None and d.startswith("self.code.") and d.count(".") == 2:
    return _code_counter(ctx, d.split(".")[2])
  # self.<attr>: an instance attribute of the function object with exactly one
  # binding `self.<attr> = E` in the binder's class or a subclass of it
  if canon is None and d.startswith("self.") and d.count(".") == 1:
    v = _instance_counter(ctx, binder, d.split(".")[1])
    if v is None:
      return None
    return _count_class(ctx, binder, None, v[0], v[1], depth + 1)
  # self.<method>(..): the method of the binder's own class, one `return E`
  if isinstance(expr, ast.Call) and isinstance(expr.func, ast.Attribute) and \
      dotted(expr.func.value) == "self" and canon is not None:
    try:
      _, meth = U.resolve_method(binder.mod, binder.receiver, expr.func.attr)
    except AnalysisError:
      return None
    body = [st for st in meth.body if not (isinstance(st, ast.Expr)
                                           and isinstance(st.value, ast.Constant))]
    if len(body) != 1 or not isinstance(body[0], ast.Return) or \
        body[0].value is None:
      return None
    own = _count_class(ctx, binder, None, body[0].value, body[0], depth + 1)
    kinds = [own]
    # an override in a subclass of the binder's class must agree
    for rel in {binder.rel, IF}:
      m = get_module(ctx, rel)
      for cname, cdef in m.classes.items():
        if cname == binder.receiver or not _derives_from(m, cname, binder.receiver):
          continue
        ov = m.methods(cname).get(expr.func.attr)
        if ov is None:
          continue
        b = [st for st in ov.body if not (isinstance(st, ast.Expr)
                                          and isinstance(st.value, ast.Constant))]
        other = _count_class(ctx, binder, None, b[0].value, b[0], depth + 1) \
            if len(b) == 1 and isinstance(b[0], ast.Return) and b[0].value is not None \
            else None
        kinds.append(other)
    if None in kinds:
      return None
    wrong = [k for k in kinds if k != "positional"]
    return wrong[0] if wrong else "positional"
  return None


BLOCKS = "pytype/blocks/blocks.py"
_CO_COUNTERS = {"co_argcount": "positional", "co_kwonlyargcount": "keyword-only",
                "co_posonlyargcount": "positional-only"}


def _code_counter(ctx, attr):
  """What OrderedCode.<attr> counts, from its assignment in OrderedCode.__init__."""
  mod = get_module(ctx, BLOCKS)
  init = mod.func("OrderedCode.__init__")
  vals = [n.value for n in ast.walk(init) if isinstance(n, ast.Assign)
          and len(n.targets) == 1 and dotted(n.targets[0]) == f"self.{attr}"]
  if len(vals) != 1:
    return None
  v = vals[0]
  if isinstance(v, ast.Call) and dotted(v.func) == "max" and len(v.args) == 2 and \
      isinstance(v.args[1], ast.Constant) and v.args[1].value == 0:
    v = v.args[0]
  if isinstance(v, ast.Attribute) and isinstance(v.value, ast.Name):
    return _CO_COUNTERS.get(v.attr)
  return None


def _instance_counter(ctx, binder, attr):
  """(value, statement) of the only binding of self.<attr> in the methods of
  the binder's class and of its subclasses (modules of the two binders'
  function classes); None when it is bound at no or several places, or
  rebound by an augmented assignment / deleted."""
  sites = []
  for rel in sorted({binder.rel, IF}):
    m = get_module(ctx, rel)
    for cname in m.classes:
      if cname != binder.receiver and not _derives_from(m, cname, binder.receiver):
        continue
      for meth in m.methods(cname).values():
        for n in ast.walk(meth):
          if isinstance(n, ast.Assign):
            tgts = []
            for t in n.targets:
              tgts.extend(t.elts if isinstance(t, (ast.Tuple, ast.List)) else [t])
            if any(dotted(t) == f"self.{attr}" for t in tgts):
              if len(n.targets) != 1 or n.targets[0] not in tgts:
                return None
              sites.append((n.value, n))
          elif isinstance(n, (ast.AugAssign, ast.AnnAssign)) and \
              dotted(n.target) == f"self.{attr}":
            if isinstance(n, ast.AnnAssign) and n.value is not None:
              sites.append((n.value, n))
            else:
              return None
          elif isinstance(n, ast.Delete) and \
              any(dotted(t) == f"self.{attr}" for t in n.targets):
            return None
  return sites[0] if len(sites) == 1 else None


def _derives_from(mod, cname, root, seen=()):
  if cname in seen or cname not in mod.classes:
    return False
  for b in mod.classes[cname].bases:
    bn = (dotted(b) or "").split(".")[-1]
    if bn == root or _derives_from(mod, bn, root, seen + (cname,)):
      return True
  return False


@rule("R13.5", "C13", floor=2)
def r13_5(ctx):
  """wrong-arg-count compares the number of positional arguments with the
  number of positional parameters only."""
  for binder in _binders(ctx):
    found = []
    for q, fn in binder.fns:
      canon = _Canon(binder, q, fn)
      for r in walk_no_nested(fn):
        if not (isinstance(r, ast.Raise) and isinstance(r.exc, ast.Call) and
                (dotted(r.exc.func) or "").split(".")[-1] == "WrongArgCount"):
          continue
        hits = []

        def scan(e, pol, holder, depth=0):
          """Comparisons of len(posargs) under e, with the polarity they
          have when the guard holds; once-bound condition locals
          (`too_many = len(posargs) > n`) are looked through."""
          if isinstance(e, ast.UnaryOp) and isinstance(e.op, ast.Not):
            return scan(e.operand, not pol, holder, depth)
          if isinstance(e, ast.Name) and depth < 4:
            v, d = canon.defs.value(e.id, holder)
            if v is not None and isinstance(
                v, (ast.Compare, ast.BoolOp, ast.UnaryOp)):
              scan(v, pol, d, depth + 1)
            return
          if isinstance(e, ast.Compare) and len(e.ops) == 1:
            l, op, rr = e.left, e.ops[0], e.comparators[0]
            for count, cap, ops in ((l, rr, (ast.Gt, ast.GtE)),
                                    (rr, l, (ast.Lt, ast.LtE))):
              if isinstance(op, ops) and isinstance(count, ast.Call) and \
                  dotted(count.func) == "len" and len(count.args) == 1 and \
                  canon.posargs_like(count.args[0], holder):
                hits.append((e, cap, holder, pol))
          for c in ast.iter_child_nodes(e):
            if isinstance(c, ast.expr):
              scan(c, pol, holder, depth)

        for test, pol in flow.guards(binder.mod.parent, r, stop=fn):
          scan(test, pol, binder.mod.enclosing_stmt(test))
        if len(hits) != 1:
          raise AnalysisError(
              f"{q}: WrongArgCount is guarded by {len(hits)} comparisons of "
              "the number of positional arguments; expected one")
        found.append((q, r, canon) + hits[0])
    if len(found) != 1:
      raise AnalysisError(
          f"{binder.label}: WrongArgCount raised at {len(found)} places")
    q, r, canon, cmp_, cap, holder, pol = found[0]
    if not pol:
      raise AnalysisError(f"{q}: WrongArgCount raised when `{src(cmp_)}` is false")
    kind = _count_class(ctx, binder, canon, cap, holder)
    if kind is None:
      raise AnalysisError(
          f"{q}: the positional capacity `{src(cap)}` could not be classified")
    ctx.check(kind == "positional", f"{binder.label}:positional-capacity",
              binder.rel, cmp_.lineno,
              f"wrong-arg-count compares len(posargs) with `{src(cap)}`, which "
              f"counts the {kind} parameters; only the positional parameters "
              "(signature.param_names) can take positional arguments: with "
              "keyword-only parameters counted, def f(a, *, k=0) accepts "
              "f(1, 2) silently",
              {"comparison": src(cmp_), "capacity": src(cap), "counts": kind})


# -- sensitivity suite ------------------------------------------------------------------

VARIANTS = [
    # R13.1 - the D7 reverts
    {"name": "D7-revert-both-lines", "rule": "R13.1", "expect": "fire",
     "edits": [(FB, "callargs.update({k: v for k, v in kws.items() if k not in posonly_names})",
                "callargs.update(kws)"),
               (FB, "omit = sig.param_names[sig.posonly_count :] + sig.kwonly_params",
                "omit = sig.param_names + sig.kwonly_params")]},
    {"name": "D7-revert-update-only", "rule": "R13.1", "file": FB, "expect": "fire",
     "old": "callargs.update({k: v for k, v in kws.items() if k not in posonly_names})",
     "new": "callargs.update(kws)"},
    {"name": "D7-revert-omit-only", "rule": "R13.1", "file": FB, "expect": "fire",
     "old": "omit = sig.param_names[sig.posonly_count :] + sig.kwonly_params",
     "new": "omit = sig.param_names + sig.kwonly_params"},
    {"name": "pytd-keyword-loop-binds-posonly", "rule": "R13.1", "file": PF, "expect": "fire",
     "old": "      if name in posonly_names:\n        continue\n      elif name in arg_dict:",
     "new": "      if name in arg_dict and name not in posonly_names:"},
    {"name": "interp-posonly-keyword-always-error", "rule": "R13.1", "file": FB, "expect": "fire",
     "old": "    if posonly_kws and not sig.kwargs_name:", "new": "    if posonly_kws:"},
    {"name": "pytd-extra-keyword-ignores-kwargs", "rule": "R13.1", "file": PF, "expect": "fire",
     "old": "    if extra_kwargs and not self.pytd_sig.starstarargs:", "new": "    if extra_kwargs:"},
    {"name": "pytd-arg-count-ignores-varargs", "rule": "R13.1", "file": PF, "expect": "fire",
     "old": "    if len(args.posargs) > num_expected_posargs and not self.pytd_sig.starargs:",
     "new": "    if len(args.posargs) > num_expected_posargs:"},
    {"name": "interp-arg-count-off-by-one", "rule": "R13.1", "file": FB, "expect": "fire",
     "old": "    elif len(posargs) > self.argcount(node):",
     "new": "    elif len(posargs) >= self.argcount(node):"},
    {"name": "interp-missing-ignores-starstar", "rule": "R13.1", "file": FB, "expect": "fire",
     "old": "        if args.starstarargs or (args.starargs and not kwonly):",
     "new": "        if args.starargs and not kwonly:"},
    {"name": "pytd-missing-ignores-starargs", "rule": "R13.1", "file": PF, "expect": "fire",
     "old": "            not p.optional\n            and args.starargs is None\n            and args.starstarargs is None",
     "new": "            not p.optional\n            and args.starstarargs is None"},
    {"name": "interp-duplicate-includes-posonly", "rule": "R13.1", "file": FB, "expect": "fire",
     "old": "    for key in sorted(set(positional) - posonly_names):", "new": "    for key in sorted(set(positional)):"},
    {"name": "pytd-duplicate-check-dropped", "rule": "R13.1", "file": PF, "expect": "fire",
     "old": "      elif name in arg_dict:\n        raise error_types.DuplicateKeyword(self.signature, args, self.ctx, name)\n      else:\n        arg_dict[name] = arg",
     "new": "      else:\n        arg_dict[name] = arg"},
    {"name": "interp-extra-counts-kwonly-as-extra", "rule": "R13.1", "file": FB, "expect": "error",
     "old": "extra_kws = kwnames.difference(sig.param_names + sig.kwonly_params)",
     "new": "extra_kws = kwnames.difference(sig.param_names)"},
    {"name": "twin-interp-rename-and-operator-form", "rule": "R13.1", "expect": "silent",
     "edits": [(FB, "extra_kws = kwnames.difference(sig.param_names + sig.kwonly_params)",
                "extra_kws = kwnames - set(sig.param_names + sig.kwonly_params)"),
               (FB, "    posonly_kws = kwnames & posonly_names",
                "    posonly_kws = posonly_names.intersection(kwnames)")]},
    {"name": "twin-pytd-missing-truthiness-form", "rule": "R13.1", "file": PF, "expect": "silent",
     "old": "            not p.optional\n            and args.starargs is None\n            and args.starstarargs is None",
     "new": "            not (args.starargs or args.starstarargs)\n            and not p.optional"},
    {"name": "twin-interp-keyword-loop-form", "rule": "R13.1", "file": FB, "expect": "silent",
     "old": "    callargs.update({k: v for k, v in kws.items() if k not in posonly_names})",
     "new": "    for kwname, kwval in kws.items():\n      if kwname in posonly_names:\n        continue\n      callargs[kwname] = kwval"},
    {"name": "twin-pytd-nested-if-merged", "rule": "R13.1", "file": PF, "expect": "silent",
     "old": "    if posonly_kwargs and not self.signature.kwargs_name:\n      raise error_types.WrongKeywordArgs(",
     "new": "    if not self.signature.kwargs_name and posonly_kwargs:\n      raise error_types.WrongKeywordArgs("},
    {"name": "interp-starargs-exemption-for-kwonly-instead-of-positional", "rule": "R13.1", "file": FB, "expect": "fire",
     "old": "(args.starargs and not kwonly)", "new": "(args.starargs and kwonly)"},
    {"name": "twin-pytd-independent-checks-swapped", "rule": "R13.1", "expect": "silent",
     "edits": [(PF, "    if extra_kwargs and not self.pytd_sig.starstarargs:\n      if function.has_visible_namedarg(node, args, extra_kwargs):\n        raise error_types.WrongKeywordArgs(\n            self.signature, args, self.ctx, extra_kwargs\n        )\n    posonly_kwargs = kws & posonly_names\n",
                "    posonly_kwargs = kws & posonly_names\n"),
               (PF, "          self.signature, args, self.ctx, posonly_kwargs\n      )\n",
                "          self.signature, args, self.ctx, posonly_kwargs\n      )\n    if extra_kwargs and not self.pytd_sig.starstarargs:\n      if function.has_visible_namedarg(node, args, extra_kwargs):\n        raise error_types.WrongKeywordArgs(\n            self.signature, args, self.ctx, extra_kwargs\n        )\n")]},
    {"name": "twin-interp-kwonly-chain-listcomp", "rule": "R13.1", "file": FB, "expect": "silent",
     "old": "self.get_nondefault_params(), ((key, True) for key in sig.kwonly_params)",
     "new": "self.get_nondefault_params(), [(k, True) for k in sig.kwonly_params]"},
    # the binder split into helpers / moved into a local mixin (robustness)
    {"name": "twin-benign-C13-r1-binder-split-into-helpers", "rule": "R13.1",
     "patch": "benign/C13-r1/patch.diff", "expect": "silent"},
    {"name": "twin-benign-C13-r4-binder-in-local-mixin", "rule": "R13.1",
     "patch": "benign/C13-r4/patch.diff", "expect": "silent"},
    {"name": "twin-interp-posonly-check-in-helper", "rule": "R13.1", "expect": "silent",
     "edits": [(FB, "    if posonly_kws and not sig.kwargs_name:\n      raise error_types.WrongKeywordArgs(sig, args, self.ctx, posonly_kws)\n    callargs.update(positional)\n",
                "    self._reject_posonly_kws(args, posonly_kws)\n    callargs.update(positional)\n"),
               (FB, "  def _check_paramspec_args(self, args: function.Args) -> None:\n",
                "  def _reject_posonly_kws(self, call_args, bad_kws):\n    sig = self.signature\n    if not bad_kws or sig.kwargs_name:\n      return\n    raise error_types.WrongKeywordArgs(sig, call_args, self.ctx, bad_kws)\n\n  def _check_paramspec_args(self, args: function.Args) -> None:\n")]},
    {"name": "interp-posonly-check-in-helper-ignores-kwargs", "rule": "R13.1", "expect": "fire",
     "edits": [(FB, "    if posonly_kws and not sig.kwargs_name:\n      raise error_types.WrongKeywordArgs(sig, args, self.ctx, posonly_kws)\n    callargs.update(positional)\n",
                "    self._reject_posonly_kws(args, posonly_kws)\n    callargs.update(positional)\n"),
               (FB, "  def _check_paramspec_args(self, args: function.Args) -> None:\n",
                "  def _reject_posonly_kws(self, call_args, bad_kws):\n    sig = self.signature\n    if not bad_kws:\n      return\n    raise error_types.WrongKeywordArgs(sig, call_args, self.ctx, bad_kws)\n\n  def _check_paramspec_args(self, args: function.Args) -> None:\n")]},
    {"name": "interp-keyword-store-in-helper-D7-revert", "rule": "R13.1", "expect": "fire",
     "edits": [(FB, "    callargs.update({k: v for k, v in kws.items() if k not in posonly_names})\n",
                "    self._store_keywords(callargs, kws, posonly_names)\n"),
               (FB, "  def _check_paramspec_args(self, args: function.Args) -> None:\n",
                "  def _store_keywords(self, bound, kws, posonly_names):\n    bound.update(kws)\n\n  def _check_paramspec_args(self, args: function.Args) -> None:\n")]},
    {"name": "interp-missing-check-in-helper-dropped", "rule": "R13.1", "expect": "fire",
     "edits": [(FB, "        else:\n          raise error_types.MissingParameter(sig, args, self.ctx, key)\n",
                "        else:\n          self._missing(args, key)\n"),
               (FB, "  def _check_paramspec_args(self, args: function.Args) -> None:\n",
                "  def _missing(self, args, key):\n    log.info(\"missing %s\", key)\n\n  def _check_paramspec_args(self, args: function.Args) -> None:\n")]},
    {"name": "interp-error-helper-not-inlinable", "rule": "R13.1", "expect": "error",
     "edits": [(FB, "    if posonly_kws and not sig.kwargs_name:\n      raise error_types.WrongKeywordArgs(sig, args, self.ctx, posonly_kws)\n    callargs.update(positional)\n",
                "    self._reject_posonly_kws(args, posonly_kws)\n    callargs.update(positional)\n"),
               (FB, "  def _check_paramspec_args(self, args: function.Args) -> None:\n",
                "  def _reject_posonly_kws(self, call_args, bad_kws):\n    for _ in bad_kws:\n      if self.signature.kwargs_name:\n        return\n      raise error_types.WrongKeywordArgs(self.signature, call_args, self.ctx, bad_kws)\n\n  def _check_paramspec_args(self, args: function.Args) -> None:\n")]},
    {"name": "interp-binder-in-local-base-D7-revert", "rule": "R13.1", "expect": "fire",
     "edits": [(FB, "class SignedFunction(Function):\n", "class _SignedFunctionBinding(Function):\n"),
               (FB, "class SimpleFunction(SignedFunction):\n",
                "class SignedFunction(_SignedFunctionBinding):\n  pass\n\n\nclass SimpleFunction(SignedFunction):\n"),
               (FB, "callargs.update({k: v for k, v in kws.items() if k not in posonly_names})",
                "callargs.update(kws)")]},
    {"name": "twin-interp-binder-in-local-base", "rule": "R13.1", "expect": "silent",
     "edits": [(FB, "class SignedFunction(Function):\n", "class _SignedFunctionBinding(Function):\n"),
               (FB, "class SimpleFunction(SignedFunction):\n",
                "class SignedFunction(_SignedFunctionBinding):\n  pass\n\n\nclass SimpleFunction(SignedFunction):\n")]},
    {"name": "interp-capacity-in-helper-counts-kwonly", "rule": "R13.5", "expect": "fire",
     "edits": [(FB, "    elif len(posargs) > self.argcount(node):\n      raise error_types.WrongArgCount(sig, args, self.ctx)\n",
                "    else:\n      self._check_count(args, posargs)\n"),
               (FB, "  def _check_paramspec_args(self, args: function.Args) -> None:\n",
                "  def _check_count(self, args, given):\n    sig = self.signature\n    if len(given) > len(sig.param_names + sig.kwonly_params):\n      raise error_types.WrongArgCount(sig, args, self.ctx)\n\n  def _check_paramspec_args(self, args: function.Args) -> None:\n")]},
    {"name": "twin-interp-capacity-in-helper", "rule": "R13.5", "expect": "silent",
     "edits": [(FB, "    elif len(posargs) > self.argcount(node):\n      raise error_types.WrongArgCount(sig, args, self.ctx)\n",
                "    else:\n      self._check_count(node, args, posargs)\n"),
               (FB, "  def _check_paramspec_args(self, args: function.Args) -> None:\n",
                "  def _check_count(self, node, args, given):\n    sig = self.signature\n    if len(given) > self.argcount(node):\n      raise error_types.WrongArgCount(sig, args, self.ctx)\n\n  def _check_paramspec_args(self, args: function.Args) -> None:\n")]},
    {"name": "interp-binder-pops-keyword-in-helper", "rule": "R13.4", "expect": "fire",
     "edits": [(FB, "    posonly_kws = kwnames & posonly_names\n",
                "    posonly_kws = kwnames & posonly_names\n    self._drop(args, posonly_kws)\n"),
               (FB, "  def _check_paramspec_args(self, args: function.Args) -> None:\n",
                "  def _drop(self, args, names):\n    for k in names:\n      args.namedargs.pop(k)\n\n  def _check_paramspec_args(self, args: function.Args) -> None:\n")]},
    {"name": "twin-interp-duplicate-as-intersection", "rule": "R13.1", "file": FB, "expect": "silent",
     "old": "    for key in sorted(set(positional) - posonly_names):\n      if key in kws:\n        raise error_types.DuplicateKeyword(sig, args, self.ctx, key)\n",
     "new": "    dups = sorted((set(positional) - posonly_names) & set(kws))\n    if dups:\n      raise error_types.DuplicateKeyword(sig, args, self.ctx, dups[0])\n"},
    {"name": "interp-duplicate-as-intersection-includes-posonly", "rule": "R13.1", "file": FB, "expect": "fire",
     "old": "    for key in sorted(set(positional) - posonly_names):\n      if key in kws:\n        raise error_types.DuplicateKeyword(sig, args, self.ctx, key)\n",
     "new": "    dups = sorted(set(positional) & set(kws))\n    if dups:\n      raise error_types.DuplicateKeyword(sig, args, self.ctx, dups[0])\n"},
    {"name": "interp-duplicate-guarded-by-unknown-predicate", "rule": "R13.1", "file": FB, "expect": "error",
     "old": "    for key in sorted(set(positional) - posonly_names):\n      if key in kws:\n        raise error_types.DuplicateKeyword(sig, args, self.ctx, key)\n",
     "new": "    dups = self._duplicated(positional, kws)\n    if dups:\n      raise error_types.DuplicateKeyword(sig, args, self.ctx, dups[0])\n"},
    {"name": "twin-interp-count-via-condition-local", "rule": "R13.5", "file": FB, "expect": "silent",
     "old": "    elif len(posargs) > self.argcount(node):\n      raise error_types.WrongArgCount(sig, args, self.ctx)\n",
     "new": "    else:\n      too_many = len(posargs) > self.argcount(node)\n      if too_many:\n        raise error_types.WrongArgCount(sig, args, self.ctx)\n"},
    {"name": "interp-count-via-condition-local-off-by-one", "rule": "R13.1", "file": FB, "expect": "fire",
     "old": "    elif len(posargs) > self.argcount(node):\n      raise error_types.WrongArgCount(sig, args, self.ctx)\n",
     "new": "    else:\n      too_many = len(posargs) >= self.argcount(node)\n      if too_many:\n        raise error_types.WrongArgCount(sig, args, self.ctx)\n"},
    {"name": "interp-count-via-condition-local-counts-kwonly", "rule": "R13.5", "file": FB, "expect": "fire",
     "old": "    elif len(posargs) > self.argcount(node):\n      raise error_types.WrongArgCount(sig, args, self.ctx)\n",
     "new": "    else:\n      too_many = len(posargs) > len(sig.param_names + sig.kwonly_params)\n      if too_many:\n        raise error_types.WrongArgCount(sig, args, self.ctx)\n"},
    {"name": "twin-interp-map-built-under-other-name", "rule": "R13.1", "expect": "silent",
     "edits": [(FB, "    callargs = {\n", "    bound = {\n"),
               (FB, "    callargs.update(positional)\n    callargs.update({k: v for k, v in kws.items() if k not in posonly_names})\n",
                "    bound.update(positional)\n    bound.update({k: v for k, v in kws.items() if k not in posonly_names})\n    callargs = bound\n")]},
    {"name": "interp-map-built-under-other-name-D7-revert", "rule": "R13.1", "expect": "fire",
     "edits": [(FB, "    callargs = {\n", "    bound = {\n"),
               (FB, "    callargs.update(positional)\n    callargs.update({k: v for k, v in kws.items() if k not in posonly_names})\n",
                "    bound.update(positional)\n    bound.update(kws)\n    callargs = bound\n")]},
    {"name": "twin-pytd-keyword-names-comprehension", "rule": "R13.1", "file": PF, "expect": "silent",
     "old": "    kws = set(args.namedargs)\n", "new": "    kws = {k for k in args.namedargs}\n"},
    {"name": "twin-pytd-keyword-binding-in-helper", "rule": "R13.1", "expect": "silent",
     "edits": [(PF, '    # named args\n    posonly_names = set(self.signature.posonly_params)\n    for name, arg in args.namedargs.items():\n      if name in posonly_names:\n        continue\n      elif name in arg_dict:\n        raise error_types.DuplicateKeyword(self.signature, args, self.ctx, name)\n      else:\n        arg_dict[name] = arg\n    kws = set(args.namedargs)\n    extra_kwargs = kws - {p.name for p in self.pytd_sig.params}\n    if extra_kwargs and not self.pytd_sig.starstarargs:\n      if function.has_visible_namedarg(node, args, extra_kwargs):\n        raise error_types.WrongKeywordArgs(\n            self.signature, args, self.ctx, extra_kwargs\n        )\n    posonly_kwargs = kws & posonly_names\n    # If a function has a **kwargs parameter, then keyword arguments with the\n    # same name as a positional-only argument are allowed, e.g.:\n    #   def f(x, /, **kwargs): ...\n    #   f(0, x=1)  # ok\n    if posonly_kwargs and not self.signature.kwargs_name:\n      raise error_types.WrongKeywordArgs(\n          self.signature, args, self.ctx, posonly_kwargs\n      )\n', '    # named args\n    extra_kwargs = self._bind_keywords(node, args, arg_dict)\n'), (PF, '  def _fill_in_missing_parameters(\n', '  def _bind_keywords(self, node, args, arg_dict):\n    """Binds keywords."""\n    posonly_names = set(self.signature.posonly_params)\n    for name, arg in args.namedargs.items():\n      if name in posonly_names:\n        continue\n      elif name in arg_dict:\n        raise error_types.DuplicateKeyword(self.signature, args, self.ctx, name)\n      else:\n        arg_dict[name] = arg\n    kws = set(args.namedargs)\n    extra_kwargs = kws - {p.name for p in self.pytd_sig.params}\n    if extra_kwargs and not self.pytd_sig.starstarargs:\n      if function.has_visible_namedarg(node, args, extra_kwargs):\n        raise error_types.WrongKeywordArgs(\n            self.signature, args, self.ctx, extra_kwargs\n        )\n    posonly_kwargs = kws & posonly_names\n    # If a function has a **kwargs parameter, then keyword arguments with the\n    # same name as a positional-only argument are allowed, e.g.:\n    #   def f(x, /, **kwargs): ...\n    #   f(0, x=1)  # ok\n    if posonly_kwargs and not self.signature.kwargs_name:\n      raise error_types.WrongKeywordArgs(\n          self.signature, args, self.ctx, posonly_kwargs\n      )\n    return extra_kwargs\n\n  def _fill_in_missing_parameters(\n')]},
    {"name": "pytd-keyword-binding-in-helper-posonly-ignores-kwargs", "rule": "R13.1", "expect": "fire",
     "edits": [(PF, '    # named args\n    posonly_names = set(self.signature.posonly_params)\n    for name, arg in args.namedargs.items():\n      if name in posonly_names:\n        continue\n      elif name in arg_dict:\n        raise error_types.DuplicateKeyword(self.signature, args, self.ctx, name)\n      else:\n        arg_dict[name] = arg\n    kws = set(args.namedargs)\n    extra_kwargs = kws - {p.name for p in self.pytd_sig.params}\n    if extra_kwargs and not self.pytd_sig.starstarargs:\n      if function.has_visible_namedarg(node, args, extra_kwargs):\n        raise error_types.WrongKeywordArgs(\n            self.signature, args, self.ctx, extra_kwargs\n        )\n    posonly_kwargs = kws & posonly_names\n    # If a function has a **kwargs parameter, then keyword arguments with the\n    # same name as a positional-only argument are allowed, e.g.:\n    #   def f(x, /, **kwargs): ...\n    #   f(0, x=1)  # ok\n    if posonly_kwargs and not self.signature.kwargs_name:\n      raise error_types.WrongKeywordArgs(\n          self.signature, args, self.ctx, posonly_kwargs\n      )\n', '    # named args\n    extra_kwargs = self._bind_keywords(node, args, arg_dict)\n'), (PF, '  def _fill_in_missing_parameters(\n', '  def _bind_keywords(self, node, args, arg_dict):\n    """Binds keywords."""\n    posonly_names = set(self.signature.posonly_params)\n    for name, arg in args.namedargs.items():\n      if name in posonly_names:\n        continue\n      elif name in arg_dict:\n        raise error_types.DuplicateKeyword(self.signature, args, self.ctx, name)\n      else:\n        arg_dict[name] = arg\n    kws = set(args.namedargs)\n    extra_kwargs = kws - {p.name for p in self.pytd_sig.params}\n    if extra_kwargs and not self.pytd_sig.starstarargs:\n      if function.has_visible_namedarg(node, args, extra_kwargs):\n        raise error_types.WrongKeywordArgs(\n            self.signature, args, self.ctx, extra_kwargs\n        )\n    posonly_kwargs = kws & posonly_names\n    # If a function has a **kwargs parameter, then keyword arguments with the\n    # same name as a positional-only argument are allowed, e.g.:\n    #   def f(x, /, **kwargs): ...\n    #   f(0, x=1)  # ok\n    if posonly_kwargs:\n      raise error_types.WrongKeywordArgs(\n          self.signature, args, self.ctx, posonly_kwargs\n      )\n    return extra_kwargs\n\n  def _fill_in_missing_parameters(\n')]},
    # R13.2
    {"name": "duplicate-keyword-arm-removed", "rule": "R13.2", "file": ERRORS, "expect": "fire",
     "old": "    elif isinstance(error, error_types.DuplicateKeyword):\n      self.duplicate_keyword(stack, error.name, error.bad_call, error.duplicate)\n",
     "new": ""},
    {"name": "missing-parameter-routed-to-wrong-reporter", "rule": "R13.2", "file": ERRORS, "expect": "fire",
     "old": "      self.missing_parameter(\n          stack, error.name, error.bad_call, error.missing_parameter\n      )",
     "new": "      self.wrong_keyword_args(\n          stack, error.name, error.bad_call, error.missing_parameter\n      )"},
    {"name": "wrong-arg-count-registered-under-other-name", "rule": "R13.2", "file": ERRORS, "expect": "fire",
     "old": "  @_error_name(\"wrong-arg-count\")", "new": "  @_error_name(\"wrong-arg-types\")"},
    {"name": "typed-dict-arm-shadowed", "rule": "R13.2", "file": ERRORS, "expect": "fire",
     "old": "    elif isinstance(error, error_types.TypedDictKeyMissing):\n      self.typed_dict_error(stack, error.typed_dict, error.name)\n    elif isinstance(error, error_types.DictKeyMissing):\n      # We don't report DictKeyMissing because the false positive rate is high.\n      pass\n",
     "new": "    elif isinstance(error, error_types.DictKeyMissing):\n      # We don't report DictKeyMissing because the false positive rate is high.\n      pass\n    elif isinstance(error, error_types.TypedDictKeyMissing):\n      self.typed_dict_error(stack, error.typed_dict, error.name)\n"},
    {"name": "duplicate-attribute-renamed-in-class-only", "rule": "R13.2", "file": ET, "expect": "fire",
     "old": "    self.duplicate = duplicate", "new": "    self.duplicate_name = duplicate"},
    {"name": "new-error-subclass-without-arm", "rule": "R13.2", "file": ET, "expect": "fire",
     "old": "class MissingParameter(InvalidParameters):",
     "new": "class UnexpectedStarArgs(InvalidParameters):\n  pass\n\n\nclass MissingParameter(InvalidParameters):"},
    {"name": "duplicate-keyword-reporter-silent-path", "rule": "R13.2", "file": ERRORS, "expect": "fire",
     "old": "        duplicate,\n    )\n    self._invalid_parameters(stack, message, bad_call)",
     "new": "        duplicate,\n    )\n    if duplicate:\n      self._invalid_parameters(stack, message, bad_call)"},
    {"name": "twin-arms-reordered", "rule": "R13.2", "file": ERRORS, "expect": "silent",
     "old": "    if isinstance(error, error_types.WrongArgCount):\n      self.wrong_arg_count(stack, error.name, error.bad_call)\n    elif isinstance(error, error_types.WrongArgTypes):\n      self.wrong_arg_types(stack, error.name, error.bad_call)\n",
     "new": "    if isinstance(error, error_types.WrongArgTypes):\n      self.wrong_arg_types(stack, error.name, error.bad_call)\n    elif isinstance(error, error_types.WrongArgCount):\n      self.wrong_arg_count(stack, error.name, error.bad_call)\n"},
    # R13.3
    {"name": "Args-not-frozen", "rule": "R13.3", "file": FN, "expect": "fire",
     "old": "@attrs.frozen(eq=True)\nclass Args:", "new": "@attrs.define(eq=True)\nclass Args:"},
    {"name": "twin-Args-define-frozen", "rule": "R13.3", "file": FN, "expect": "silent",
     "old": "@attrs.frozen(eq=True)\nclass Args:", "new": "@attrs.define(frozen=True, eq=True)\nclass Args:"},
    # R13.4
    {"name": "interp-binder-pops-keyword", "rule": "R13.4", "file": FB, "expect": "fire",
     "old": "    posonly_kws = kwnames & posonly_names\n",
     "new": "    posonly_kws = kwnames & posonly_names\n    for k in posonly_kws:\n      args.namedargs.pop(k)\n"},
    {"name": "pytd-binder-stores-into-namedargs", "rule": "R13.4", "file": PF, "expect": "fire",
     "old": "        # Assume the missing parameter is filled in by *args or **kwargs.\n        arg_dict[p.name] = self.ctx.new_unsolvable(node)",
     "new": "        # Assume the missing parameter is filled in by *args or **kwargs.\n        arg_dict[p.name] = args.namedargs[p.name] = self.ctx.new_unsolvable(node)"},
    {"name": "twin-pytd-binder-reads-namedargs", "rule": "R13.4", "file": PF, "expect": "silent",
     "old": "    kws = set(args.namedargs)\n", "new": "    kws = set(args.namedargs.keys())\n"},
    # R13.5
    {"name": "seeded-C13-m2", "rule": "R13.5", "patch": "seeded/C13-m2/patch.diff", "expect": "fire"},
    {"name": "interp-capacity-counts-kwonly", "rule": "R13.5", "file": FB, "expect": "fire",
     "old": "    elif len(posargs) > self.argcount(node):",
     "new": "    elif len(posargs) > len(sig.param_names) + len(sig.kwonly_params):"},
    {"name": "argcount-method-counts-kwonly", "rule": "R13.5", "file": FB, "expect": "fire",
     "old": "  def argcount(self, _: \"cfg.CFGNode\") -> int:\n    return len(self.signature.param_names)",
     "new": "  def argcount(self, _: \"cfg.CFGNode\") -> int:\n    return len(self.signature.param_names + self.signature.kwonly_params)"},
    {"name": "pytd-capacity-from-pytd-params", "rule": "R13.5", "file": PF, "expect": "fire",
     "old": "    num_expected_posargs = len(self.signature.param_names)",
     "new": "    num_expected_posargs = len(self.pytd_sig.params)"},
    {"name": "pytd-capacity-is-posonly-count", "rule": "R13.5", "file": PF, "expect": "fire",
     "old": "    num_expected_posargs = len(self.signature.param_names)",
     "new": "    num_expected_posargs = self.signature.posonly_count"},
    {"name": "pytd-capacity-from-helper", "rule": "R13.5", "file": PF, "expect": "error",
     "old": "    num_expected_posargs = len(self.signature.param_names)",
     "new": "    num_expected_posargs = self.signature.mandatory_param_count()"},
    {"name": "twin-pytd-capacity-inlined-and-flipped", "rule": "R13.5", "file": PF, "expect": "silent",
     "old": "    if len(args.posargs) > num_expected_posargs and not self.pytd_sig.starargs:",
     "new": "    if not self.pytd_sig.starargs and len(self.signature.param_names) < len(args.posargs):"},
    {"name": "twin-interp-capacity-inlined", "rule": "R13.5", "file": FB, "expect": "silent",
     "old": "    elif len(posargs) > self.argcount(node):",
     "new": "    elif len(posargs) > len(sig.param_names):"},
    {"name": "seeded-C13-r4m2", "rule": "R13.5", "patch": "seeded/C13-r4m2/patch.diff", "expect": "fire"},
    {"name": "interp-override-sums-code-counters", "rule": "R13.5", "file": IF, "expect": "fire",
     "old": "  def argcount(self, _) -> int:\n    return self.code.argcount\n",
     "new": "  def argcount(self, _) -> int:\n    return self.code.argcount + self.code.kwonlyargcount\n"},
    {"name": "interp-override-counts-signature-kwonly", "rule": "R13.5", "file": IF, "expect": "fire",
     "old": "  def argcount(self, _) -> int:\n    return self.code.argcount\n",
     "new": "  def argcount(self, _) -> int:\n    return len(self.signature.param_names) + len(self.signature.kwonly_params)\n"},
    {"name": "interp-override-reads-posonly-attribute", "rule": "R13.5", "file": IF, "expect": "fire",
     "old": "  def argcount(self, _) -> int:\n    return self.code.argcount\n",
     "new": "  def argcount(self, _) -> int:\n    return self.posonlyarg_count\n"},
    {"name": "twin-interp-override-from-signature", "rule": "R13.5", "file": IF, "expect": "silent",
     "old": "  def argcount(self, _) -> int:\n    return self.code.argcount\n",
     "new": "  def argcount(self, _) -> int:\n    return len(self.signature.param_names)\n"},
    {"name": "twin-interp-override-reads-own-attribute", "rule": "R13.5", "expect": "silent",
     "edits": [(IF, "  def argcount(self, _) -> int:\n    return self.code.argcount\n",
                "  def argcount(self, _) -> int:\n    return self._positional_count\n"),
               (IF, "    self.posonlyarg_count = self.code.posonlyargcount\n",
                "    self.posonlyarg_count = self.code.posonlyargcount\n    self._positional_count = self.code.argcount\n")]},
    {"name": "interp-override-attribute-bound-twice", "rule": "R13.5", "expect": "error",
     "edits": [(IF, "  def argcount(self, _) -> int:\n    return self.code.argcount\n",
                "  def argcount(self, _) -> int:\n    return self._positional_count\n"),
               (IF, "    self.posonlyarg_count = self.code.posonlyargcount\n",
                "    self.posonlyarg_count = self.code.posonlyargcount\n    self._positional_count = self.code.argcount\n    if overloads:\n      self._positional_count = self.nonstararg_count\n")]},
    {"name": "twin-pytd-capacity-renamed-via-tuple", "rule": "R13.5", "expect": "silent",
     "edits": [(PF, "    num_expected_posargs = len(self.signature.param_names)\n    if len(args.posargs) > num_expected_posargs and",
                "    positional_names = tuple(self.signature.param_names)\n    num_expected_posargs = len(positional_names)\n    if num_expected_posargs < len(args.posargs) and")]},
]

from rules.c13_kwdefaults import EXPLANATION_FOR_C13 as _E23
EXPLANATION += _E23
from rules.c13_round5 import EXPLANATION_FOR_C13 as _E50
EXPLANATION += _E50
