"""C10 - linearisation agrees with CPython's MRO: the structural clauses.

Decides: the C3 input shape at every `MROMerge` call site, the error
discipline (ValueError -> MROError -> mro-error), first-match attribute lookup
along `cls.mro`, the duplicate-base test and that the bases row reaches it with
its repetitions intact, the head/tail step of `MergeSequences`, that its
candidate scan starts at the first row in every round, and that merge results
are consumed in order.  Does NOT decide that `MergeSequences` terminates with
CPython's answer on every hierarchy.
"""
import ast

from sa.core import rule, AnalysisError
from sa.pyindex import get_module, dotted, src, calls_in, walk_no_nested, all_py_files
from sa import flow
from rules import _util_c13c02c10 as U
from rules import _c10_smallscope as SS

EXPLANATION = (
    "Static necessary conditions for MRO agreement, evaluated on the AST of "
    "pytd/mro.py, abstract/class_mixin.py, rewrite/abstract/classes.py, "
    "vm_utils.py, convert.py, attribute.py and errors/errors.py: R10.1 every "
    "MROMerge call receives [[cls]]? + [mro(b) for b in bases] + [bases] - the "
    "class row first, base linearisations in base order over the same bases "
    "expression, the direct-bases row last (resolved through local "
    "assignments, accumulator loops and order-preserving row maps); R10.2 "
    "MergeSequences rejects with ValueError, MROMerge converts exactly that "
    "into MROError, both VM class-construction sites log errorlog.mro_error "
    "from an MROError handler and mro_error is registered as 'mro-error' and "
    "always emits; R10.3 attribute._lookup_from_mro walks cls.mro forward and "
    "leaves the loop at the first base that yields a variable; R10.5 "
    "Class.compute_mro rejects a repeated direct base with MROError before "
    "the merge (MROMerge de-duplicates every row, so nothing else can); R10.6 "
    "the C3 step in MergeSequences takes the head of a row, rejects it when "
    "it occurs in the tail [1:] of another row and removes it from row "
    "heads; R10.7 the result of every MROMerge call is consumed in order. "
    "R10.4 (builtin hierarchy table) is decided by R2.2.  R10.9 C3 takes the "
    "FIRST row with an acceptable head: the loop that picks the candidate "
    "iterates the rows parameter itself (for row in rows / enumerate(rows) / "
    "range(len(rows)) with rows[i]), the candidate is the head of the row the "
    "scan is at, the rows are only ever rebound to a per-row map of "
    "themselves, and no path through the scan body reaches the next row with "
    "an accepted candidate (may-reach analysis: the candidate assignment is "
    "live until it is reset to None or the scan is left by break); a scan "
    "whose iteration expression depends on a local assigned inside the "
    "enclosing `while True` (resuming where the last round stopped), or that "
    "reverses / slices / sorts the rows, is a violation, anything else an "
    "analysis error.  R10.10 on every class-creation path the row of direct "
    "bases keeps its repetitions until Class.compute_mro's duplicate test: "
    "the row handed to pytd.Class(bases=) in pyi Definitions.build_class "
    "(through classdef.get_bases), the list PyTDClass.bases() builds from "
    "pytd_cls.bases, the row compute_mro tests and merges (through "
    "abstract_utils.get_mro_bases), the bases make_class hands to the "
    "InterpreterClass constructor (through _filter_out_metaclasses, "
    "_process_base_class, _expand_generic_protocols) and the bases "
    "__build_class__ collects from the call are followed back to their source "
    "through reaching definitions and into the package's own helper "
    "functions; only multiplicity-preserving steps are accepted (copies, "
    "slices, concatenation, element-wise maps, comprehension filters and "
    "accumulator loops whose keep/skip conditions look at the current element "
    "only); set/frozenset/dict.fromkeys/OrderedSet/Dedup/Counter, set and "
    "dict comprehensions, and keep/skip conditions that test membership, "
    ".count or .index against the elements kept so far (or any other state "
    "that changes from element to element) are violations; unknown calls are "
    "analysis errors.  Blind spots: the element-wise content of row maps; "
    "pytd visitors that rewrite Class.bases between the parser and PyTDClass "
    "(load_pytd resolution, pep484.ConvertTypingToNative zips old and new "
    "bases one to one) are not followed; the rewrite engine's class creation "
    "is covered by R10.8 only.  Robustness to behaviour-preserving "
    "refactorings: (i) wherever a rule anchors on one function "
    "(Class.compute_mro, make_class, every function containing an MROMerge "
    "call) the module-level helpers / own-class methods it calls as "
    "statements (`helper(..)`, `x = helper(..)`, `a, b = helper(..)` with the "
    "helper ending in its only return) are inlined in place first - "
    "parameters bound to the arguments, helper locals renamed, guard-clause "
    "returns rewritten to if/else - so the duplicate test, the rows "
    "expression, the row map and the class construction are found when they "
    "live in a helper, under the caller's control flow (the try block around "
    "the call is the try block around the construction); helpers that "
    "contain an MROMerge call are merge sites of their own.  (ii) R10.1 reads "
    "`[a, *rows, b]` as `[a] + rows + [b]`, a rows operand bound to a "
    "comprehension like the accumulator loop, a per-row map whose row is "
    "built by a comprehension over the outer loop variable like the "
    "inner-loop form, and accepts as linearisation of a base the result of a "
    "module-level helper every return of which is one (a recursive call of a "
    "merging function on that parameter, or a look-up in the memo table of "
    "linearisations handed down as an argument).  (iii) R10.3 enumerates the "
    "paths through the loop body after the per-base lookup: a path that goes "
    "on to the next base (continue / end of body) must propositionally imply "
    "that the lookup returned None, whatever the spelling (early continue, "
    "positive guard around the hit-processing + break, De Morgan forms).  "
    "(iv) R10.2 (MergeSequences:reject), R10.6 and R10.9 first try their "
    "structural recognisers; when the SHAPE of MergeSequences is outside them "
    "(e.g. the candidate search extracted into a picker helper, `while "
    "any(seqs)`), their constructs are decided jointly by small-scope "
    "evaluation (rules/_c10_smallscope.py): MergeSequences and the "
    "module-level helpers it calls are evaluated from their AST "
    "(rules/_minieval.py; nothing is imported or run) on every list of at "
    "most 3 duplicate-free rows of at most 3 of 4 classes, up to renaming "
    "(2989 inputs), and must return exactly the C3 merge of CPython's pmerge "
    "or fail with ValueError exactly when C3 has no answer; a difference is a "
    "violation with the counterexample, anything the evaluator does not model "
    "an analysis error.")
ASSUMPTIONS = [
    "expressions naming the direct bases (`cls.bases`, `_GetClass(t, "
    "lookup_ast).bases`) are pure: two textually equal occurrences whose free "
    "names have the same reaching definitions denote the same sequence",
    "a module-level function whose body is `return [f(t) for t in param]` is "
    "an order-preserving element-wise map",
    "the rewrite engine's SimpleClass.mro is checked for C3 shape only; its "
    "class-creation path has no mro-error reporting to anchor R10.2/R10.5 on",
    "R10.10: a keep/skip condition that does not mention the accumulator, the "
    "source row, or a name mutated in the loop without being re-initialised at "
    "the top of each iteration decides per element and cannot tell a first "
    "occurrence from a repetition; conditions whose only effect is to raise "
    "reject the class instead of dropping a base and are not counted",
    "R10.10: attribute reads (props.bases, self.pytd_cls.bases, args.posargs) "
    "and argument-less method calls (self.bases()) are the sources of a row; "
    "the five anchored sites are connected by those attributes, which is not "
    "itself checked",
    "inlining a helper is exact for the shapes accepted (see "
    "rules/_util_c13c02c10.py): argument expressions are evaluated once, "
    "before the body; a helper that is a method is resolved along the "
    "module-local MRO of the class that owns the anchored function and is "
    "assumed not to be overridden in subclasses outside the module",
    "small-scope decision of MergeSequences (only used when its shape is not "
    "recognised): a defect of the C3 step that needs more than 3 rows, rows "
    "longer than 3 or more than 4 classes to show is not seen; classes with "
    "pytype's SINGLETON marker and None elements are outside the scope; "
    "R10.3: a cfg.Variable is always truthy, so `if var` / `if not var` on "
    "the lookup result count as `is not None` / `is None`",
]
# rules/c10_returns.py (R10.23)
EXPLANATION += (
    "  R10.23 (rules/c10_returns.py) R10.1's rows obligation on EVERY return "
    "path: in every function that contains an MROMerge call (GetBasesInMRO, "
    "_ComputeMRO, Class.compute_mro, the rewrite engine's SimpleClass.mro; "
    "plus same-module functions that return a call of one) each `return E` is "
    "a merge value (the MROMerge call, through tuple()/list(), one-generator "
    "comprehensions over it, both arms of a conditional expression, every "
    "reaching definition of a local, the memo the function itself stores "
    "merge values into - mros[t], self._mro - and calls of merging functions "
    "of the module), the trivial row [cls] of the function's first parameter, "
    "or None/empty; a value built from a base's `.mro`, from the bases, or "
    "that combines a merge result with further rows is a violation (a fast "
    "path around the merge never checks the local precedence order), any "
    "other expression an analysis error.  Blind spots: the conditions under "
    "which the trivial row is returned are not decided (R10.8 looks at the "
    "rewrite engine's); a merge whose result is discarded and replaced inside "
    "a helper outside the module is not followed.")
# rules/c10_state.py (R10.24)
EXPLANATION += (
    "  R10.24 (rules/c10_state.py) pytd/mro.py keeps no state across calls: "
    "(a) in the style of R16.9 (its write search is reused) no mutable value "
    "bound at module level, class level or as a parameter default is written "
    "by a function of the module - directly, through an alias (also `x = {} "
    "if c else SHARED`) or through a module-local callee that receives it - "
    "and no function re-binds a module-level name with `global`; (b) the "
    "memo tables: for every function that stores into a parameter by key "
    "(_ComputeMRO's `mros`) every call in the module passes the caller's own "
    "memo parameter (recursion) or a local whose every reaching definition "
    "is a fresh empty dict created in the caller; a module-level name, an "
    "attribute, a mutable default or a conditional expression with such an "
    "arm is a violation (the memo is keyed by pytd.ClassType, which hashes "
    "by name: a table that outlives the call answers for an equally named "
    "class of a later tree), any other origin an analysis error.  Blind "
    "spots: state kept by callers outside pytd/mro.py (visitors."
    "VerifyContainers) and by the objects the functions read (cls.bases, "
    "lookup_ast) is not examined; Class.compute_mro and the rewrite engine "
    "memoise per class object (self.mro / self._mro), which is not shared.")
# rules/c10_quantifiers.py (R10.20, R10.21)
EXPLANATION += (
    "  R10.20 (rules/c10_quantifiers.py) the quantifier around the C3 tail "
    "test: the comprehension that binds the row variable of `cand in "
    "row[1:]` ranges over the rows parameter itself (also through "
    "list/tuple/iter/reversed or a full slice), is filtered by nothing but "
    "the tail test and the exclusion of the candidate's own row, and is "
    "consumed by a positive any(..); a slice of the rows (`seqs[i + 1:]`, "
    "`seqs[1:]`, `seqs[:k]`) or all(..) is a violation, other filters or an "
    "explicit loop are analysis errors.  R10.21 super(): in "
    "attribute._get_attribute_from_super_instance the `skip` argument of the "
    "MRO look-up is built by a forward scan of `<cls argument>.mro` that adds "
    "every element it passes (must-flow inside the loop body, before the "
    "break) and stops at the single break guarded by element == the class "
    "bound from obj.super_cls; a skip set computed by an expression that "
    "consults another linearisation (current_cls.mro) is a violation.  Blind "
    "spot: that the rows handed to MergeSequences are de-duplicated (needed "
    "for `cand in own_row[1:]` to be false) is R10.1's business; R10.21 does "
    "not decide the choice of starting_cls.")
ASSUMPTIONS += [
    "R10.21: CPython's super(T, obj) continues in type(obj).__mro__ right "
    "after T; the local bound only from `<x>.super_cls` is T and the `cls` "
    "argument of the look-up is type(obj)",
]

# R10.5 second instance (what the duplicate test compares) and
# rules/c10_alias.py (R10.22)
EXPLANATION += (
    "  R10.5 also decides WHAT the repeated-base test compares "
    "(`Class.compute_mro:duplicate-test-compares-identities`): the set whose "
    "size is compared with the number of bases must be built from the bases "
    "themselves or from id(base) - the identities CPython's duplicate-base "
    "test compares (set(x), {b for b in x}, {id(b) for b in x}, "
    "set(map(id, x)), dict.fromkeys/Counter over the same).  A set built from "
    "a projection of the base - an attribute chain (`base.full_name`, "
    "`base.name`), getattr(base, <const>), str/repr/type of it - is a "
    "violation: two distinct classes can share it (classes made by two "
    "factories, a rebound class name), so a legal class would get an "
    "mro-error.  Any other key expression (a conditional, a helper call) is an "
    "analysis error.  R10.22 (rules/c10_alias.py) rows consumed by the in-place "
    "merge are private copies: a module-wide flow- and context-insensitive "
    "inclusion-based points-to analysis of pytype/pytd/mro.py (allocation sites "
    "with one `elements` field; parameters receive the arguments of all "
    "module-local calls, publicly callable functions additionally a placeholder "
    "for the caller's objects; comprehension variables are scoped) computes "
    "which list objects can be the operand of a destructive operation "
    "(`del x[i]`, pop/popitem/popleft/remove/clear, slice assignment) and which "
    "are kept (reachable from a dict, an instance of a module-local class such "
    "as the MROError payload, an attribute load, a caller-owned object the "
    "module stores into, a module-level variable, a default argument).  One "
    "instance per destructive operation and one per keeper that holds "
    "sequences; a mutable list that is both is a violation (the memoised MRO "
    "would be emptied by the first merge it takes part in), tuples are "
    "immutable and can be neither.  The rows external callers pass to a public "
    "consuming function are that function's contract and are listed in the "
    "facts, not judged.  Rows that were handed to code outside the module and "
    "then shrunk are an analysis error, as is any statement or expression form "
    "the points-to model does not cover (match, generators, map/filter/next, "
    "calls through variables).")
ASSUMPTIONS += [
    "R10.5: no attribute of a class object is unique per object; the only "
    "injective keys are the object itself (abstract classes hash and compare "
    "by identity) and id(object)",
    "R10.22: the analysis is flow-insensitive: a list that is shrunk in place "
    "before it is stored in a keeper is reported as well (no such site today); "
    "it is confined to pytype/pytd/mro.py: the rows that compute_mro, the "
    "rewrite engine's SimpleClass.mro and the template merges in "
    "abstract/_base.py and pytd/visitors.py pass in are the callers' business "
    "(listed as `callers_rows_consumed_by_contract`); in-place reordering "
    "(sort/reverse) and growth (append/extend) of a kept list are not counted "
    "as destructive; a dict is always treated as a keeper even when it never "
    "leaves the function that builds it",
]
MRO = "pytype/pytd/mro.py"
MIXIN = "pytype/abstract/class_mixin.py"
REWRITE = "pytype/rewrite/abstract/classes.py"
VMU = "pytype/vm_utils.py"
CONVERT = "pytype/convert.py"
ATTR = "pytype/attribute.py"
ERRORS = "pytype/errors/errors.py"

_FUNCS = (ast.FunctionDef, ast.AsyncFunctionDef)


# -- small helpers -------------------------------------------------------------

def _qualname(mod, node):
  parts = []
  while node is not None:
    if isinstance(node, _FUNCS + (ast.ClassDef,)):
      parts.append(node.name)
    node = mod.parent.get(node)
  return ".".join(reversed(parts))


def _stored_names(unit):
  """Names (re)bound when `unit` is evaluated."""
  out = []
  tgts = []
  if isinstance(unit, ast.Assign):
    tgts = unit.targets
  elif isinstance(unit, ast.AugAssign):
    tgts = [unit.target]
  elif isinstance(unit, ast.AnnAssign) and unit.value is not None:
    tgts = [unit.target]
  elif isinstance(unit, ast.withitem) and unit.optional_vars is not None:
    tgts = [unit.optional_vars]
  elif isinstance(unit, (ast.Name, ast.Tuple, ast.List, ast.Starred)) and \
      isinstance(getattr(unit, "ctx", None), ast.Store):
    tgts = [unit]
  elif isinstance(unit, _FUNCS + (ast.ClassDef,)):
    return [unit.name]
  elif isinstance(unit, (ast.Import, ast.ImportFrom)):
    return [(a.asname or a.name).split(".")[0] for a in unit.names]
  for t in tgts:
    for n in ast.walk(t):
      if isinstance(n, ast.Name) and isinstance(n.ctx, ast.Store):
        out.append(n.id)
  if isinstance(unit, ast.AST):
    for n in ast.walk(unit):
      if isinstance(n, ast.NamedExpr):
        out.append(n.target.id)
  return out


class _Defs:
  """Reaching definitions of local names (may-analysis over sa.flow)."""

  def __init__(self, fn):
    self.fn = fn
    a = fn.args
    params = [x.arg for x in a.posonlyargs + a.args + a.kwonlyargs]
    params += [x.arg for x in (a.vararg, a.kwarg) if x is not None]
    entry = frozenset((p, "param") for p in params)

    def gen(unit):
      return [(n, unit) for n in _stored_names(unit)]

    def kill(unit):
      names = set(_stored_names(unit))
      if not names:
        return None
      return lambda fact: fact[0] in names

    self.flow = flow.flow(fn, gen, kill, mode="may", entry=entry)

  def at(self, name, stmt):
    st = self.flow.before.get(stmt)
    if st is None:
      raise AnalysisError(
          f"{self.fn.name}: no reaching-definition state for the statement at "
          f"line {getattr(stmt, 'lineno', '?')}")
    return frozenset(d for n, d in st if n == name)


def _defs(ctx, mod, fn):
  return ctx.memo(("c10defs", mod.rel, fn.lineno, fn.name, id(fn)),
                  lambda: (_Defs(fn), fn))[0]


def _owner_class(mod, fn):
  par = mod.parent.get(fn)
  return par.name if isinstance(par, ast.ClassDef) else None


def _helper_has_merge(mod, name):
  cands = [mod.functions.get(name)] + [mod.methods(c).get(name) for c in mod.classes]
  return any(f is not None and _contains_merge(f) for f in cands)


def _inlined(ctx, mod, fn):
  """(module view, function): `fn` with the statement-level calls to the
  module-level helpers / own-class methods it was split into inlined in place
  (rules/_util_c13c02c10.inline_calls).  Helpers that contain an MROMerge call
  are merge sites of their own and stay calls."""
  def make():
    inl = U.inline_calls(mod, fn, receiver=_owner_class(mod, fn),
                         only=lambda n: not _helper_has_merge(mod, n))
    return inl.mod, inl.fn, fn
  return ctx.memo(("c10inl", mod.rel, fn.lineno, fn.name, id(fn)), make)[:2]



def _single_assign(defs, name, stmt, what):
  ds = defs.at(name, stmt)
  if len(ds) != 1:
    raise AnalysisError(
        f"{what}: `{name}` has {len(ds)} reaching definitions, expected one")
  d = next(iter(ds))
  if not (isinstance(d, ast.Assign) and len(d.targets) == 1
          and isinstance(d.targets[0], ast.Name)):
    raise AnalysisError(f"{what}: `{name}` is not bound by a plain assignment")
  return d


def _is_empty_list(node):
  return (isinstance(node, ast.List) and not node.elts) or (
      isinstance(node, ast.Call) and dotted(node.func) == "list"
      and not node.args and not node.keywords)


def _append_counts(stmts, name):
  """Possible numbers of `name.append(..)` on normally completing paths."""
  counts = {0}
  for st in stmts:
    if isinstance(st, ast.Raise):
      return set()
    if isinstance(st, (ast.Return, ast.Break, ast.Continue)):
      raise AnalysisError(
          f"accumulator loop for `{name}` leaves an iteration early "
          f"(line {st.lineno})")
    if isinstance(st, ast.If):
      if _count_appends(st.test, name):
        raise AnalysisError(f"`{name}.append` inside a condition")
      sub = _append_counts(st.body, name) | _append_counts(st.orelse, name)
    elif isinstance(st, (ast.For, ast.AsyncFor, ast.While, ast.Try, ast.With,
                         ast.AsyncWith, ast.Match) + _FUNCS + (ast.ClassDef,)):
      if _count_appends(st, name):
        raise AnalysisError(
            f"`{name}.append` inside a nested compound statement "
            f"(line {st.lineno})")
      sub = {0}
    else:
      sub = {_count_appends(st, name)}
    counts = {c + s for c in counts for s in sub}
    if not counts:
      return counts
  return counts


def _count_appends(node, name):
  return sum(1 for c in ast.walk(node) if isinstance(c, ast.Call)
             and isinstance(c.func, ast.Attribute) and c.func.attr == "append"
             and isinstance(c.func.value, ast.Name) and c.func.value.id == name)


def _attr_uses(fn, name):
  return [n for n in walk_no_nested(fn) if isinstance(n, ast.Attribute)
          and isinstance(n.value, ast.Name) and n.value.id == name]


def _sole_append(mod, fn, name, what):
  """The `name.append(E)` calls of `fn` (one per path of one For loop)."""
  uses = _attr_uses(fn, name)
  if not uses or any(u.attr != "append" for u in uses):
    raise AnalysisError(
        f"{what}: accumulator `{name}` is used through "
        f"{sorted(u.attr for u in uses)}; only .append is understood")
  calls, loops = [], []
  for u in uses:
    call = mod.parent.get(u)
    if not (isinstance(call, ast.Call) and call.func is u
            and len(call.args) == 1 and not call.keywords
            and not isinstance(call.args[0], ast.Starred)):
      raise AnalysisError(f"{what}: `{name}.append` is not a one-argument call")
    node = mod.enclosing_stmt(call)
    while node is not None and not isinstance(node, (ast.For,) + _FUNCS):
      node = mod.parent.get(node)
    calls.append(call)
    loops.append(node)
  loop = loops[0]
  if any(l is not loop for l in loops) or not isinstance(loop, ast.For) or \
      loop.orelse or not isinstance(loop.target, ast.Name):
    raise AnalysisError(
        f"{what}: `{name}.append` is not inside one plain `for v in ..` loop")
  counts = _append_counts(loop.body, name)
  if counts != {1}:
    raise AnalysisError(
        f"{what}: an iteration appends {sorted(counts)} items to `{name}`; "
        "exactly one per element is understood")
  return calls, loop, [c.args[0] for c in calls]


def _elementwise_map_fn(mod, name):
  """True if module-level `name` is `return [f(t) for t in param]`."""
  fn = mod.functions.get(name)
  if fn is None:
    return False
  body = [s for s in fn.body if not (isinstance(s, ast.Expr) and
                                     isinstance(s.value, ast.Constant))]
  if len(body) != 1 or not isinstance(body[0], ast.Return):
    return False
  v = body[0].value
  return (isinstance(v, ast.ListComp) and len(v.generators) == 1
          and not v.generators[0].ifs and not v.generators[0].is_async
          and isinstance(v.generators[0].iter, ast.Name)
          and fn.args.args and v.generators[0].iter.id == fn.args.args[0].arg)


def _strip_seq(mod, node):
  """Strips order-preserving wrappers: list(x), tuple(x), elementwise f(x)."""
  while isinstance(node, ast.Call) and len(node.args) == 1 and \
      not node.keywords and isinstance(node.func, ast.Name) and (
          node.func.id in ("list", "tuple")
          or _elementwise_map_fn(mod, node.func.id)):
    node = node.args[0]
  return node


# -- R10.1 ---------------------------------------------------------------------

def _contains_merge(node):
  return any(isinstance(c, ast.Call) and
             (dotted(c.func) or "").split(".")[-1] == "MROMerge"
             for c in ast.walk(node))


def _memo_tables(fn):
  """Parameters of fn it uses as memo tables of linearisations: fn stores
  `memo[<cls>] = ..MROMerge(..)..`."""
  a = fn.args
  params = {x.arg for x in a.posonlyargs + a.args + a.kwonlyargs}
  out = set()
  for n in walk_no_nested(fn):
    if isinstance(n, ast.Assign) and _contains_merge(n.value):
      for t in n.targets:
        if isinstance(t, ast.Subscript) and isinstance(t.value, ast.Name) and \
            t.value.id in params:
          out.add(t.value.id)
  return out


def _returns_lin_of(mod, callee, pname, memos, what, depth):
  """Does every `return` of module-level `callee` give the linearisation of its
  parameter `pname`?  (`memos`: parameters of callee that receive the
  caller's memo table of linearisations.)"""
  if any(isinstance(n, (ast.Yield, ast.YieldFrom)) for n in walk_no_nested(callee)):
    return False
  rets = [r for r in walk_no_nested(callee) if isinstance(r, ast.Return)]
  if not rets or any(r.value is None for r in rets):
    return False
  cdefs = _Defs(callee)
  for r in rets:
    if cdefs.flow.before.get(r) is None:
      continue
    if cdefs.at(pname, r) != frozenset(["param"]):
      return False
    if not _is_lin(mod, callee, cdefs, r.value, pname, r, what, memos, depth + 1):
      return False
  return True


def _is_lin(mod, fn, defs, expr, var, stmt, what, memos=None, depth=0):
  """Is `expr` (evaluated at stmt) the linearisation of loop variable `var`?"""
  if memos is None:
    memos = _memo_tables(fn)
  expr = _strip_seq(mod, expr)
  if isinstance(expr, ast.Attribute) and expr.attr == "mro" and \
      isinstance(expr.value, ast.Name) and expr.value.id == var:
    return True
  if isinstance(expr, ast.Call) and not expr.args and not expr.keywords and \
      isinstance(expr.func, ast.Attribute) and expr.func.attr == "mro" and \
      isinstance(expr.func.value, ast.Name) and expr.func.value.id == var:
    return True
  if isinstance(expr, ast.Call) and isinstance(expr.func, ast.Name) and \
      expr.args and not expr.keywords and \
      not any(isinstance(a, ast.Starred) for a in expr.args):
    pos = [i for i, a in enumerate(expr.args)
           if isinstance(a, ast.Name) and a.id == var]
    callee = mod.functions.get(expr.func.id)
    if callee is not None and len(pos) == 1:
      if pos[0] == 0 and _contains_merge(callee):
        return True
      cparams = [a.arg for a in callee.args.posonlyargs + callee.args.args]
      if depth < 3 and len(expr.args) <= len(cparams) and \
          not callee.args.vararg and not callee.args.kwarg:
        # a helper every return of which is the linearisation of that
        # parameter (a recursive call of a merging function, or a look-up in
        # the memo table handed down)
        cm = {cparams[i] for i, a in enumerate(expr.args)
              if isinstance(a, ast.Name) and a.id in memos
              and defs.at(a.id, stmt) == frozenset(["param"])}
        return _returns_lin_of(mod, callee, cparams[pos[0]], cm, what, depth)
  if isinstance(expr, ast.Subscript) and isinstance(expr.value, ast.Name) and \
      isinstance(expr.slice, ast.Name) and expr.slice.id == var:
    # memo table of linearisations: a parameter for which this function (or
    # the caller that handed it down) stores `memo[<cls>] = ..MROMerge(..)..`
    memo = expr.value.id
    if memo in memos and defs.at(memo, stmt) == frozenset(["param"]):
      return True
  if isinstance(expr, ast.Call) and isinstance(expr.func, ast.Attribute) and \
      expr.func.attr == "get" and isinstance(expr.func.value, ast.Name) and \
      len(expr.args) == 1 and not expr.keywords and \
      isinstance(expr.args[0], ast.Name) and expr.args[0].id == var:
    # `memo.get(<cls>)`: the same look-up (None when absent)
    memo = expr.func.value.id
    if memo in memos and defs.at(memo, stmt) == frozenset(["param"]):
      return True
  if isinstance(expr, ast.Name) and expr.id != var:
    ds = defs.at(expr.id, stmt)
    if ds and all(isinstance(d, ast.Assign) and len(d.targets) == 1
                  and isinstance(d.targets[0], ast.Name) for d in ds):
      return all(_is_lin(mod, fn, defs, d.value, var, d, what, memos, depth)
                 for d in ds)
  return False


def _same_value(defs, a, sa, b, sb):
  """Textually equal expressions with equal reaching defs of their names."""
  if src(a) != src(b):
    return False
  if sa is sb:
    return True
  for name in flow.names_in(a):
    if defs.at(name, sa) != defs.at(name, sb):
      return False
  return True


def _rows(ctx, mod, fn, defs, expr, stmt, what, depth=0):
  """Resolves the MROMerge argument to [(operand_expr, stmt)] of a `+` chain."""
  if depth > 6:
    raise AnalysisError(f"{what}: argument resolution too deep")
  if isinstance(expr, ast.BinOp) and isinstance(expr.op, ast.Add):
    return (_rows(ctx, mod, fn, defs, expr.left, stmt, what, depth + 1)
            + _rows(ctx, mod, fn, defs, expr.right, stmt, what, depth + 1))
  if _is_display_of_rows(expr):
    # [r0, *rows, rN] == [r0] + rows + [rN]
    out = []
    for e in expr.elts:
      if isinstance(e, ast.Starred):
        out += _rows(ctx, mod, fn, defs, e.value, stmt, what, depth + 1)
      else:
        out.append((ast.copy_location(ast.List(elts=[e], ctx=ast.Load()), e), stmt))
    return out
  if isinstance(expr, ast.Name):
    ds = defs.at(expr.id, stmt)
    if len(ds) == 1:
      d = next(iter(ds))
      if isinstance(d, ast.Assign) and len(d.targets) == 1 and \
          isinstance(d.targets[0], ast.Name):
        if isinstance(d.value, ast.BinOp) or _is_display_of_rows(d.value):
          return _rows(ctx, mod, fn, defs, d.value, d, what, depth + 1)
        if isinstance(d.value, ast.Name) and d.value.id != expr.id:
          return _rows(ctx, mod, fn, defs, d.value, d, what, depth + 1)   # plain copy
        if _is_empty_list(d.value) and _is_row_map(mod, fn, expr.id):
          source, at = _row_map_source(mod, fn, expr.id, what)
          return _rows(ctx, mod, fn, defs, source, at, what, depth + 1)
        if isinstance(d.value, ast.ListComp) and \
            isinstance(d.value.elt, ast.ListComp):
          return _rows(ctx, mod, fn, defs, d.value, d, what, depth + 1)
    return [(expr, stmt)]
  if isinstance(expr, ast.ListComp) and isinstance(expr.elt, ast.ListComp):
    # [[g(e) for e in row] for row in X]: order-preserving row map of X
    outer, inner = expr.generators, expr.elt.generators
    if len(outer) == 1 and len(inner) == 1 and not outer[0].ifs and \
        not inner[0].ifs and isinstance(outer[0].target, ast.Name) and \
        isinstance(inner[0].iter, ast.Name) and \
        inner[0].iter.id == outer[0].target.id:
      return _rows(ctx, mod, fn, defs, outer[0].iter, stmt, what, depth + 1)
    raise AnalysisError(f"{what}: nested comprehension is not a plain row map")
  return [(expr, stmt)]


def _is_display_of_rows(expr):
  """A list display with several elements or starred parts: [a, *b, c]."""
  return isinstance(expr, ast.List) and (
      len(expr.elts) > 1 or (len(expr.elts) == 1
                             and isinstance(expr.elts[0], ast.Starred)))


def _per_row_init(s, row, outer_target):
  """`row = []` (filled by an inner loop) or `row = [f(e) for e in <outer
  loop variable>]`: the per-iteration row of an order-preserving row map."""
  if not (isinstance(s, ast.Assign) and len(s.targets) == 1
          and isinstance(s.targets[0], ast.Name) and s.targets[0].id == row):
    return None
  if _is_empty_list(s.value):
    return "loop"
  v = s.value
  if isinstance(v, ast.ListComp) and len(v.generators) == 1 and \
      not v.generators[0].ifs and not v.generators[0].is_async and \
      isinstance(v.generators[0].iter, ast.Name) and outer_target is not None \
      and v.generators[0].iter.id == outer_target:
    return "comprehension"
  return None


def _is_row_map(mod, fn, name):
  """Does the sole `name.append(R)` append a per-iteration list R?"""
  uses = _attr_uses(fn, name)
  if len(uses) != 1 or uses[0].attr != "append":
    return False
  call = mod.parent.get(uses[0])
  if not (isinstance(call, ast.Call) and len(call.args) == 1
          and isinstance(call.args[0], ast.Name)):
    return False
  row = call.args[0].id
  node = mod.enclosing_stmt(call)
  while node is not None and not isinstance(node, (ast.For,) + _FUNCS):
    node = mod.parent.get(node)
  tgt = node.target.id if isinstance(node, ast.For) and \
      isinstance(node.target, ast.Name) else None
  return isinstance(node, ast.For) and any(
      _per_row_init(s, row, tgt) for s in node.body)


def _row_map_source(mod, fn, name, what):
  """`name` = rows of X mapped element-wise in order; returns (X, loop)."""
  _, outer, appended = _sole_append(mod, fn, name, what)
  if len(appended) != 1 or not isinstance(appended[0], ast.Name):
    raise AnalysisError(f"{what}: rows appended to `{name}` not understood")
  row = appended[0].id
  inits = [s for s in outer.body if isinstance(s, ast.Assign)
           and any(isinstance(t, ast.Name) and t.id == row for t in s.targets)]
  kind = _per_row_init(inits[0], row, outer.target.id) if len(inits) == 1 else None
  if kind is None:
    raise AnalysisError(
        f"{what}: row `{row}` is not initialised once per iteration to [] or "
        f"to an element-wise map of `{outer.target.id}`")
  if kind == "comprehension":
    if _attr_uses(fn, row) or any(
        isinstance(n, ast.Name) and n.id == row and isinstance(n.ctx, ast.Store)
        and mod.enclosing_stmt(n) is not inits[0] for n in walk_no_nested(fn)):
      raise AnalysisError(f"{what}: row `{row}` is changed after it is built")
    app = mod.enclosing_stmt(_attr_uses(fn, name)[0])
    if inits[0] not in outer.body or app not in outer.body or \
        outer.body.index(inits[0]) > outer.body.index(app):
      raise AnalysisError(f"{what}: row `{row}` built after it is appended")
    return outer.iter, outer
  _, inner, _ = _sole_append(mod, fn, row, what)
  if inner not in outer.body or not isinstance(inner.iter, ast.Name) or \
      inner.iter.id != outer.target.id:
    raise AnalysisError(
        f"{what}: row `{row}` is not filled by `for e in {outer.target.id}`")
  if outer.body.index(inits[0]) > outer.body.index(inner):
    raise AnalysisError(f"{what}: row `{row}` initialised after its loop")
  return outer.iter, outer


def _classify(ctx, mod, fn, defs, expr, stmt, what):
  """-> (kind, text, node, stmt) for one operand of the merge argument."""
  if isinstance(expr, ast.List) and len(expr.elts) == 1:
    inner = expr.elts[0]
    if isinstance(inner, ast.List):
      if len(inner.elts) == 1 and isinstance(inner.elts[0], ast.Name):
        return ("self", inner.elts[0].id, inner.elts[0], stmt)
      raise AnalysisError(f"{what}: literal row {src(inner)} not understood")
    if isinstance(inner, ast.Starred):
      raise AnalysisError(f"{what}: starred row not understood")
    base = _strip_seq(mod, inner)
    return ("bases", src(base), base, stmt)
  if isinstance(expr, ast.ListComp):
    if len(expr.generators) != 1 or expr.generators[0].ifs or \
        expr.generators[0].is_async or \
        not isinstance(expr.generators[0].target, ast.Name):
      raise AnalysisError(
          f"{what}: linearisation comprehension {src(expr)} not understood")
    g = expr.generators[0]
    if not _is_lin(mod, fn, defs, expr.elt, g.target.id, stmt, what):
      raise AnalysisError(
          f"{what}: `{src(expr.elt)}` is not a known linearisation of "
          f"`{g.target.id}`")
    it = _strip_seq(mod, g.iter)
    return ("lins", src(it), it, stmt)
  if isinstance(expr, ast.Name):
    d = _single_assign(defs, expr.id, stmt, what)
    if isinstance(d.value, ast.ListComp):
      return _classify(ctx, mod, fn, defs, d.value, d, what)
    if not _is_empty_list(d.value):
      raise AnalysisError(
          f"{what}: operand `{expr.id}` = {src(d.value)} not understood")
    calls, loop, appended = _sole_append(mod, fn, expr.id, what)
    for call, app in zip(calls, appended):
      if not _is_lin(mod, fn, defs, app, loop.target.id,
                     mod.enclosing_stmt(call), what):
        raise AnalysisError(
            f"{what}: `{src(app)}` appended to `{expr.id}` is not a known "
            f"linearisation of `{loop.target.id}`")
    it = _strip_seq(mod, loop.iter)
    return ("lins", src(it), it, loop)
  raise AnalysisError(f"{what}: operand {src(expr)} not understood")


def _merge_calls(mod):
  return [c for c in calls_in(mod.tree, suffix="MROMerge")]


def _merge_files(ctx):
  files = [MRO, MIXIN, REWRITE]
  if ctx.tier == "thorough":
    for rel in all_py_files(ctx):
      if rel.endswith("_test.py") or rel in files:
        continue
      if "MROMerge" in ctx.read(rel):
        files.append(rel)
  return files


def _site_in_inlined(ctx, mod, fn, call, what):
  """The merge call `call` of `fn`, re-located in fn with its helpers inlined."""
  view, fn2 = _inlined(ctx, mod, fn)
  if fn2 is fn:
    return mod, fn, call
  same = [c for c in calls_in(fn2, suffix="MROMerge")
          if (c.lineno, c.col_offset) == (call.lineno, call.col_offset)]
  if len(same) != 1:
    raise AnalysisError(f"{what}: merge call lost while inlining helpers")
  return view, fn2, same[0]


def _site_name(mod, fn, call, seen):
  base = f"{_qualname(mod, fn)}:MROMerge"
  n = seen.get(base, 0)
  seen[base] = n + 1
  return base if n == 0 else f"{base}#{n + 1}"


@rule("R10.1", "C10", floor=4)
def r10_1(ctx):
  """Every MROMerge call gets [[cls]]? + [mro(b) for b in bases] + [bases]."""
  for rel in _merge_files(ctx):
    mod = get_module(ctx, rel)
    seen = {}
    for call in sorted(_merge_calls(mod), key=lambda c: (c.lineno, c.col_offset)):
      fn = mod.enclosing_function(call)
      if fn is None or isinstance(fn, ast.Lambda):
        raise AnalysisError(f"{rel}: MROMerge call outside a function")
      what = _site_name(mod, fn, call, seen)
      if len(call.args) != 1 or call.keywords or \
          isinstance(call.args[0], ast.Starred):
        raise AnalysisError(f"{what}: MROMerge is not called with one argument")
      mod0 = mod
      mod, fn, call = _site_in_inlined(ctx, mod0, fn, call, what)
      defs = _defs(ctx, mod, fn)
      stmt = mod.enclosing_stmt(call)
      ops = _rows(ctx, mod, fn, defs, call.args[0], stmt, what)
      parts = [_classify(ctx, mod, fn, defs, e, s, what) for e, s in ops]
      mod = mod0
      kinds = [p[0] for p in parts]
      facts = {"parts": [f"{k}:{t}" for k, t, _, _ in parts]}
      if kinds not in (["self", "lins", "bases"], ["lins", "bases"]):
        ctx.bad(what, rel, call.lineno,
                f"C3 input rows are {facts['parts']}; required order is the "
                "class row (optional), the base linearisations, then the row "
                "of direct bases last", facts)
        continue
      lins, bases = parts[-2], parts[-1]
      if not _same_value(defs, lins[2], lins[3], bases[2], bases[3]):
        ctx.bad(what, rel, call.lineno,
                f"linearisations are taken over `{lins[1]}` but the "
                f"direct-bases row is `{bases[1]}`: both must be the same "
                "sequence in the same order", facts)
        continue
      if kinds[0] == "self":
        params = [a.arg for a in fn.args.posonlyargs + fn.args.args]
        if not params or parts[0][1] != params[0] or \
            defs.at(params[0], parts[0][3]) != frozenset(["param"]):
          ctx.bad(what, rel, call.lineno,
                  f"the head row [[{parts[0][1]}]] is not the class being "
                  f"linearised (first parameter `{params[:1]}`)", facts)
          continue
      ctx.ok(what, rel, call.lineno, facts)


# -- small-scope fallback for the C3 step ---------------------------------------------

def _merge_by_structure_or_small_scope(ctx, structural, constructs, aspect):
  """Runs the structural recogniser of a MergeSequences rule; when the shape
  of the function is outside what it understands (AnalysisError), the same
  constructs are decided jointly by evaluating MergeSequences from its AST on
  every input of a small scope against C3 (rules/_c10_smallscope.py).
  `aspect`: 'result' (the merged list) or 'reject' (the error class)."""
  before = len(ctx.instances)
  try:
    structural()
    return
  except AnalysisError as e:
    del ctx.instances[before:]
    why = str(e)
  mod = get_module(ctx, MRO)
  try:
    res = SS.decide(ctx, mod)
  except AnalysisError as e2:
    raise AnalysisError(f"{why}; and not decidable on a small scope: {e2}") from e2
  fn = mod.func("MergeSequences")
  facts = {"shape_not_recognised": why[:160],
           "decided_by": "small-scope evaluation against C3 (CPython pmerge)",
           "inputs": res["inputs"], "scope": "<=3 rows of <=3 of 4 classes"}
  if aspect == "result":
    bad = res["result"]
  else:
    bad = res["reject"]
    if bad is None and res["result"] is not None and res["result"]["c3"] is None:
      bad = res["result"]       # an inconsistent hierarchy is accepted
    if bad is None and not res["complete"]:
      raise AnalysisError(
          f"{why}; the small-scope evaluation stopped after "
          f"{res['mismatches']} wrong merges (see R10.6) before all "
          "inconsistent inputs were tried")
  for c in constructs:
    if bad is None:
      ctx.ok(c, MRO, fn.lineno, facts)
    else:
      ctx.bad(c, MRO, fn.lineno,
              f"MergeSequences (shape not recognised structurally: {why[:120]}) "
              f"disagrees with C3 on the rows {bad['rows']}: C3 gives "
              f"{bad['c3'] if bad['c3'] is not None else 'no consistent order (TypeError in CPython; ValueError expected here)'}, "
              f"the function gives {bad['got']} (decided jointly for "
              f"{constructs} on {res['inputs']} small inputs)",
              dict(facts, counterexample=bad))


# -- R10.2 ---------------------------------------------------------------------

def _exc_name(node):
  if node is None:
    return None
  if isinstance(node, ast.Call):
    node = node.func
  d = dotted(node)
  return d.split(".")[-1] if d else None


def _handler_types(h):
  if h.type is None:
    return [None]
  if isinstance(h.type, ast.Tuple):
    return [_exc_name(e) for e in h.type.elts]
  return [_exc_name(h.type)]


def _enclosing_trys(mod, node, stop):
  """Try statements whose *body* contains node, innermost first."""
  out = []
  child = node
  cur = mod.parent.get(node)
  while cur is not None and cur is not stop:
    if isinstance(cur, ast.Try) and child in cur.body:
      out.append(cur)
    child, cur = cur, mod.parent.get(cur)
  return out


def _construction_calls(mod, fn, class_names):
  """Calls in fn that construct one of class_names (directly or via a local
  bound to an expression mentioning the class, or `.make`)."""
  out = []
  aliases = set()
  for n in walk_no_nested(fn):
    if isinstance(n, ast.Assign) and len(n.targets) == 1 and \
        isinstance(n.targets[0], ast.Name):
      for a in ast.walk(n.value):
        if isinstance(a, ast.Attribute) and a.attr in class_names and \
            not isinstance(mod.parent.get(a), ast.Call):
          aliases.add(n.targets[0].id)
  for c in calls_in(fn):
    d = dotted(c.func) or ""
    parts = d.split(".")
    if parts[-1] in class_names or (
        len(parts) >= 2 and parts[-1] == "make" and parts[-2] in class_names):
      out.append(c)
    elif isinstance(c.func, ast.Name) and c.func.id in aliases:
      out.append(c)
  return out


def _check_construction(ctx, mod, rel, qual, class_names):
  # a construction moved into a helper called from inside the try block is
  # inlined in place, so that the handler around the call is the handler
  # around the construction
  mod, fn = _inlined(ctx, mod, mod.func(qual))
  calls = _construction_calls(mod, fn, class_names)
  if not calls:
    raise AnalysisError(
        f"{qual}: no construction of {sorted(class_names)} found")
  for i, call in enumerate(calls):
    construct = f"{qual}:handler" + ("" if i == 0 else f"#{i + 1}")
    handler = None
    for t in _enclosing_trys(mod, call, fn):
      for h in t.handlers:
        if "MROError" in _handler_types(h):
          handler = h
          break
      if handler:
        break
    if handler is None:
      ctx.bad(construct, rel, call.lineno,
              f"{src(call.func)}(..) can raise MROError (compute_mro runs in "
              "the constructor) but is not inside `except mro.MROError`")
      continue
    logs = [c for st in handler.body for c in calls_in(st)
            if (dotted(c.func) or "").endswith("errorlog.mro_error")]
    seqs = handler.name is not None and any(
        isinstance(a, ast.Attribute) and a.attr == "mro_seqs"
        and isinstance(a.value, ast.Name) and a.value.id == handler.name
        for c in logs for a in ast.walk(c))
    facts = {"handler": src(handler.type), "logs": [src(c.func) for c in logs],
             "passes_mro_seqs": bool(seqs)}
    ctx.check(bool(logs) and seqs, construct, rel, handler.lineno,
              "the MROError handler must report errorlog.mro_error(.., "
              f"{handler.name}.mro_seqs); found {facts}", facts)


@rule("R10.2", "C10", floor=6)
def r10_2(ctx):
  """ValueError -> MROError -> [mro-error] at every VM class construction."""
  mod = get_module(ctx, MRO)
  _merge_by_structure_or_small_scope(
      ctx, lambda: _r10_2_reject(ctx, mod), ["MergeSequences:reject"], "reject")
  _r10_2_rest(ctx, mod)


def _r10_2_reject(ctx, mod):
  fn = mod.func("MergeSequences")
  raises = [n for n in walk_no_nested(fn) if isinstance(n, ast.Raise)]
  if not raises:
    ctx.bad("MergeSequences:reject", MRO, fn.lineno,
            "MergeSequences never raises: an inconsistent hierarchy is not "
            "rejected")
  elif len(raises) > 1:
    raise AnalysisError("MergeSequences has several raise statements")
  else:
    r = raises[0]
    name = _exc_name(r.exc)
    g = [(src(t), p) for t, p in flow.guards(mod.parent, r, stop=fn)]
    # the raise must be conditional on "no candidate": `<cand> is None` where
    # <cand> is reset to None in the reject arm
    cands = {n.targets[0].id for n in walk_no_nested(fn)
             if isinstance(n, ast.Assign) and len(n.targets) == 1
             and isinstance(n.targets[0], ast.Name)
             and isinstance(n.value, ast.Constant) and n.value.value is None}
    guarded = any(p and t == f"{c} is None" for t, p in g for c in cands)
    if not guarded:
      raise AnalysisError(
          f"MergeSequences: raise is guarded by {g}; the `cand is None` "
          "idiom was not recognised")
    ctx.check(name == "ValueError", "MergeSequences:reject", MRO, r.lineno,
              f"MergeSequences signals 'no candidate' with {name}; MROMerge "
              "only converts ValueError", {"raises": name, "guards": g})


def _r10_2_rest(ctx, mod):
  fn = mod.func("MROMerge")
  calls = calls_in(fn, suffix="MergeSequences")
  if len(calls) != 1:
    raise AnalysisError("MROMerge: expected exactly one MergeSequences call")
  trys = _enclosing_trys(mod, calls[0], fn)
  handlers = [h for t in trys for h in t.handlers]
  types = [t for h in handlers for t in _handler_types(h)]
  conv = [h for h in handlers if "ValueError" in _handler_types(h)]
  facts = {"handler_types": types}
  if not conv:
    ctx.bad("MROMerge:convert", MRO, calls[0].lineno,
            f"the ValueError of MergeSequences is not caught (handlers: "
            f"{types}); it must become MROError", facts)
  else:
    h = conv[0]
    last = h.body[-1] if h.body else None
    exc = last.exc if isinstance(last, ast.Raise) else None
    if isinstance(exc, ast.Name):
      # `err = MROError(..); raise err from e`: the once-bound local
      binds = [n.value for st in h.body for n in ast.walk(st)
               if isinstance(n, ast.Assign) and len(n.targets) == 1
               and isinstance(n.targets[0], ast.Name) and n.targets[0].id == exc.id]
      if len(binds) == 1:
        exc = binds[0]
      elif exc.id != h.name:
        raise AnalysisError(
            f"MROMerge: `raise {exc.id}` in the ValueError handler: the raised "
            "object could not be resolved")
    raised = _exc_name(exc) if exc is not None else None
    facts["raises"] = raised
    exact = all(t == "ValueError" for t in types)
    ctx.check(raised == "MROError" and exact, "MROMerge:convert", MRO, h.lineno,
              f"MROMerge must convert exactly ValueError into MROError; "
              f"handler types {types}, handler ends in raise {raised}", facts)
  # MROError carries the sequences the reporters read
  cls = mod.cls("MROError")
  init = mod.methods("MROError").get("__init__")
  sets = [src(n.value) for n in ast.walk(init) if isinstance(n, ast.Assign)
          and dotted(n.targets[0]) == "self.mro_seqs"] if init else []
  params = [a.arg for a in init.args.args[1:]] if init else []
  ctx.check(bool(sets) and sets[0] in params, "MROError.mro_seqs", MRO,
            cls.lineno, "MROError.__init__ must store its argument as "
            f".mro_seqs (handlers pass e.mro_seqs to mro_error); found {sets}",
            {"assigned": sets})
  _check_construction(ctx, get_module(ctx, VMU), VMU, "make_class",
                      {"InterpreterClass"})
  _check_construction(ctx, get_module(ctx, CONVERT), CONVERT,
                      "Converter._pytd_class_to_value", {"PyTDClass"})
  if ctx.tier == "thorough":
    # any other direct construction in the main engine must be covered too
    for rel in all_py_files(ctx):
      if rel in (VMU, CONVERT) or rel.endswith("_test.py") or \
          "/rewrite/" in rel or "/tests/" in rel:
        continue
      text = ctx.read(rel)
      if "InterpreterClass(" not in text and "PyTDClass(" not in text and \
          "PyTDClass.make(" not in text:
        continue
      m = get_module(ctx, rel)
      for c in calls_in(m.tree):
        parts = (dotted(c.func) or "").split(".")
        if parts[-1] in ("InterpreterClass", "PyTDClass") or \
            parts[-2:] == ["PyTDClass", "make"]:
          fn = m.enclosing_function(c)
          hs = [h for t in _enclosing_trys(m, c, fn) for h in t.handlers
                if "MROError" in _handler_types(h)]
          ctx.check(bool(hs), f"{rel}:{_qualname(m, c)}:handler", rel, c.lineno,
                    f"{src(c.func)}(..) constructs a class (compute_mro may "
                    "raise MROError) outside any `except mro.MROError`",
                    {"call": src(c.func)})
  mod = get_module(ctx, ERRORS)
  owner = None
  for cname in mod.classes:
    if "mro_error" in mod.methods(cname):
      owner = cname
  if owner is None:
    raise AnalysisError("errors.py: no class defines mro_error")
  fn = mod.methods(owner)["mro_error"]
  names = [a.value for d in fn.decorator_list if isinstance(d, ast.Call)
           and (dotted(d.func) or "").endswith("_error_name")
           for a in d.args if isinstance(a, ast.Constant)]

  def gen(unit):
    return ["emit"] if any((dotted(c.func) or "") in ("self.error", "self._add")
                           for c in flow.unconditional_calls(unit)) else []
  f = flow.flow(fn, gen)
  emits = all("emit" in st for kind, _, st in f.exits if kind != "raise")
  ctx.check(names == ["mro-error"] and emits, f"{owner}.mro_error", ERRORS,
            fn.lineno, f"mro_error must be registered as 'mro-error' (found "
            f"{names}) and emit on every path (emits={emits})",
            {"error_name": names, "always_emits": emits})


# -- R10.3 ---------------------------------------------------------------------

@rule("R10.3", "C10", floor=2)
def r10_3(ctx):
  """_lookup_from_mro: forward over cls.mro, stop at the first hit."""
  mod = get_module(ctx, ATTR)
  owner = None
  for cname in mod.classes:
    if "_lookup_from_mro" in mod.methods(cname):
      owner = cname
  if owner is None:
    raise AnalysisError("attribute.py: _lookup_from_mro not found")
  qual = f"{owner}._lookup_from_mro"
  fn = mod.methods(owner)["_lookup_from_mro"]
  params = [a.arg for a in fn.args.args]

  def iter_of(loop):
    """The iterated expression, a once-bound local replaced by its value."""
    it = loop.iter
    if isinstance(it, ast.Name):
      binds = [n for n in walk_no_nested(fn) if isinstance(n, ast.Name)
               and n.id == it.id and isinstance(n.ctx, ast.Store)]
      if len(binds) == 1 and isinstance(mod.parent.get(binds[0]), ast.Assign) \
          and len(mod.parent[binds[0]].targets) == 1 and \
          mod.parent[binds[0]].lineno < loop.lineno:
        return mod.parent[binds[0]].value
    return it
  loops = [n for n in walk_no_nested(fn) if isinstance(n, ast.For)
           and any(isinstance(a, ast.Attribute) and a.attr == "mro"
                   for a in ast.walk(iter_of(n)))]
  if len(loops) != 1:
    raise AnalysisError(f"{qual}: expected one loop over .mro, found {len(loops)}")
  loop = loops[0]
  it = iter_of(loop)
  forward = isinstance(it, ast.Attribute) and it.attr == "mro" and \
      isinstance(it.value, ast.Name) and it.value.id in params[1:]
  ctx.check(forward, f"{qual}:forward-iteration", ATTR, loop.lineno,
            f"the lookup iterates `{src(it)}`; it must walk the class "
            "parameter's .mro itself, front to back", {"iter": src(it)})
  if not isinstance(loop.target, ast.Name):
    raise AnalysisError(f"{qual}: loop target is not a name")
  base = loop.target.id
  # the per-base lookup result
  flat = [n for n in loop.body if isinstance(n, ast.Assign)
          and isinstance(n.value, ast.Call)
          and (dotted(n.value.func) or "").endswith("_lookup_from_mro_flat")
          and len(n.targets) == 1 and isinstance(n.targets[0], ast.Name)]
  if len(flat) != 1:
    raise AnalysisError(f"{qual}: per-base lookup assignment not recognised")
  var = flat[0].targets[0].id
  uses_base = any(isinstance(a, ast.Name) and a.id == base
                  for a in flat[0].value.args)
  # Every way through the rest of the body after the per-base lookup is
  # enumerated; a path that goes on to the next base (continue, or falling off
  # the end of the body) must imply that the lookup returned None - then the
  # first base that yields a variable ends the loop (break / return / raise).
  stores = [n for n in flow._walk_loop_body(loop) if isinstance(n, ast.Name)
            and n.id == var and isinstance(n.ctx, ast.Store)
            and n is not flat[0].targets[0]]
  if stores:
    raise AnalysisError(f"{qual}: `{var}` is re-bound inside the loop body")
  rest = loop.body[loop.body.index(flat[0]) + 1:]
  finished, open_ = _body_paths(rest, [], qual)
  paths = finished + [(c, "end-of-body") for c in open_]
  key = f"{var} is None"
  onward, exits = [], []
  for conds, kind in paths:
    f = _norm_none_tests(("and", conds), var)
    implied = U.implies_literal(f, key, True)
    if implied is None:
      continue
    text = " and ".join(U.formula_text(c) for c in conds) or "True"
    if kind in ("continue", "end-of-body"):
      onward.append({"when": text, "how": kind, "implies_lookup_missed": implied})
    else:
      exits.append({"when": text, "how": kind})
  leaks = [o for o in onward if not o["implies_lookup_missed"]]
  facts = {"per_base_lookup": src(flat[0].value.func), "uses_loop_var": uses_base,
           "next_base_when": onward, "loop_left_when": exits}
  ctx.check(uses_base and not leaks and not loop.orelse,
            f"{qual}:first-match-exit", ATTR, loop.lineno,
            "after the first base whose flat lookup yields a variable the "
            "loop must end: the lookup moves on to the next base "
            f"{[(o['how'], o['when']) for o in leaks]} although `{var}` may be "
            "a variable there (only `continue` / falling off the body under "
            f"`{var} is None` is allowed): {facts}", facts)


def _norm_none_tests(f, var):
  """Truthiness tests of the lookup result count as `is not None` (a
  cfg.Variable is always truthy)."""
  k = f[0]
  if k == "atom":
    return ("not", ("atom", f"{var} is None")) if f[1] == var else f
  if k == "not":
    return ("not", _norm_none_tests(f[1], var))
  if k in ("and", "or"):
    return (k, [_norm_none_tests(g, var) for g in f[1]])
  return f


def _body_paths(block, conds, what):
  """Paths through a loop body: -> (finished [(conds, how)], open [conds]);
  how in break / return / raise / continue.  Inner loops and try blocks that
  cannot leave the outer iteration are opaque steps."""
  finished, open_ = [], [conds]
  for st in block:
    if not open_:
      break
    if isinstance(st, ast.If):
      f = U.bool_formula(st.test)
      nxt = []
      for c in open_:
        fb, ob = _body_paths(st.body, c + [f], what)
        fe, oe = _body_paths(st.orelse, c + [("not", f)], what)
        finished += fb + fe
        nxt += ob + oe
      open_ = nxt
    elif isinstance(st, (ast.Break, ast.Continue, ast.Return, ast.Raise)):
      how = type(st).__name__.lower()
      finished += [(c, how) for c in open_]
      open_ = []
    elif isinstance(st, (ast.With, ast.AsyncWith)):
      nxt = []
      for c in open_:
        fb, ob = _body_paths(st.body, c, what)
        finished += fb
        nxt += ob
      open_ = nxt
    elif isinstance(st, (ast.For, ast.AsyncFor, ast.While)):
      if any(isinstance(n, ast.Return) for n in walk_no_nested(st)):
        raise AnalysisError(f"{what}: return inside an inner loop not understood")
    elif isinstance(st, (ast.Try, ast.Match)):
      leaves = [n for n in flow._walk_loop_body(ast.For(body=[st], orelse=[]))
                if isinstance(n, (ast.Break, ast.Continue))]
      if leaves or any(isinstance(n, ast.Return) for n in walk_no_nested(st)):
        raise AnalysisError(
            f"{what}: break/continue/return inside a try/match block not understood")
  return finished, open_


# -- R10.5 ---------------------------------------------------------------------

def _len_arg(node):
  if isinstance(node, ast.Call) and dotted(node.func) == "len" and \
      len(node.args) == 1 and not node.keywords:
    return node.args[0]
  return None


_PROJECTING_BUILTINS = {"str", "repr", "type"}


def _key_kind(key, v):
  """How the key expression of a duplicate-detecting set depends on the element
  variable `v`: "identity" (the element itself / id(element): what CPython's
  duplicate-base test compares), "projection" (an attribute chain of the
  element or its str/repr/type: distinct class objects can share it), or None
  (not understood)."""
  if isinstance(key, ast.Name) and key.id == v:
    return "identity"
  if isinstance(key, ast.Call) and len(key.args) == 1 and not key.keywords and \
      isinstance(key.args[0], ast.Name) and key.args[0].id == v:
    d = dotted(key.func)
    if d == "id":
      return "identity"
    if d in _PROJECTING_BUILTINS:
      return "projection"
    return None
  if isinstance(key, ast.Call) and dotted(key.func) == "getattr" and \
      len(key.args) == 2 and isinstance(key.args[0], ast.Name) and \
      key.args[0].id == v and isinstance(key.args[1], ast.Constant):
    return "projection"
  node = key
  while isinstance(node, ast.Attribute):
    node = node.value
  if node is not key and isinstance(node, ast.Name) and node.id == v:
    return "projection"
  return None


def _set_over_kind(node):
  """If node builds a set/dict keyed by a function of the elements of a name,
  returns (that name, kind of the key (see _key_kind), source of the key)."""
  if isinstance(node, (ast.SetComp, ast.DictComp)):
    if len(node.generators) != 1 or node.generators[0].ifs:
      return None
    g = node.generators[0]
    key = node.elt if isinstance(node, ast.SetComp) else node.key
    if not isinstance(g.target, ast.Name) or not isinstance(g.iter, ast.Name):
      return None
    kind = _key_kind(key, g.target.id)
    if kind is None:
      return None
    return g.iter.id, kind, src(key)
  if isinstance(node, ast.Call) and len(node.args) == 1 and not node.keywords:
    d = dotted(node.func)
    a = node.args[0]
    if d in ("set", "frozenset", "dict.fromkeys", "collections.Counter",
             "Counter"):
      if isinstance(a, ast.Name):
        return a.id, "identity", a.id + "[i]"
      if isinstance(a, (ast.GeneratorExp, ast.ListComp)):
        return _set_over_kind(ast.SetComp(elt=a.elt, generators=a.generators))
      if isinstance(a, ast.Call) and dotted(a.func) == "map" and \
          len(a.args) == 2 and not a.keywords and isinstance(a.args[1], ast.Name):
        f = a.args[0]
        if isinstance(f, ast.Lambda) and len(f.args.args) == 1 and not (
            f.args.posonlyargs or f.args.kwonlyargs or f.args.vararg
            or f.args.kwarg):
          kind = _key_kind(f.body, f.args.args[0].arg)
          ks = src(f.body)
        else:
          kind = _key_kind(ast.Call(func=f, args=[ast.Name(id="_", ctx=ast.Load())],
                                    keywords=[]), "_")
          ks = src(f) + "(_)"
        if kind is not None:
          return a.args[1].id, kind, ks
  return None


def _set_over(node):
  """If node builds a set/dict keyed by the elements (or their id) of a name,
  returns that name."""
  r = _set_over_kind(node)
  return r[0] if r is not None and r[1] == "identity" else None


def _dup_compare_ex(test):
  """-> (list_name, fires_on_duplicate: bool, key kind, key source) for
  len(set(f(v) for v in x)) <op> len(x)."""
  if not (isinstance(test, ast.Compare) and len(test.ops) == 1):
    return None
  l, r = _len_arg(test.left), _len_arg(test.comparators[0])
  if l is None or r is None:
    return None
  op = type(test.ops[0])
  so = _set_over_kind(l)
  if isinstance(r, ast.Name) and so is not None and so[0] == r.id:
    return (r.id, {ast.NotEq: True, ast.Lt: True, ast.Eq: False,
                   ast.GtE: False}.get(op)) + so[1:]      # len(set) op len(x)
  so = _set_over_kind(r)
  if isinstance(l, ast.Name) and so is not None and so[0] == l.id:
    return (l.id, {ast.NotEq: True, ast.Gt: True, ast.Eq: False,
                   ast.LtE: False}.get(op)) + so[1:]      # len(x) op len(set)
  return None


def _dup_compare(test):
  """-> (list_name, fires_on_duplicate: bool) for len(set(x)) <op> len(x)
  (identity-keyed sets only)."""
  r = _dup_compare_ex(test)
  return r[:2] if r is not None and r[2] == "identity" else None


def _bases_root(defs, name, stmt, what, depth=0):
  """Follows `x = [v for v in y if isinstance(v, ..)]` / list(y) to the root
  assignment of the direct-bases list; returns the defining Assign."""
  d = _single_assign(defs, name, stmt, what)
  v = d.value
  while isinstance(v, ast.Call) and dotted(v.func) in ("list", "tuple") and \
      len(v.args) == 1:
    v = v.args[0]
  if isinstance(v, ast.Name) and depth < 4:
    return _bases_root(defs, v.id, d, what, depth + 1)
  if isinstance(v, ast.ListComp) and depth < 4:
    g = v.generators
    if len(g) == 1 and isinstance(g[0].target, ast.Name) and \
        isinstance(v.elt, ast.Name) and v.elt.id == g[0].target.id and \
        isinstance(g[0].iter, ast.Name) and all(
            isinstance(c, ast.Call) and dotted(c.func) == "isinstance"
            and c.args and isinstance(c.args[0], ast.Name)
            and c.args[0].id == g[0].target.id for c in g[0].ifs):
      return _bases_root(defs, g[0].iter.id, d, what, depth + 1)
    raise AnalysisError(
        f"{what}: `{name}` = {src(v)} is not an isinstance-filter of the bases")
  return d


@rule("R10.5", "C10", floor=1)
def r10_5(ctx):
  """A repeated direct base is rejected with MROError before the merge."""
  mod = get_module(ctx, MIXIN)
  qual = "Class.compute_mro"
  # the helpers compute_mro was split into are inlined in place
  mod, fn = _inlined(ctx, mod, mod.func(qual))
  defs = _defs(ctx, mod, fn)
  merges = [c for c in calls_in(fn, suffix="MROMerge")]
  if len(merges) != 1:
    raise AnalysisError(f"{qual}: expected one MROMerge call")
  merge_stmt = mod.enclosing_stmt(merges[0])
  what = f"{qual}:duplicate-base-test"
  # the bases expression the merge is built from
  ops = _rows(ctx, mod, fn, defs, merges[0].args[0], merge_stmt, what)
  parts = [_classify(ctx, mod, fn, defs, e, s, what) for e, s in ops]
  brow = [p for p in parts if p[0] == "bases"]
  if len(brow) != 1 or not isinstance(brow[0][2], ast.Name):
    raise AnalysisError(f"{qual}: direct-bases row of the merge not recognised")
  merge_root = _bases_root(defs, brow[0][2].id, brow[0][3], what)
  raises = [n for n in walk_no_nested(fn) if isinstance(n, ast.Raise)
            and _exc_name(n.exc) == "MROError"]
  found = None
  unknown = []
  for r in raises:
    hit = None
    for test, pol in flow.guards(mod.parent, r, stop=fn):
      dc = _dup_compare_ex(test)
      if dc is not None:
        hit = (test, pol, dc)
    if hit is None:
      unknown.append(r)
    else:
      found = (r,) + hit
  if found is None:
    if unknown or any(_dup_compare_ex(n) for n in ast.walk(fn)
                      if isinstance(n, ast.Compare)):
      raise AnalysisError(
          f"{qual}: raises MROError / compares lengths in a way the "
          "duplicate-test idioms (len(set(x)) != len(x)) do not cover")
    vm = _inlined(ctx, get_module(ctx, VMU),
                  get_module(ctx, VMU).func("make_class"))[1]
    if any(_dup_compare_ex(n) for n in ast.walk(vm) if isinstance(n, ast.Compare)) \
        or any(isinstance(n, ast.Raise) and _exc_name(n.exc) == "MROError"
               for n in ast.walk(vm)):
      raise AnalysisError(
          "make_class contains a duplicate test the rule does not understand")
    ctx.bad(what, MIXIN, fn.lineno,
            "no test for a repeated direct base on the class-creation path: "
            "MROMerge applies Dedup to the bases row, so `class C(A, A)` is "
            "accepted where CPython raises TypeError (duplicate base class)",
            {"raises_MROError": 0})
    return
  r, test, pol, (lst, fires_on_dup, key_kind, key_src) = found
  if fires_on_dup is None:
    raise AnalysisError(f"{qual}: comparison operator in `{src(test)}` unknown")
  fires = fires_on_dup if pol else not fires_on_dup
  # the tested list derives from the same bases value as the merge rows
  holder = mod.enclosing_stmt(test)
  test_root = _bases_root(defs, lst, holder, what)
  same = test_root is merge_root

  def gen(unit):
    return ["dup-tested"] if unit is test else []
  f = flow.flow(fn, gen)
  st = f.before.get(merge_stmt)
  dominates = st is not None and "dup-tested" in st
  facts = {"test": src(test), "raise_when_true": pol, "tested": lst,
           "tested_root": src(test_root.value), "merge_root": src(merge_root.value),
           "dominates_merge": dominates}
  ctx.check(fires and same and dominates, what, MIXIN, r.lineno,
            "the duplicate test must raise MROError exactly when the direct "
            "bases contain a repeated class, over the same bases the merge "
            f"uses, on every path to MROMerge: {facts}", facts)
  # what the test compares: CPython's duplicate-base test compares the base
  # objects themselves (identity); a projection of a base (its name, its
  # full_name, its type ...) is shared by distinct classes, so a class with two
  # different same-named bases would get an mro-error CPython does not raise
  ctx.check(key_kind == "identity", f"{qual}:duplicate-test-compares-identities",
            MIXIN, test.lineno,
            f"the repeated-base test builds its set from `{key_src}`, a "
            "projection that two distinct class objects can share (classes "
            "made by two factories, a rebound class name): such bases are "
            "reported as duplicates and the class gets an [mro-error] although "
            "CPython creates it; compare the bases themselves or id(base)",
            {"key": key_src, "kind": key_kind, "test": src(test)})


# -- R10.6 ---------------------------------------------------------------------

def _const_index(node, value):
  return isinstance(node, ast.Subscript) and \
      isinstance(node.slice, ast.Constant) and node.slice.value == value


def _tail_slice(node):
  if not (isinstance(node, ast.Subscript) and isinstance(node.slice, ast.Slice)):
    return None
  s = node.slice
  lo = s.lower.value if isinstance(s.lower, ast.Constant) else (
      None if s.lower is None else "?")
  up = None if s.upper is None else "?"
  st = None if s.step is None else "?"
  return (lo, up, st)


def _candidate_assign(fn):
  """`cand = row[0]`: the subscript assignment to the name that the reject arm
  resets to None."""
  reset = {n.targets[0].id for n in walk_no_nested(fn)
           if isinstance(n, ast.Assign) and len(n.targets) == 1
           and isinstance(n.targets[0], ast.Name)
           and isinstance(n.value, ast.Constant) and n.value.value is None}
  cand_assigns = [n for n in walk_no_nested(fn) if isinstance(n, ast.Assign)
                  and len(n.targets) == 1 and isinstance(n.targets[0], ast.Name)
                  and n.targets[0].id in reset
                  and isinstance(n.value, ast.Subscript)]
  if len(cand_assigns) != 1:
    raise AnalysisError(
        "MergeSequences: candidate assignment `cand = seq[0]` not recognised")
  return cand_assigns[0]


@rule("R10.6", "C10", floor=3)
def r10_6(ctx):
  """C3 step: candidate = head of a row, rejected iff in another row's tail."""
  mod = get_module(ctx, MRO)
  _merge_by_structure_or_small_scope(
      ctx, lambda: _r10_6_structural(ctx, mod),
      ["MergeSequences:candidate-is-head", "MergeSequences:tail-test",
       "MergeSequences:remove-heads"], "result")


def _r10_6_structural(ctx, mod):
  fn = mod.func("MergeSequences")
  ca = _candidate_assign(fn)
  cand = ca.targets[0].id
  ctx.check(_const_index(ca.value, 0), "MergeSequences:candidate-is-head", MRO,
            ca.lineno, f"the merge candidate is `{src(ca.value)}`; C3 takes "
            "the head (index 0) of a row", {"candidate": src(ca.value)})
  # tail test: `cand in X[1:]`
  tails = [n for n in ast.walk(fn) if isinstance(n, ast.Compare)
           and len(n.ops) == 1 and isinstance(n.ops[0], (ast.In, ast.NotIn))
           and isinstance(n.left, ast.Name) and n.left.id == cand]
  if len(tails) != 1:
    raise AnalysisError("MergeSequences: tail-membership test not recognised")
  t = tails[0]
  sl = _tail_slice(t.comparators[0])
  # the test must sit in the condition that rejects the candidate
  node = t
  while node is not None and not isinstance(node, ast.stmt):
    node = mod.parent.get(node)
  if not (isinstance(node, ast.If) and any(x is t for x in ast.walk(node.test))):
    raise AnalysisError(
        "MergeSequences: the tail test is not part of an if-condition (it is "
        f"evaluated in `{src(node)[:50]}`): rejecting arm not recognised")
  rejects = isinstance(node, ast.If) and any(
      isinstance(s, ast.Assign) and dotted(s.targets[0]) == cand
      and isinstance(s.value, ast.Constant) and s.value.value is None
      for s in (node.body if isinstance(t.ops[0], ast.In) else node.orelse))
  negated = False
  p = mod.parent.get(t)
  while p is not None and p is not node:
    if isinstance(p, ast.UnaryOp) and isinstance(p.op, ast.Not):
      negated = not negated
    p = mod.parent.get(p)
  if negated:
    raise AnalysisError("MergeSequences: negated tail test not understood")
  ctx.check(sl == (1, None, None) and rejects, "MergeSequences:tail-test", MRO,
            t.lineno, f"a candidate must be rejected iff it occurs in the tail "
            f"`[1:]` of a row; found `{src(t)}` (slice {sl}), rejecting arm "
            f"recognised={rejects}", {"test": src(t), "slice": list(sl) if sl else None})
  # removal: `del X[0]` guarded by `X[0] == cand`
  dels = [n for n in walk_no_nested(fn) if isinstance(n, ast.Delete)]
  if len(dels) != 1 or len(dels[0].targets) != 1:
    raise AnalysisError("MergeSequences: head removal `del row[0]` not recognised")
  d = dels[0]
  tgt = d.targets[0]
  g = flow.guards(mod.parent, d, stop=fn)
  row = dotted(tgt.value) if isinstance(tgt, ast.Subscript) else None
  head_eq = False
  for test, pol in g:
    for c in ast.walk(test):
      if pol and isinstance(c, ast.Compare) and len(c.ops) == 1 and \
          isinstance(c.ops[0], ast.Eq):
        sides = [c.left, c.comparators[0]]
        if any(isinstance(s, ast.Name) and s.id == cand for s in sides) and \
            any(_const_index(s, 0) and dotted(s.value) == row for s in sides):
          head_eq = True
  ctx.check(_const_index(tgt, 0) and head_eq, "MergeSequences:remove-heads",
            MRO, d.lineno, f"the emitted candidate must be removed from the "
            f"head of every row that starts with it; found `{src(d)}` guarded "
            f"by {[(src(a), b) for a, b in g]}",
            {"delete": src(d), "guarded_by_head_eq": head_eq})


# -- R10.7 ---------------------------------------------------------------------

_ORDER_BREAKERS = {"set", "frozenset", "sorted", "reversed"}


@rule("R10.7", "C10", floor=4)
def r10_7(ctx):
  """The merge result is consumed in order (tuple/list/map), never reordered."""
  for rel in _merge_files(ctx):
    mod = get_module(ctx, rel)
    seen = {}
    for call in sorted(_merge_calls(mod), key=lambda c: (c.lineno, c.col_offset)):
      fn = mod.enclosing_function(call)
      what = _site_name(mod, fn, call, seen) + ":result"
      node, chain, verdict = call, [], None
      while True:
        par = mod.parent.get(node)
        if isinstance(par, (ast.Return, ast.Assign, ast.AnnAssign)):
          chain.append(type(par).__name__)
          verdict = True
          break
        if isinstance(par, ast.Call) and node in par.args and \
            len(par.args) == 1 and not par.keywords:
          name = dotted(par.func) or ""
          if name in ("tuple", "list"):
            chain.append(name)
          elif name.split(".")[-1] in _ORDER_BREAKERS:
            chain.append(name)
            verdict = False
            break
          else:
            raise AnalysisError(f"{what}: result passed to {name or '?'}(..)")
        elif isinstance(par, ast.comprehension) and par.iter is node:
          comp = mod.parent.get(par)
          if isinstance(comp, (ast.SetComp, ast.DictComp)):
            chain.append(type(comp).__name__)
            verdict = False
            break
          if not isinstance(comp, (ast.GeneratorExp, ast.ListComp)) or \
              comp.generators[0] is not par or len(comp.generators) != 1:
            raise AnalysisError(f"{what}: result consumed by {src(comp)[:60]}")
          if par.ifs:
            raise AnalysisError(f"{what}: merge result is filtered")
          chain.append("map")
          par = comp
        elif isinstance(par, ast.Subscript) and par.value is node:
          chain.append(f"[{src(par.slice)}]")
          verdict = False
          break
        else:
          raise AnalysisError(
              f"{what}: result flows into {type(par).__name__}, not understood")
        node = par
      ctx.check(verdict, what, rel, call.lineno,
                f"the MROMerge result must be kept whole and in order; it "
                f"flows through {chain}", {"flows_through": chain})


# -- R10.8: the rewrite engine -----------------------------------------------------

def _rewrite_files(ctx):
  files = [REWRITE, "pytype/rewrite/function_call_helper.py",
           "pytype/rewrite/frame.py"]
  if ctx.tier == "thorough":
    for rel in all_py_files(ctx, "pytype/rewrite"):
      if not rel.endswith("_test.py") and rel not in files:
        files.append(rel)
  return files


@rule("R10.8", "C10", floor=3)
def r10_8(ctx):
  """Rewrite engine: lookup walks the MRO, MRO errors are reported, repeated
  bases are rejected."""
  mod = get_module(ctx, REWRITE)
  # (a) attribute lookup on a class follows *this* class's linearisation
  qual = "SimpleClass.get_attribute"
  fn = mod.func(qual)
  aliases = {n.targets[0].id for n in walk_no_nested(fn)
             if isinstance(n, ast.Assign) and len(n.targets) == 1
             and isinstance(n.targets[0], ast.Name)
             and src(n.value) == "self.mro()"}

  def is_mro(e):
    return src(e) == "self.mro()" or (isinstance(e, ast.Name) and e.id in aliases)

  loops = []
  for n in walk_no_nested(fn):
    if isinstance(n, ast.For):
      it = n.iter
      tail = isinstance(it, ast.Subscript) and _tail_slice(it) in (
          (1, None, None), (0, None, None), (None, None, None))
      if is_mro(it) or (tail and is_mro(it.value)):
        loops.append(n)
      elif any(is_mro(x) for x in ast.walk(it)):
        loops.append(n)
  delegations = [c for c in calls_in(fn) if isinstance(c.func, ast.Attribute)
                 and c.func.attr == "get_attribute"
                 and isinstance(c.func.value, ast.Subscript)
                 and is_mro(c.func.value.value)]
  construct = f"{qual}:walks-own-mro"
  if loops:
    if len(loops) != 1:
      raise AnalysisError(f"{qual}: several loops over the MRO")
    lp = loops[0]
    it = lp.iter
    direct = is_mro(it) or (isinstance(it, ast.Subscript) and is_mro(it.value)
                            and _tail_slice(it) is not None)
    exits = any(isinstance(x, (ast.Return, ast.Break))
                for x in flow._walk_loop_body(lp))
    ctx.check(direct and exits and not delegations, construct, REWRITE,
              lp.lineno, f"the lookup iterates `{src(it)}` (first-hit exit: "
              f"{exits}); it must walk self.mro() forward and stop at the "
              "first class that has the member",
              {"iter": src(it), "first_hit_exit": exits})
  elif delegations:
    ctx.bad(f"{qual}:delegates-to-base-lookup", REWRITE, delegations[0].lineno,
            f"a member missing from the class itself is looked up with "
            f"`{src(delegations[0])}`: that continues along the *base's own* "
            "linearisation, not this class's - for class C(A, B) with x "
            "defined on B, C.mro() is [C, A, B, object] but the lookup visits "
            "C, A, object and misses B.x",
            {"delegates_to": src(delegations[0].func)})
  else:
    raise AnalysisError(f"{qual}: neither an MRO loop nor a delegation found")
  # (b) an inconsistent hierarchy is reported, not raised through the VM
  qual = "SimpleClass.mro"
  fn = mod.func(qual)
  merges = calls_in(fn, suffix="MROMerge")
  if len(merges) != 1:
    raise AnalysisError(f"{qual}: expected one MROMerge call")
  local = [h for t in _enclosing_trys(mod, merges[0], fn) for h in t.handlers
           if "MROError" in _handler_types(h)]
  elsewhere = []
  for rel in _rewrite_files(ctx):
    m = get_module(ctx, rel)
    for n in ast.walk(m.tree):
      if isinstance(n, ast.ExceptHandler) and "MROError" in _handler_types(n):
        elsewhere.append(f"{rel}:{n.lineno}")
  if not local and elsewhere:
    raise AnalysisError(
        f"rewrite engine catches MROError at {elsewhere}, not around the "
        "merge: cannot decide whether every path is covered")
  if not local:
    ctx.bad(f"{qual}:MROError-uncaught", REWRITE, merges[0].lineno,
            "MROMerge can raise MROError (class E(A, B) with B a subclass of "
            "A) but nothing in pytype/rewrite catches it: the analysis "
            "crashes instead of reporting [mro-error]",
            {"handlers_in_rewrite": elsewhere})
  else:
    h = local[0]
    logs = [c for st in h.body for c in calls_in(st)
            if (dotted(c.func) or "").endswith("errorlog.mro_error")]
    ctx.check(bool(logs), f"{qual}:mro-error-reported", REWRITE, h.lineno,
              "the MROError handler around the merge does not call "
              "errorlog.mro_error: the inconsistent hierarchy is swallowed",
              {"logs": [src(c.func) for c in logs]})
  # (c) repeated direct bases
  dup_here = [n for n in ast.walk(fn) if isinstance(n, ast.Compare)
              and _dup_compare(n) is not None]
  raises = []
  for rel in _rewrite_files(ctx):
    m = get_module(ctx, rel)
    for n in ast.walk(m.tree):
      if isinstance(n, ast.Raise) and _exc_name(n.exc) == "MROError":
        raises.append(f"{rel}:{n.lineno}")
      if isinstance(n, ast.Compare) and _dup_compare(n) is not None and \
          n not in dup_here:
        raises.append(f"{rel}:{n.lineno}")
  construct = f"{qual}:duplicate-base-test"
  if dup_here:
    test = dup_here[0]
    holder = mod.enclosing_stmt(test)
    lst, fires_on_dup = _dup_compare(test)
    rs = [r for r in ast.walk(holder) if isinstance(r, ast.Raise)]
    if not isinstance(holder, ast.If) or not rs or fires_on_dup is None:
      raise AnalysisError(f"{qual}: duplicate test shape not understood")
    in_body = any(r in ast.walk(ast.Module(body=holder.body, type_ignores=[]))
                  for r in rs)

    def gen(unit):
      return ["dup-tested"] if unit is test else []
    f = flow.flow(fn, gen)
    st = f.before.get(mod.enclosing_stmt(merges[0]))
    ctx.check(fires_on_dup == in_body and st is not None and "dup-tested" in st,
              construct, REWRITE, test.lineno,
              f"`{src(test)}` must raise exactly for a repeated base and "
              "dominate the merge", {"test": src(test)})
  elif raises:
    raise AnalysisError(
        f"rewrite engine raises MROError / tests duplicates at {raises}: "
        "shape not understood")
  else:
    ctx.bad(f"{qual}:no-duplicate-base-test", REWRITE, merges[0].lineno,
            "no test for a repeated direct base in the rewrite engine: "
            "MROMerge de-duplicates the bases row, so `class D(A, A)` is "
            "accepted where CPython raises TypeError (duplicate base class)",
            {"raises_MROError": 0})


# -- R10.9: the candidate scan starts at the first row in every round -----------------

_PURE_BUILTINS = {"range", "len", "enumerate", "reversed", "sorted", "list",
                  "tuple", "iter", "zip"}


def _row_map_of(node, rows):
  """[[.. for e in r ..] for r in rows] / [f(r) for r in rows]: a rebinding of
  the rows that keeps their number and order."""
  return (isinstance(node, ast.ListComp) and len(node.generators) == 1
          and not node.generators[0].ifs
          and isinstance(node.generators[0].iter, ast.Name)
          and node.generators[0].iter.id == rows)


@rule("R10.9", "C10", floor=2)
def r10_9(ctx):
  """C3 takes the FIRST row whose head is acceptable: every round scans the
  rows from the first one, in order, and stops at the first acceptable head."""
  mod = get_module(ctx, MRO)
  _merge_by_structure_or_small_scope(
      ctx, lambda: _r10_9_structural(ctx, mod),
      ["MergeSequences:scan-from-first-row",
       "MergeSequences:scan-ends-at-first-acceptable-head"], "result")


def _r10_9_structural(ctx, mod):
  fn = mod.func("MergeSequences")
  if not fn.args.args:
    raise AnalysisError("MergeSequences has no parameter")
  rows = fn.args.args[0].arg
  ca = _candidate_assign(fn)
  cand = ca.targets[0].id
  scan = mod.parent.get(ca)
  while scan is not None and not isinstance(scan, (ast.For, ast.While) + _FUNCS):
    scan = mod.parent.get(scan)
  if not isinstance(scan, ast.For) or scan.orelse:
    raise AnalysisError("MergeSequences: the candidate is not chosen in a plain for loop")
  outer = mod.parent.get(scan)
  while outer is not None and not isinstance(outer, (ast.For, ast.While) + _FUNCS):
    outer = mod.parent.get(outer)
  if not (isinstance(outer, ast.While) and flow.is_const_true(outer.test)):
    raise AnalysisError("MergeSequences: the candidate scan is not inside `while True`")
  # rebinding of the rows
  rebinds = []
  for n in walk_no_nested(fn):
    if isinstance(n, (ast.Assign, ast.AugAssign, ast.AnnAssign)):
      tg = n.targets if isinstance(n, ast.Assign) else [n.target]
      if any(isinstance(t, ast.Name) and t.id == rows for t in tg):
        if not (isinstance(n, ast.Assign) and _row_map_of(n.value, rows)):
          raise AnalysisError(
              f"MergeSequences: `{src(n)[:60]}` rebinds the rows in a way that "
              "is not a per-row map")
        rebinds.append(src(n.value)[:60])
  # which row the candidate is the head of
  rowx = ca.value.value
  it, tgt = scan.iter, scan.target
  carried = sorted(
      n for n in flow.names_in(it) - {rows} - _PURE_BUILTINS
      if any(isinstance(x, ast.Name) and x.id == n and isinstance(x.ctx, ast.Store)
             for x in ast.walk(outer)))
  idx = None
  form = None
  if isinstance(it, ast.Name) and it.id == rows and isinstance(tgt, ast.Name):
    form, rowvar = "for row in rows", tgt.id
  elif isinstance(it, ast.Call) and dotted(it.func) == "enumerate" and \
      len(it.args) == 1 and dotted(it.args[0]) == rows and \
      isinstance(tgt, ast.Tuple) and len(tgt.elts) == 2 and \
      all(isinstance(e, ast.Name) for e in tgt.elts):
    form, idx, rowvar = "for i, row in enumerate(rows)", tgt.elts[0].id, tgt.elts[1].id
  elif isinstance(it, ast.Call) and dotted(it.func) == "range" and \
      len(it.args) == 1 and not it.keywords and \
      src(it.args[0]) == f"len({rows})" and isinstance(tgt, ast.Name):
    form, idx, rowvar = "for i in range(len(rows))", tgt.id, None
  facts = {"scan": src(it), "rows_rebound_by": rebinds}
  construct = "MergeSequences:scan-from-first-row"
  if form is None:
    reorders = any(isinstance(c, ast.Call) and
                   (dotted(c.func) or "").split(".")[-1] in ("reversed", "sorted")
                   for c in ast.walk(it)) or any(
                       isinstance(x, ast.Slice) for x in ast.walk(it)) or any(
                           isinstance(c, ast.Call) and dotted(c.func) == "range"
                           and len(c.args) != 1 for c in ast.walk(it))
    if carried:
      ctx.bad(construct, MRO, scan.lineno,
              f"the candidate scan iterates `{src(it)}`, which depends on "
              f"{carried} carried over from the previous round: C3 restarts "
              "at the first row after every emitted class (a head rejected "
              "earlier can have become acceptable), so resuming elsewhere "
              "yields a different linearisation than CPython's",
              dict(facts, loop_carried=carried))
    elif reorders and flow.names_in(it) - _PURE_BUILTINS == {rows}:
      ctx.bad(construct, MRO, scan.lineno,
              f"the candidate scan iterates `{src(it)}`: not every row, first "
              "to last", facts)
    else:
      raise AnalysisError(
          f"MergeSequences: candidate scan `for {src(tgt)} in {src(it)}` not understood")
  else:
    # the candidate must be the head of the row the scan is at
    def is_current_row(e, depth=0):
      if isinstance(e, ast.Name):
        if rowvar is not None and e.id == rowvar:
          return True
        if depth < 2:
          defs = [n for n in scan.body if isinstance(n, ast.Assign)
                  and len(n.targets) == 1 and isinstance(n.targets[0], ast.Name)
                  and n.targets[0].id == e.id]
          if len(defs) == 1 and scan.body.index(defs[0]) < _top_index(mod, scan, ca):
            return is_current_row(defs[0].value, depth + 1)
        return False
      return (idx is not None and isinstance(e, ast.Subscript)
              and isinstance(e.value, ast.Name) and e.value.id == rows
              and isinstance(e.slice, ast.Name) and e.slice.id == idx)
    if not is_current_row(rowx):
      raise AnalysisError(
          f"MergeSequences: candidate `{src(ca.value)}` is not the head of the "
          "row the scan is at")
    facts["form"] = form
    ctx.ok(construct, MRO, scan.lineno, facts)
  # after an emission the scan ends (the next round starts at the first row)
  def gen(unit):
    return ["live"] if unit is ca else []

  def kill(unit):
    if unit is scan.iter:
      return ["live"]
    if isinstance(unit, ast.Assign) and len(unit.targets) == 1 and \
        isinstance(unit.targets[0], ast.Name) and unit.targets[0].id == cand \
        and isinstance(unit.value, ast.Constant) and unit.value.value is None:
      return ["live"]
    return None
  f = flow.flow(fn, gen, kill, mode="may")
  st = f.after_header.get(scan)
  if st is None:
    raise AnalysisError("MergeSequences: candidate scan is unreachable")
  ctx.check("live" not in st, "MergeSequences:scan-ends-at-first-acceptable-head",
            MRO, scan.lineno,
            "some path through the scan body goes on to the next row with an "
            f"accepted candidate (`{cand}` neither reset to None nor followed "
            "by break): later rows are then served before the scan restarts "
            "at the first row", {"candidate_live_at_next_row": "live" in st})


def _top_index(mod, loop, node):
  while node is not None and mod.parent.get(node) is not loop:
    node = mod.parent.get(node)
  return loop.body.index(node) if node in loop.body else -1


# -- R10.10: no de-duplication of a bases row before the duplicate test ---------------

DEFS = "pytype/pyi/definitions.py"
CLASSES = "pytype/abstract/_classes.py"

_DEDUP_CALLS = {"set", "frozenset", "fromkeys", "OrderedSet", "Dedup", "unique",
                "Counter", "OrderedDict"}
_SEQ_WRAPPERS = {"list", "tuple", "sorted", "reversed", "enumerate", "iter"}
_MUTATORS = {"add", "append", "extend", "update", "insert", "setdefault",
             "discard", "remove", "pop", "clear"}


class _Dedup(Exception):
  def __init__(self, why, rel, line):
    super().__init__(why)
    self.why, self.rel, self.line = why, rel, line


def _only_raises(block):
  if not block:
    return False
  last = block[-1]
  if isinstance(last, ast.Raise):
    return True
  if isinstance(last, ast.If):
    return _only_raises(last.body) and _only_raises(last.orelse)
  return False


def _contains(root, node):
  return any(n is node for n in ast.walk(root))


class _RowProvenance:
  """Follows a row of base classes back to where it comes from, through
  multiplicity-preserving steps only (copies, slices, concatenation,
  element-wise maps, filters that look at one element at a time, accumulator
  loops, calls of functions of the package).  A step that can drop a repeated
  element (set / dict.fromkeys / Dedup / a `seen` test) raises _Dedup."""

  def __init__(self, ctx):
    self.ctx = ctx

  def fn_locals(self, fn):
    out = set()
    a = fn.args
    for x in a.posonlyargs + a.args + a.kwonlyargs:
      out.add(x.arg)
    for n in walk_no_nested(fn):
      if isinstance(n, ast.Name) and isinstance(n.ctx, ast.Store):
        out.add(n.id)
    return out

  def mutated_in(self, root):
    """Names stored to, or receivers of a mutator call / item store, under root."""
    out = set()
    for n in ast.walk(root):
      if isinstance(n, ast.Name) and isinstance(n.ctx, ast.Store):
        out.add(n.id)
      elif isinstance(n, ast.Call) and isinstance(n.func, ast.Attribute) and \
          n.func.attr in _MUTATORS and isinstance(n.func.value, ast.Name):
        out.add(n.func.value.id)
      elif isinstance(n, ast.Subscript) and isinstance(n.ctx, (ast.Store, ast.Del)) \
          and isinstance(n.value, ast.Name):
        out.add(n.value.id)
    return out

  def containers_mutated_in(self, root):
    out = set()
    for n in ast.walk(root):
      if isinstance(n, ast.Call) and isinstance(n.func, ast.Attribute) and \
          n.func.attr in _MUTATORS and isinstance(n.func.value, ast.Name):
        out.add(n.func.value.id)
      elif isinstance(n, ast.Subscript) and isinstance(n.ctx, (ast.Store, ast.Del)) \
          and isinstance(n.value, ast.Name):
        out.add(n.value.id)
      elif isinstance(n, ast.NamedExpr):
        out.add(n.target.id)
    return out

  def check_condition(self, mod, fn, test, elem_names, state, what):
    """A condition deciding whether an element is kept: must not look at the
    elements kept so far."""
    state = state - {y.id for x in ast.walk(test) if isinstance(x, ast.comprehension)
                     for y in ast.walk(x.target) if isinstance(y, ast.Name)}
    for c in ast.walk(test):
      if isinstance(c, ast.Compare) and any(
          isinstance(o, (ast.In, ast.NotIn)) for o in c.ops):
        for comp in c.comparators:
          hit = flow.names_in(comp) & state
          if hit:
            raise _Dedup(
                f"`{src(test)[:90]}` keeps an element depending on whether it "
                f"is already in {sorted(hit)}", mod.rel, test.lineno)
      if isinstance(c, ast.Call) and isinstance(c.func, ast.Attribute) and \
          c.func.attr in ("count", "index") and \
          flow.names_in(c.func.value) & state:
        raise _Dedup(
            f"`{src(test)[:90]}` keeps an element depending on its "
            f"{c.func.attr} in {sorted(flow.names_in(c.func.value) & state)}",
            mod.rel, test.lineno)
    other = flow.names_in(test) & state
    if other:
      raise AnalysisError(
          f"{what}: condition `{src(test)[:80]}` reads {sorted(other)}, which "
          "changes from element to element")

  def prov(self, mod, fn, expr, stmt, what, depth=0):
    """-> set of root descriptions."""
    if depth > 12:
      raise AnalysisError(f"{what}: provenance of the bases row too deep")
    P = lambda e, st=stmt: self.prov(mod, fn, e, st, what, depth + 1)
    if isinstance(expr, ast.Name):
      return self.prov_name(mod, fn, expr.id, stmt, what, depth)
    if isinstance(expr, ast.Attribute):
      d = dotted(expr)
      if d is None:
        raise AnalysisError(f"{what}: `{src(expr)}` not understood")
      return {f"attr:{d}"}
    if isinstance(expr, (ast.Tuple, ast.List)):
      out = set()
      for e in expr.elts:
        if isinstance(e, ast.Starred):
          out |= P(e.value)
      if not out or any(not isinstance(e, ast.Starred) for e in expr.elts):
        out.add(f"literal:{src(expr)[:40]}")
      return out
    if isinstance(expr, ast.BinOp) and isinstance(expr.op, ast.Add):
      return P(expr.left) | P(expr.right)
    if isinstance(expr, ast.IfExp):
      return P(expr.body) | P(expr.orelse)
    if isinstance(expr, ast.BoolOp) and isinstance(expr.op, ast.Or):
      out = set()
      for v in expr.values:
        out |= P(v)
      return out
    if isinstance(expr, ast.Subscript) and isinstance(expr.slice, ast.Slice):
      return P(expr.value)
    if isinstance(expr, ast.Starred):
      return P(expr.value)
    if isinstance(expr, (ast.SetComp, ast.DictComp, ast.Set, ast.Dict)):
      raise _Dedup(f"`{src(expr)[:80]}` builds a set/dict from the row",
                   mod.rel, expr.lineno)
    if isinstance(expr, (ast.ListComp, ast.GeneratorExp)):
      if len(expr.generators) != 1 or expr.generators[0].is_async:
        raise AnalysisError(f"{what}: `{src(expr)[:60]}` not understood")
      g = expr.generators[0]
      elem = {n.id for n in ast.walk(g.target) if isinstance(n, ast.Name)}
      # what a per-element condition must not look at: the row itself and
      # containers that are filled while the function runs (`seen` sets)
      state = (self.fn_locals(fn) & (self.containers_mutated_in(fn)
                                     | flow.names_in(g.iter))) - elem
      for cond in g.ifs:
        self.check_condition(mod, fn, cond, elem, state, what)
      return P(g.iter)
    if isinstance(expr, ast.Call):
      return self.prov_call(mod, fn, expr, stmt, what, depth)
    raise AnalysisError(f"{what}: `{src(expr)[:60]}` not understood")

  def prov_name(self, mod, fn, name, stmt, what, depth):
    defs = _defs(self.ctx, mod, fn)
    ds = defs.at(name, stmt)
    if not ds:
      raise AnalysisError(f"{what}: `{name}` has no reaching definition")
    out = set()
    for d in ds:
      if d == "param":
        out.add(f"param:{name}")
      elif isinstance(d, ast.Assign) and len(d.targets) == 1 and \
          isinstance(d.targets[0], ast.Name):
        if _is_empty_list(d.value):
          out |= self.accumulator(mod, fn, name, d, what, depth)
        else:
          out |= self.prov(mod, fn, d.value, d, what, depth + 1)
      elif isinstance(d, ast.Assign) and len(d.targets) == 1 and \
          isinstance(d.targets[0], ast.Tuple) and isinstance(d.value, ast.Call) \
          and all(isinstance(e, ast.Name) for e in d.targets[0].elts):
        k = [e.id for e in d.targets[0].elts].index(name)
        out |= self.prov_call(mod, fn, d.value, d, what, depth, element=k)
      elif isinstance(d, ast.AnnAssign) and d.value is not None:
        out |= self.prov(mod, fn, d.value, d, what, depth + 1)
      else:
        raise AnalysisError(
            f"{what}: `{name}` is bound by `{src(d)[:50] if isinstance(d, ast.AST) else d}`"
            ", not understood")
    return out

  def accumulator(self, mod, fn, name, init, what, depth):
    """`name = []` filled by .append/.extend inside for loops."""
    out = set()
    sites = 0
    for n in walk_no_nested(fn):
      if isinstance(n, ast.Attribute) and isinstance(n.value, ast.Name) and \
          n.value.id == name:
        call = mod.parent.get(n)
        if n.attr in ("sort", "reverse", "copy", "index", "count"):
          continue
        if not (isinstance(call, ast.Call) and call.func is n
                and n.attr in ("append", "extend") and len(call.args) == 1):
          raise AnalysisError(
              f"{what}: accumulator `{name}` is used through .{n.attr}")
        sites += 1
        st = mod.enclosing_stmt(call)
        loops = []
        cur = mod.parent.get(st)
        while cur is not None and cur is not fn:
          if isinstance(cur, (ast.For, ast.While)):
            loops.append(cur)
          cur = mod.parent.get(cur)
        outer = loops[-1] if loops else None
        if outer is not None and not isinstance(outer, ast.For):
          raise AnalysisError(f"{what}: `{name}` is filled inside a while loop")
        elem = set()
        local_iter = set()
        for lp in loops:
          if isinstance(lp, ast.For):
            elem |= {x.id for x in ast.walk(lp.target) if isinstance(x, ast.Name)}
        if outer is not None:
          # targets of inner loops / comprehensions are bound per element
          for x in ast.walk(outer):
            if isinstance(x, (ast.For, ast.comprehension)):
              elem |= {y.id for y in ast.walk(x.target) if isinstance(y, ast.Name)}
          # names (re)initialised unconditionally at the top of every iteration
          for top in outer.body:
            if isinstance(top, ast.Assign) and len(top.targets) == 1 and \
                isinstance(top.targets[0], ast.Name):
              local_iter.add(top.targets[0].id)
          state = ((self.mutated_in(outer) - local_iter - elem) | {name})
        else:
          state = {name}
        for test, pol in flow.guards(mod.parent, st, stop=fn):
          owner = mod.parent.get(test)
          if isinstance(owner, ast.If) and owner.test is test and \
              not _contains(owner, st):
            exit_block = owner.orelse if pol else owner.body
            if _only_raises(exit_block):
              continue
          if outer is not None and not _contains(outer, test):
            continue   # decided before the loop: the same for every element
          self.check_condition(mod, fn, test, elem, state, what)
        arg = call.args[0]
        if n.attr == "extend":
          if flow.names_in(arg) & elem:
            out.add(f"attr:{dotted(arg) or src(arg)[:40]}")
          else:
            out |= self.prov(mod, fn, arg, st, what, depth + 1)
        if outer is None:
          out.add(f"literal:{src(arg)[:40]}")
        else:
          out |= self.prov(mod, fn, outer.iter, outer, what, depth + 1)
    if not sites:
      return {"literal:[]"}
    # anything that removes elements again is outside the idiom
    for n in walk_no_nested(fn):
      if isinstance(n, ast.Delete) and any(
          isinstance(t, ast.Subscript) and isinstance(t.value, ast.Name)
          and t.value.id == name for t in n.targets):
        raise AnalysisError(f"{what}: elements of `{name}` are deleted")
    return out

  def resolve_callee(self, mod, func):
    """-> (module, FunctionDef) for f(..) / alias.f(..) inside the package."""
    if isinstance(func, ast.Name):
      if func.id in mod.functions:
        return mod, mod.functions[func.id]
      target = mod.imports.get(func.id)
      if target and "." in target:
        modname, fname = target.rsplit(".", 1)
        m = self.module_by_name(mod, modname)
        if m is not None and fname in m.functions:
          return m, m.functions[fname]
      return None
    if isinstance(func, ast.Attribute) and isinstance(func.value, ast.Name):
      target = mod.imports.get(func.value.id)
      if target:
        m = self.module_by_name(mod, target)
        if m is not None and func.attr in m.functions:
          return m, m.functions[func.attr]
    return None

  def module_by_name(self, mod, name):
    if name.startswith("."):
      return None
    rel = name.replace(".", "/") + ".py"
    if not rel.startswith("pytype/") or not self.ctx.exists(rel):
      return None
    return get_module(self.ctx, rel)

  def prov_call(self, mod, fn, call, stmt, what, depth, element=None):
    d = dotted(call.func) or ""
    last = d.split(".")[-1] if d else (
        call.func.attr if isinstance(call.func, ast.Attribute) else "")
    if last in _DEDUP_CALLS and element is None:
      raise _Dedup(f"`{src(call)[:80]}` drops repeated elements of the row",
                   mod.rel, call.lineno)
    if last in _SEQ_WRAPPERS and len(call.args) >= 1 and element is None and \
        isinstance(call.func, ast.Name):
      return self.prov(mod, fn, call.args[0], stmt, what, depth + 1)
    if last == "zip" and isinstance(call.func, ast.Name) and element is None:
      out = set()
      for a in call.args:
        out |= self.prov(mod, fn, a, stmt, what, depth + 1)
      return out
    resolved = self.resolve_callee(mod, call.func)
    if resolved is None:
      if isinstance(call.func, ast.Attribute) and not call.args and \
          not call.keywords and element is None and \
          dotted(call.func.value) is not None:
        return {f"call:{src(call)}"}     # e.g. self.bases()
      raise AnalysisError(f"{what}: call `{src(call)[:60]}` not understood")
    cmod, callee = resolved
    if any(isinstance(a, ast.Starred) for a in call.args) or \
        any(k.arg is None for k in call.keywords):
      raise AnalysisError(f"{what}: `{src(call)[:60]}` uses */** arguments")
    params = [a.arg for a in callee.args.posonlyargs + callee.args.args]
    actual = dict(zip(params, call.args))
    for k in call.keywords:
      actual[k.arg] = k.value
    cwhat = f"{what}>{callee.name}"
    out = set()
    rets = [r for r in walk_no_nested(callee) if isinstance(r, ast.Return)]
    if not rets:
      raise AnalysisError(f"{cwhat}: no return")
    for r in rets:
      v = r.value
      if v is None:
        raise AnalysisError(f"{cwhat}: bare return")
      if element is not None:
        if not (isinstance(v, ast.Tuple) and len(v.elts) > element):
          raise AnalysisError(f"{cwhat}: `{src(r)[:50]}` is not a tuple result")
        v = v.elts[element]
      for root in self.prov(cmod, callee, v, r, cwhat, depth + 1):
        if root.startswith("param:"):
          pn = root.split(":", 1)[1]
          if pn not in actual:
            raise AnalysisError(f"{cwhat}: parameter `{pn}` not passed")
          out |= self.prov(mod, fn, actual[pn], stmt, what, depth + 1)
        else:
          out.add(root)
    return out


def _ctor_param_index(mod, cls, pname):
  init = mod.func(f"{cls}.__init__")
  names = [a.arg for a in init.args.posonlyargs + init.args.args][1:]
  if pname not in names:
    raise AnalysisError(f"{cls}.__init__ has no parameter `{pname}`")
  return names.index(pname)


def _bases_row_sites(ctx):
  """The five anchored sites of the row of direct bases (shared by R10.10 and
  rules/c10_round5.py): (construct, module, function, row expression,
  statement, expected roots)."""
  sites = []
  # (1) stub classes: the parser's pytd.Class(bases=..)
  mod = get_module(ctx, DEFS)
  fn = mod.func("Definitions.build_class")
  calls = [c for c in calls_in(fn) if (dotted(c.func) or "").split(".")[-1] == "Class"
           and any(k.arg == "bases" for k in c.keywords)]
  if len(calls) != 1:
    raise AnalysisError("Definitions.build_class: pytd.Class(bases=..) not found")
  bparams = [a.arg for a in fn.args.args]
  if "bases" not in bparams:
    raise AnalysisError("Definitions.build_class has no `bases` parameter")
  sites.append(("Definitions.build_class:pytd.Class.bases", mod, fn,
                [k.value for k in calls[0].keywords if k.arg == "bases"][0],
                mod.enclosing_stmt(calls[0]), {"param:bases"}))
  # (2) stub classes: PyTDClass.bases() converts pytd_cls.bases
  cm = get_module(ctx, CLASSES)
  fn2 = cm.func("PyTDClass.bases")
  rets = [r for r in walk_no_nested(fn2) if isinstance(r, ast.Return)
          and r.value is not None]
  if len(rets) != 1:
    raise AnalysisError("PyTDClass.bases: expected one return")
  sites.append(("PyTDClass.bases:return", cm, fn2, rets[0].value, rets[0],
                {"attr:self.pytd_cls.bases"}))
  # (3) both engines' classes: compute_mro's tested/merged row
  mm = get_module(ctx, MIXIN)
  mm, fn3 = _inlined(ctx, mm, mm.func("Class.compute_mro"))
  merges = calls_in(fn3, suffix="MROMerge")
  if len(merges) != 1:
    raise AnalysisError("Class.compute_mro: expected one MROMerge call")
  defs3 = _defs(ctx, mm, fn3)
  mstmt = mm.enclosing_stmt(merges[0])
  what3 = "Class.compute_mro:bases-row"
  ops = _rows(ctx, mm, fn3, defs3, merges[0].args[0], mstmt, what3)
  parts = [_classify(ctx, mm, fn3, defs3, e, s, what3) for e, s in ops]
  brow = [p_ for p_ in parts if p_[0] == "bases"]
  if len(brow) != 1 or not isinstance(brow[0][2], ast.Name):
    raise AnalysisError("Class.compute_mro: direct-bases row not recognised")
  sites.append((what3, mm, fn3, brow[0][2], brow[0][3], {"call:self.bases()"}))
  # (4) source classes: make_class hands props.bases to the class constructor
  vm = get_module(ctx, VMU)
  vm, fn4 = _inlined(ctx, vm, vm.func("make_class"))
  ctor = _construction_calls(vm, fn4, {"InterpreterClass"})
  if len(ctor) != 1:
    raise AnalysisError("make_class: InterpreterClass construction not found")
  i = _ctor_param_index(cm, "InterpreterClass", "bases")
  barg = ctor[0].args[i] if len(ctor[0].args) > i else None
  for k in ctor[0].keywords:
    if k.arg == "bases":
      barg = k.value
  if barg is None or any(isinstance(a, ast.Starred) for a in ctor[0].args):
    raise AnalysisError("make_class: `bases` argument of the constructor not found")
  sites.append(("make_class:InterpreterClass.bases", vm, fn4, barg,
                vm.enclosing_stmt(ctor[0]), {"attr:props.bases"}))
  # (5) source classes: __build_class__ collects the bases from the call
  fn5 = cm.func("BuildClass.call")
  props = [c for c in calls_in(fn5, suffix="ClassBuilderProperties")
           if any(k.arg == "bases" for k in c.keywords)]
  if len(props) != 1:
    raise AnalysisError("BuildClass.call: ClassBuilderProperties(bases=..) not found")
  sites.append(("BuildClass.call:ClassBuilderProperties.bases", cm, fn5,
                [k.value for k in props[0].keywords if k.arg == "bases"][0],
                cm.enclosing_stmt(props[0]), {"attr:args.posargs"}))
  return sites


@rule("R10.10", "C10", floor=5)
def r10_10(ctx):
  """On every class-creation path the row of direct bases reaches the duplicate
  test with its repetitions intact."""
  rp = _RowProvenance(ctx)
  sites = _bases_row_sites(ctx)
  for construct, m, f, expr, stmt, must in sites:
    try:
      roots = rp.prov(m, f, expr, stmt, construct)
    except _Dedup as e:
      ctx.bad(construct, e.rel, e.line,
              f"the row of direct bases is de-duplicated on its way to "
              f"`{src(expr)}`: {e.why}.  A repeated base (class C(A, A)) must "
              "reach Class.compute_mro's duplicate test unchanged - MROMerge "
              "itself de-duplicates every row, so once the repetition is gone "
              "no mro-error can be reported where CPython raises TypeError "
              "(duplicate base class)", {"dedup": e.why})
      continue
    facts = {"row": src(expr), "comes_from": sorted(roots)}
    ctx.check(must <= roots, construct, m.rel, getattr(stmt, "lineno", 0),
              f"the row `{src(expr)}` comes from {sorted(roots)}; expected it "
              f"to derive from {sorted(must)} (the bases as written)", facts)


# The C3 step with the candidate search extracted into helpers (the shape of
# benign/C10-r1): `%(ERR)s`, `%(SCAN)s` and `%(TAIL)s` are the places the
# must-fire variants break.
_SPLIT_OLD = '  res = []\n  while True:\n    if not any(seqs):  # any empty subsequence left?\n      return res\n    for seq in seqs:  # find merge candidates among seq heads\n      if not seq:\n        continue\n      cand = seq[0]\n      if getattr(cand, "SINGLETON", False):\n        # Special class. Cycles are allowed. Emit and remove duplicates.\n        seqs = [[s for s in seq if s != cand] for seq in seqs]  # pylint: disable=g-complex-comprehension\n        break\n      if any(s for s in seqs if cand in s[1:] and s is not seq):\n        cand = None  # reject candidate\n      else:\n        # Remove and emit. The candidate can be head of more than one list.\n        for other_seq in seqs:\n          if other_seq and other_seq[0] == cand:\n            del other_seq[0]\n        break\n    if cand is None:\n      raise ValueError\n    res.append(cand)\n'
_SPLIT_NEW = (
    "  merged = []\n"
    "  while any(seqs):\n"
    "    winner = _PickSequence(seqs)\n"
    "    if winner is None:\n"
    "      raise %(ERR)s\n"
    "    head = winner[0]\n"
    "    if getattr(head, \"SINGLETON\", False):\n"
    "      seqs = [[s for s in seq if s != head] for seq in seqs]\n"
    "    else:\n"
    "      for seq in seqs:\n"
    "        if seq and seq[0] == head:\n"
    "          del seq[%(DEL)s]\n"
    "    merged.append(head)\n"
    "  return merged\n"
    "\n\n"
    "def _PickSequence(seqs):\n"
    "  for seq in %(SCAN)s:\n"
    "    if not seq:\n"
    "      continue\n"
    "    head = seq[%(HEAD)s]\n"
    "    if getattr(head, \"SINGLETON\", False) or not _InOtherTail(head, seq, seqs):\n"
    "      return seq\n"
    "  return None\n"
    "\n\n"
    "def _InOtherTail(cand, own_seq, seqs):\n"
    "  return any(s for s in seqs if cand in s[%(TAIL)s:] and s is not own_seq)\n")


def _split_merge(**kw):
  d = {"ERR": "ValueError", "SCAN": "seqs", "TAIL": "1", "HEAD": "0", "DEL": "0"}
  d.update(kw)
  return [(MRO, _SPLIT_OLD, _SPLIT_NEW % d)]


_HELPER_ANCHOR = "class Class(metaclass=mixin.MixinMeta):  # pylint: disable=undefined-variable\n"
_DUP_OLD = ("    base_classes = [base for base in bases if isinstance(base, Class)]\n"
            "    if len({id(base) for base in base_classes}) != len(base_classes):\n"
            "      raise mro.MROError([base_classes])\n")


def _dup_helper(op):
  return [(MIXIN, _DUP_OLD, "    _check_no_repeated_base(bases)\n"),
          (MIXIN, _HELPER_ANCHOR,
           "def _check_no_repeated_base(direct_bases) -> None:\n"
           "  classes = [b for b in direct_bases if isinstance(b, Class)]\n"
           f"  if len({{id(b) for b in classes}}) {op} len(classes):\n"
           "    raise mro.MROError([classes])\n\n\n" + _HELPER_ANCHOR)]


def _rows_helper(body):
  return [(MIXIN, "    bases = [[self]] + [list(base.mro) for base in bases] + [list(bases)]\n",
           "    bases = _mro_rows(self, bases)\n"),
          (MIXIN, _HELPER_ANCHOR,
           "def _mro_rows(cls_, direct):\n"
           f"  return {body}\n\n\n" + _HELPER_ANCHOR)]


_TRY_OLD = ("    try:\n      class_type = props.class_type or abstract.InterpreterClass\n"
            "      assert issubclass(class_type, abstract.InterpreterClass)\n")
_VM_ANCHOR = "def make_class(node, props, ctx):\n"
_BUILD_HELPER = ("def _probe_class(class_type, name, bases, class_dict, cls, ctx, props):\n"
                 "  return class_type(name, bases, class_dict.pyval, cls,\n"
                 "                    ctx.vm.current_opcode, props.undecorated_methods, ctx)\n\n\n")


# -- sensitivity suite -----------------------------------------------------------

VARIANTS = [
    # robustness: the refactored shapes stay silent, the defects still fire there
    {"name": "twin-benign-C10-r1-merge-split-into-helpers", "rule": "R10.6",
     "patch": "benign/C10-r1/patch.diff", "expect": "silent"},
    {"name": "twin-benign-C10-r2-guard-clauses-and-comprehensions", "rule": "R10.1",
     "patch": "benign/C10-r2/patch.diff", "expect": "silent"},
    {"name": "twin-benign-C10-r3-compute_mro-helpers", "rule": "R10.5",
     "patch": "benign/C10-r3/patch.diff", "expect": "silent"},
    {"name": "twin-benign-C10-r4-lookup-and-make_class-split", "rule": "R10.3",
     "patch": "benign/C10-r4/patch.diff", "expect": "silent"},
    {"name": "twin-split-merge", "rule": "R10.6", "edits": _split_merge(), "expect": "silent"},
    {"name": "split-merge-tail-off-by-one", "rule": "R10.6",
     "edits": _split_merge(TAIL="2"), "expect": "fire"},
    {"name": "split-merge-tail-includes-head", "rule": "R10.6",
     "edits": _split_merge(TAIL="0"), "expect": "fire"},
    {"name": "split-merge-candidate-is-last", "rule": "R10.6",
     "edits": _split_merge(HEAD="-1"), "expect": "fire"},
    {"name": "split-merge-removes-last", "rule": "R10.6",
     "edits": _split_merge(DEL="-1"), "expect": "fire"},
    {"name": "split-merge-scan-backwards", "rule": "R10.9",
     "edits": _split_merge(SCAN="reversed(seqs)"), "expect": "fire"},
    {"name": "split-merge-scan-skips-class-row", "rule": "R10.9",
     "edits": _split_merge(SCAN="seqs[1:] + seqs[:1]"), "expect": "fire"},
    {"name": "split-merge-raises-TypeError", "rule": "R10.2",
     "edits": _split_merge(ERR="TypeError"), "expect": "fire"},
    {"name": "split-merge-unknown-picker", "rule": "R10.6", "expect": "error",
     "edits": _split_merge(SCAN="_rows_by_priority(seqs)")},
    {"name": "twin-ComputeMRO-starred-rows", "rule": "R10.1", "file": MRO, "expect": "silent",
     "old": "[[t]] + base_mros + [_Degenerify(_GetClass(t, lookup_ast).bases)]",
     "new": "[[t], *base_mros, _Degenerify(_GetClass(t, lookup_ast).bases)]"},
    {"name": "ComputeMRO-starred-rows-class-row-not-first", "rule": "R10.1", "file": MRO, "expect": "fire",
     "old": "[[t]] + base_mros + [_Degenerify(_GetClass(t, lookup_ast).bases)]",
     "new": "[*base_mros, [t], _Degenerify(_GetClass(t, lookup_ast).bases)]"},
    {"name": "GetBasesInMRO-comprehension-reversed", "rule": "R10.1", "file": MRO, "expect": "fire",
     "old": "  base_mros = []\n  for p in cls.bases:\n    base_mros.append(_ComputeMRO(p, mros, lookup_ast))\n  return tuple(MROMerge(base_mros + [_Degenerify(cls.bases)]))",
     "new": "  base_mros = [_ComputeMRO(p, mros, lookup_ast) for p in reversed(cls.bases)]\n  return tuple(MROMerge([*base_mros, _Degenerify(cls.bases)]))"},
    {"name": "twin-GetBasesInMRO-comprehension", "rule": "R10.1", "file": MRO, "expect": "silent",
     "old": "  base_mros = []\n  for p in cls.bases:\n    base_mros.append(_ComputeMRO(p, mros, lookup_ast))\n  return tuple(MROMerge(base_mros + [_Degenerify(cls.bases)]))",
     "new": "  base_mros = [_ComputeMRO(p, mros, lookup_ast) for p in cls.bases]\n  return tuple(MROMerge([*base_mros, _Degenerify(cls.bases)]))"},
    {"name": "per-base-helper-returns-other-linearisation", "rule": "R10.1", "expect": "error",
     "edits": [(MRO, "          base_mro = _ComputeMRO(base, mros, lookup_ast)\n",
                "          base_mro = _Lin(t, base, mros, lookup_ast)\n"),
               (MRO, "def GetBasesInMRO(cls, lookup_ast=None):\n",
                "def _Lin(t, base, mros, lookup_ast):\n  if base in mros:\n    return mros[t]\n  return _ComputeMRO(base, mros, lookup_ast)\n\n\ndef GetBasesInMRO(cls, lookup_ast=None):\n")]},
    {"name": "twin-per-base-helper", "rule": "R10.1", "expect": "silent",
     "edits": [(MRO, "          base_mro = _ComputeMRO(base, mros, lookup_ast)\n",
                "          base_mro = _Lin(t, base, mros, lookup_ast)\n"),
               (MRO, "def GetBasesInMRO(cls, lookup_ast=None):\n",
                "def _Lin(t, base, mros, lookup_ast):\n  if base in mros:\n    return mros[base]\n  return _ComputeMRO(base, mros, lookup_ast)\n\n\ndef GetBasesInMRO(cls, lookup_ast=None):\n")]},
    {"name": "twin-duplicate-test-in-helper", "rule": "R10.5", "edits": _dup_helper("!="), "expect": "silent"},
    {"name": "duplicate-test-in-helper-inverted", "rule": "R10.5", "edits": _dup_helper("=="), "expect": "fire"},
    {"name": "twin-rows-built-in-helper", "rule": "R10.1", "expect": "silent",
     "edits": _rows_helper("[[cls_]] + [list(b.mro) for b in direct] + [list(direct)]")},
    {"name": "rows-built-in-helper-bases-row-first", "rule": "R10.1", "expect": "fire",
     "edits": _rows_helper("[[cls_]] + [list(direct)] + [list(b.mro) for b in direct]")},
    {"name": "lookup-breaks-only-for-instances", "rule": "R10.3", "file": ATTR, "expect": "fire",
     "old": "      break  # we found a class which has this attribute\n",
     "new": "      if valself:\n        break  # we found a class which has this attribute\n"},
    {"name": "twin-lookup-positive-guard", "rule": "R10.3", "file": ATTR, "expect": "silent",
     "old": "      if var is None:\n        continue\n      for varval in var.bindings:",
     "new": "      if var is not None:\n        pass\n      else:\n        continue\n      for varval in var.bindings:"},
    {"name": "make_class-construction-helper-outside-try", "rule": "R10.2", "expect": "fire",
     "edits": [(VMU, _TRY_OLD,
                "    class_type = props.class_type or abstract.InterpreterClass\n"
                "    probe = _probe_class(class_type, name, bases, class_dict, cls, ctx, props)\n" + _TRY_OLD),
               (VMU, _VM_ANCHOR, _BUILD_HELPER + _VM_ANCHOR)]},
    {"name": "twin-make_class-construction-helper-inside-try", "rule": "R10.2", "expect": "silent",
     "edits": [(VMU, "      val = class_type(\n          name,\n          bases,\n          class_dict.pyval,\n          cls,\n          ctx.vm.current_opcode,\n          props.undecorated_methods,\n          ctx,\n      )\n",
                "      val = _probe_class(class_type, name, bases, class_dict, cls, ctx, props)\n"),
               (VMU, _VM_ANCHOR, _BUILD_HELPER + _VM_ANCHOR)]},
    {"name": 'twin-merge-while-any', "rule": 'R10.9', "expect": 'silent',
     "edits": [('pytype/pytd/mro.py', '  while True:\n    if not any(seqs):  # any empty subsequence left?\n      return res\n    for seq in seqs:', '  while any(seqs):\n    for seq in seqs:'), ('pytype/pytd/mro.py', '    res.append(cand)\n', '    res.append(cand)\n  return res\n')]},
    {"name": 'twin-merge-condition-local-and-continue', "rule": 'R10.6', "expect": 'silent',
     "edits": [('pytype/pytd/mro.py', '      cand = seq[0]\n      if getattr(cand, "SINGLETON", False):\n        # Special class. Cycles are allowed. Emit and remove duplicates.\n        seqs = [[s for s in seq if s != cand] for seq in seqs]  # pylint: disable=g-complex-comprehension\n        break\n      if any(s for s in seqs if cand in s[1:] and s is not seq):\n        cand = None  # reject candidate\n      else:\n        # Remove and emit. The candidate can be head of more than one list.\n        for other_seq in seqs:\n          if other_seq and other_seq[0] == cand:\n            del other_seq[0]\n        break\n    if cand is None:\n      raise ValueError\n    res.append(cand)\n', '      head = seq[0]\n      if getattr(head, "SINGLETON", False):\n        seqs = [[s for s in seq if s != head] for seq in seqs]\n        break\n      blocked = any(head in s[1:] for s in seqs if s is not seq)\n      if blocked:\n        head = None\n        continue\n      for other_seq in seqs:\n        if other_seq and other_seq[0] == head:\n          del other_seq[0]\n      break\n    if head is None:\n      raise ValueError\n    res.append(head)\n')]},
    {"name": 'merge-condition-local-tail-off-by-one', "rule": 'R10.6', "expect": 'fire',
     "edits": [('pytype/pytd/mro.py', '      cand = seq[0]\n      if getattr(cand, "SINGLETON", False):\n        # Special class. Cycles are allowed. Emit and remove duplicates.\n        seqs = [[s for s in seq if s != cand] for seq in seqs]  # pylint: disable=g-complex-comprehension\n        break\n      if any(s for s in seqs if cand in s[1:] and s is not seq):\n        cand = None  # reject candidate\n      else:\n        # Remove and emit. The candidate can be head of more than one list.\n        for other_seq in seqs:\n          if other_seq and other_seq[0] == cand:\n            del other_seq[0]\n        break\n    if cand is None:\n      raise ValueError\n    res.append(cand)\n', '      head = seq[0]\n      if getattr(head, "SINGLETON", False):\n        seqs = [[s for s in seq if s != head] for seq in seqs]\n        break\n      blocked = any(head in s[2:] for s in seqs if s is not seq)\n      if blocked:\n        head = None\n        continue\n      for other_seq in seqs:\n        if other_seq and other_seq[0] == head:\n          del other_seq[0]\n      break\n    if head is None:\n      raise ValueError\n    res.append(head)\n')]},
    {"name": 'twin-compute_mro-row-map-nested-comprehension', "rule": 'R10.1', "expect": 'silent',
     "edits": [('pytype/abstract/class_mixin.py', '    base2cls = {}\n    newbases = []\n    for row in bases:\n      baselist = []\n      for base in row:\n        if isinstance(base, _abstract.ParameterizedClass):\n          base2cls[base.base_cls] = base\n          baselist.append(base.base_cls)\n        else:\n          base2cls[base] = base\n          baselist.append(base)\n      newbases.append(baselist)\n', '    def erase(c):\n      return c.base_cls if isinstance(c, _abstract.ParameterizedClass) else c\n    base2cls = {erase(c): c for row in bases for c in row}\n    newbases = [[erase(c) for c in row] for row in bases]\n')]},
    {"name": 'twin-lookup-return-at-first-hit', "rule": 'R10.3', "expect": 'silent',
     "edits": [('pytype/attribute.py', '      break  # we found a class which has this attribute\n', '      return ret  # we found a class which has this attribute\n')]},
    {"name": 'twin-rewrite-mro-starred-rows', "rule": 'R10.1', "expect": 'silent',
     "edits": [('pytype/rewrite/abstract/classes.py', '    mro_bases = [[self]] + [list(base.mro()) for base in bases] + [bases]\n', '    base_mros = [list(base.mro()) for base in bases]\n    mro_bases = [[self], *base_mros, bases]\n')]},
    {"name": 'twin-make_class-mro-error-logged-in-helper', "rule": 'R10.2', "expect": 'silent',
     "edits": [('pytype/vm_utils.py', '    except mro.MROError as e:\n      ctx.errorlog.mro_error(ctx.vm.frames, name, e.mro_seqs)\n      var = ctx.new_unsolvable(node)\n', '    except mro.MROError as e:\n      _report_mro_error(ctx, name, e)\n      var = ctx.new_unsolvable(node)\n'), ('pytype/vm_utils.py', 'def make_class(node, props, ctx):\n', 'def _report_mro_error(ctx, name, e):\n  ctx.errorlog.mro_error(ctx.vm.frames, name, e.mro_seqs)\n\n\ndef make_class(node, props, ctx):\n')]},
    {"name": 'make_class-mro-error-helper-does-not-log', "rule": 'R10.2', "expect": 'fire',
     "edits": [('pytype/vm_utils.py', '    except mro.MROError as e:\n      ctx.errorlog.mro_error(ctx.vm.frames, name, e.mro_seqs)\n      var = ctx.new_unsolvable(node)\n', '    except mro.MROError as e:\n      _report_mro_error(ctx, name, e)\n      var = ctx.new_unsolvable(node)\n'), ('pytype/vm_utils.py', 'def make_class(node, props, ctx):\n', 'def _report_mro_error(ctx, name, e):\n  log.info("bad mro for %s: %r", name, e.mro_seqs)\n\n\ndef make_class(node, props, ctx):\n')]},
    {"name": "twin-lookup-mro-hoisted-into-local", "rule": "R10.3", "file": ATTR, "expect": "silent",
     "old": "    for base in cls.mro:\n      var = self._lookup_from_mro_flat(",
     "new": "    linearisation = cls.mro\n    for base in linearisation:\n      var = self._lookup_from_mro_flat("},
    {"name": "lookup-hoisted-local-is-reversed-mro", "rule": "R10.3", "file": ATTR, "expect": "fire",
     "old": "    for base in cls.mro:\n      var = self._lookup_from_mro_flat(",
     "new": "    linearisation = cls.mro[::-1]\n    for base in linearisation:\n      var = self._lookup_from_mro_flat("},
    {"name": "twin-MROMerge-raises-prebuilt-error", "rule": "R10.2", "file": MRO, "expect": "silent",
     "old": "  except ValueError as e:\n    raise MROError(input_seqs) from e",
     "new": "  except ValueError as exc:\n    error = MROError(input_seqs)\n    raise error from exc"},
    {"name": "MROMerge-raises-prebuilt-other-error", "rule": "R10.2", "file": MRO, "expect": "fire",
     "old": "  except ValueError as e:\n    raise MROError(input_seqs) from e",
     "new": "  except ValueError as exc:\n    error = TypeError(input_seqs)\n    raise error from exc"},
    # R10.1
    {"name": "compute_mro-bases-row-first", "rule": "R10.1", "file": MIXIN, "expect": "fire",
     "old": "bases = [[self]] + [list(base.mro) for base in bases] + [list(bases)]",
     "new": "bases = [[self]] + [list(bases)] + [list(base.mro) for base in bases]"},
    {"name": "GetBasesInMRO-bases-row-first", "rule": "R10.1", "file": MRO, "expect": "fire",
     "old": "MROMerge(base_mros + [_Degenerify(cls.bases)])",
     "new": "MROMerge([_Degenerify(cls.bases)] + base_mros)"},
    {"name": "rewrite-linearisations-reversed", "rule": "R10.1", "file": REWRITE, "expect": "fire",
     "old": "[list(base.mro()) for base in bases] + [bases]",
     "new": "[list(base.mro()) for base in reversed(bases)] + [bases]"},
    {"name": "ComputeMRO-class-row-not-first", "rule": "R10.1", "file": MRO, "expect": "fire",
     "old": "[[t]] + base_mros + [_Degenerify(_GetClass(t, lookup_ast).bases)]",
     "new": "base_mros + [[t]] + [_Degenerify(_GetClass(t, lookup_ast).bases)]"},
    {"name": "compute_mro-bases-row-dropped", "rule": "R10.1", "file": MIXIN, "expect": "fire",
     "old": "bases = [[self]] + [list(base.mro) for base in bases] + [list(bases)]",
     "new": "bases = [[self]] + [list(base.mro) for base in bases]"},
    {"name": "rewrite-bases-row-is-other-list", "rule": "R10.1", "file": REWRITE, "expect": "fire",
     "old": "[list(base.mro()) for base in bases] + [bases]",
     "new": "[list(base.mro()) for base in bases] + [list(self.bases)]"},
    {"name": "twin-rewrite-rename-loop-var", "rule": "R10.1", "file": REWRITE, "expect": "silent",
     "old": "[list(base.mro()) for base in bases] + [bases]",
     "new": "[list(parent.mro()) for parent in bases] + [list(bases)]"},
    {"name": "twin-compute_mro-rename-rows", "rule": "R10.1", "expect": "silent",
     "edits": [(MIXIN, "bases = [[self]] + [list(base.mro) for base in bases] + [list(bases)]",
                "rows = [[self]] + [list(base.mro) for base in bases] + [list(bases)]"),
               (MIXIN, "    for row in bases:\n      baselist = []",
                "    for row in rows:\n      baselist = []")]},
    {"name": "twin-GetBasesInMRO-comprehension-free-rename", "rule": "R10.1", "file": MRO, "expect": "silent",
     "old": "  for p in cls.bases:\n    base_mros.append(_ComputeMRO(p, mros, lookup_ast))",
     "new": "  for parent in cls.bases:\n    lin = _ComputeMRO(parent, mros, lookup_ast)\n    base_mros.append(lin)"},
    # R10.2
    {"name": "MergeSequences-raises-TypeError", "rule": "R10.2", "file": MRO, "expect": "fire",
     "old": "    if cand is None:\n      raise ValueError", "new": "    if cand is None:\n      raise TypeError"},
    {"name": "MROMerge-swallows-everything", "rule": "R10.2", "file": MRO, "expect": "fire",
     "old": "  except ValueError as e:\n    raise MROError(input_seqs) from e",
     "new": "  except Exception as e:\n    raise MROError(input_seqs) from e"},
    {"name": "MROMerge-returns-partial", "rule": "R10.2", "file": MRO, "expect": "fire",
     "old": "  except ValueError as e:\n    raise MROError(input_seqs) from e",
     "new": "  except ValueError:\n    return [s[0] for s in seqs if s]"},
    {"name": "make_class-mro-error-not-logged", "rule": "R10.2", "file": VMU, "expect": "fire",
     "old": "    except mro.MROError as e:\n      ctx.errorlog.mro_error(ctx.vm.frames, name, e.mro_seqs)\n",
     "new": "    except mro.MROError as e:\n      log.info(\"bad mro %r\", e.mro_seqs)\n"},
    {"name": "convert-handler-catches-other-error", "rule": "R10.2", "file": CONVERT, "expect": "fire",
     "old": "    except mro.MROError as e:\n      self.ctx.errorlog.mro_error(self.ctx.vm.frames, base_name, e.mro_seqs)",
     "new": "    except abstract_utils.GenericTypeError as e:\n      self.ctx.errorlog.mro_error(self.ctx.vm.frames, base_name, [])"},
    {"name": "mro_error-wrong-name", "rule": "R10.2", "file": ERRORS, "expect": "fire",
     "old": "@_error_name(\"mro-error\")", "new": "@_error_name(\"base-class-error\")"},
    {"name": "mro_error-conditional-emit", "rule": "R10.2", "file": ERRORS, "expect": "fire",
     "old": "    msg = f\"{name} has invalid inheritance{suffix}.\"\n    self.error(stack, msg, keyword=name, details=details)",
     "new": "    msg = f\"{name} has invalid inheritance{suffix}.\"\n    if seqs:\n      self.error(stack, msg, keyword=name, details=details)"},
    {"name": "MROError-drops-seqs", "rule": "R10.2", "file": MRO, "expect": "fire",
     "old": "    self.mro_seqs = seqs", "new": "    self.mro_seqs = []"},
    {"name": "twin-MROMerge-tuple-handler", "rule": "R10.2", "file": MRO, "expect": "silent",
     "old": "  except ValueError as e:\n    raise MROError(input_seqs) from e",
     "new": "  except (ValueError,) as err:\n    raise MROError(input_seqs) from err"},
    {"name": "twin-make_class-handler-rename", "rule": "R10.2", "file": VMU, "expect": "silent",
     "old": "    except mro.MROError as e:\n      ctx.errorlog.mro_error(ctx.vm.frames, name, e.mro_seqs)\n",
     "new": "    except mro.MROError as mro_err:\n      seqs = mro_err.mro_seqs\n      ctx.errorlog.mro_error(ctx.vm.frames, name, mro_err.mro_seqs)\n"},
    # R10.3
    {"name": "lookup-walks-mro-backwards", "rule": "R10.3", "file": ATTR, "expect": "fire",
     "old": "    for base in cls.mro:\n      var = self._lookup_from_mro_flat(",
     "new": "    for base in reversed(cls.mro):\n      var = self._lookup_from_mro_flat("},
    {"name": "lookup-skips-own-class", "rule": "R10.3", "file": ATTR, "expect": "fire",
     "old": "    for base in cls.mro:\n      var = self._lookup_from_mro_flat(",
     "new": "    for base in cls.mro[1:]:\n      var = self._lookup_from_mro_flat("},
    {"name": "lookup-merges-all-bases", "rule": "R10.3", "file": ATTR, "expect": "fire",
     "old": "      break  # we found a class which has this attribute\n",
     "new": "      pass  # we found a class which has this attribute\n"},
    {"name": "lookup-continue-on-hit", "rule": "R10.3", "file": ATTR, "expect": "fire",
     "old": "      if var is None:\n        continue\n      for varval in var.bindings:",
     "new": "      if var is None or not valself:\n        continue\n      for varval in var.bindings:"},
    {"name": "twin-lookup-rename-loop-var", "rule": "R10.3", "expect": "silent",
     "edits": [(ATTR, "    for base in cls.mro:\n      var = self._lookup_from_mro_flat(node, base, name, valself, skip)",
                "    for klass in cls.mro:\n      base = klass\n      var = self._lookup_from_mro_flat(node, klass, name, valself, skip)")]},
    # R10.5
    {"name": "D6-revert-no-duplicate-test", "rule": "R10.5", "file": MIXIN, "expect": "fire",
     "old": "    base_classes = [base for base in bases if isinstance(base, Class)]\n    if len({id(base) for base in base_classes}) != len(base_classes):\n      raise mro.MROError([base_classes])\n",
     "new": ""},
    {"name": "duplicate-test-inverted", "rule": "R10.5", "file": MIXIN, "expect": "fire",
     "old": "if len({id(base) for base in base_classes}) != len(base_classes):",
     "new": "if len({id(base) for base in base_classes}) == len(base_classes):"},
    {"name": "duplicate-test-after-merge-only-on-one-path", "rule": "R10.5", "file": MIXIN, "expect": "fire",
     "old": "    if len({id(base) for base in base_classes}) != len(base_classes):\n      raise mro.MROError([base_classes])\n",
     "new": "    if self.ctx.options.strict_none_binding:\n      if len({id(base) for base in base_classes}) != len(base_classes):\n        raise mro.MROError([base_classes])\n"},
    {"name": "twin-duplicate-test-set-call", "rule": "R10.5", "file": MIXIN, "expect": "silent",
     "old": "if len({id(base) for base in base_classes}) != len(base_classes):",
     "new": "if len(base_classes) > len(set(id(b) for b in base_classes)):"},
    {"name": "seeded-C10-r3m1", "rule": "R10.5", "patch": "seeded/C10-r3m1/patch.diff",
     "expect": "fire"},
    {"name": "duplicate-test-compares-simple-names", "rule": "R10.5", "file": MIXIN, "expect": "fire",
     "old": "if len({id(base) for base in base_classes}) != len(base_classes):",
     "new": "if len(set(b.name for b in base_classes)) < len(base_classes):"},
    {"name": "duplicate-test-compares-str-of-base", "rule": "R10.5", "file": MIXIN, "expect": "fire",
     "old": "if len({id(base) for base in base_classes}) != len(base_classes):",
     "new": "if len(base_classes) != len(set(map(str, base_classes))):"},
    {"name": "duplicate-test-counter-over-getattr-name", "rule": "R10.5", "file": MIXIN, "expect": "fire",
     "old": "if len({id(base) for base in base_classes}) != len(base_classes):",
     "new": "if len(collections.Counter(getattr(c, 'full_name') for c in base_classes)) != len(base_classes):"},
    {"name": "duplicate-test-in-helper-compares-type-of-base", "rule": "R10.5", "expect": "fire",
     "edits": [(MIXIN, _DUP_OLD, "    _check_no_repeated_base(bases)\n"),
               (MIXIN, _HELPER_ANCHOR,
                "def _check_no_repeated_base(direct_bases) -> None:\n"
                "  classes = [b for b in direct_bases if isinstance(b, Class)]\n"
                "  if len({b.cls.full_name for b in classes}) != len(classes):\n"
                "    raise mro.MROError([classes])\n\n\n" + _HELPER_ANCHOR)]},
    {"name": "duplicate-test-key-through-unknown-helper", "rule": "R10.5", "file": MIXIN, "expect": "error",
     "old": "if len({id(base) for base in base_classes}) != len(base_classes):",
     "new": "if len({_base_key(base) for base in base_classes}) != len(base_classes):"},
    {"name": "twin-duplicate-test-set-of-bases", "rule": "R10.5", "file": MIXIN, "expect": "silent",
     "old": "if len({id(base) for base in base_classes}) != len(base_classes):",
     "new": "if len(set(base_classes)) != len(base_classes):"},
    {"name": "twin-duplicate-test-map-id", "rule": "R10.5", "file": MIXIN, "expect": "silent",
     "old": "if len({id(base) for base in base_classes}) != len(base_classes):",
     "new": "if len(frozenset(map(id, base_classes))) < len(base_classes):"},
    {"name": "twin-duplicate-test-dict-keyed-by-id", "rule": "R10.5", "file": MIXIN, "expect": "silent",
     "old": "if len({id(base) for base in base_classes}) != len(base_classes):",
     "new": "if len({id(c): c for c in base_classes}) != len(base_classes):"},
    # R10.6
    {"name": "candidate-is-last-element", "rule": "R10.6", "file": MRO, "expect": "fire",
     "old": "      cand = seq[0]", "new": "      cand = seq[-1]"},
    {"name": "tail-test-includes-head", "rule": "R10.6", "file": MRO, "expect": "fire",
     "old": "if any(s for s in seqs if cand in s[1:] and s is not seq):",
     "new": "if any(s for s in seqs if cand in s[0:] and s is not seq):"},
    {"name": "tail-test-off-by-one", "rule": "R10.6", "file": MRO, "expect": "fire",
     "old": "if any(s for s in seqs if cand in s[1:] and s is not seq):",
     "new": "if any(s for s in seqs if cand in s[2:] and s is not seq):"},
    {"name": "remove-second-element", "rule": "R10.6", "file": MRO, "expect": "fire",
     "old": "            del other_seq[0]", "new": "            del other_seq[-1]"},
    {"name": "twin-merge-rename-candidate", "rule": "R10.6", "file": MRO, "expect": "silent",
     "old": "          if other_seq and other_seq[0] == cand:\n            del other_seq[0]",
     "new": "          if other_seq and cand == other_seq[0]:\n            del other_seq[0]"},
    # R10.8 (today's three instances are known findings; the variants repair
    # the construct and then break it in a way the known entry does not cover)
    {"name": "twin-rewrite-lookup-repaired", "rule": "R10.8", "file": REWRITE, "expect": "silent",
     "old": "    mro = self.mro()\n    if len(mro) > 1:\n      return mro[1].get_attribute(name)\n    return None",
     "new": "    for cls in self.mro()[1:]:\n      if name in cls.members:\n        return cls.members[name]\n    return None"},
    {"name": "twin-rewrite-mro-error-caught", "rule": "R10.8", "file": REWRITE, "expect": "silent",
     "old": "    self._mro = mro = mro_lib.MROMerge(mro_bases)\n    return mro",
     "new": "    try:\n      self._mro = mro = mro_lib.MROMerge(mro_bases)\n    except mro_lib.MROError as e:\n      self._ctx.errorlog.mro_error(None, self.name, e.mro_seqs)\n      self._mro = mro = [self, obj_type]\n    return mro"},
    {"name": "twin-rewrite-duplicate-test-added", "rule": "R10.8", "file": REWRITE, "expect": "silent",
     "old": "    bases = list(self.bases)\n    obj_type = self._ctx.types[object]",
     "new": "    bases = list(self.bases)\n    if len(set(bases)) != len(bases):\n      raise mro_lib.MROError([bases])\n    obj_type = self._ctx.types[object]"},
    {"name": "rewrite-lookup-repaired-but-backwards", "rule": "R10.8", "file": REWRITE, "expect": "fire",
     "old": "    mro = self.mro()\n    if len(mro) > 1:\n      return mro[1].get_attribute(name)\n    return None",
     "new": "    for cls in reversed(self.mro()):\n      if name in cls.members:\n        return cls.members[name]\n    return None"},
    {"name": "rewrite-mro-error-swallowed", "rule": "R10.8", "file": REWRITE, "expect": "fire",
     "old": "    self._mro = mro = mro_lib.MROMerge(mro_bases)\n    return mro",
     "new": "    try:\n      self._mro = mro = mro_lib.MROMerge(mro_bases)\n    except mro_lib.MROError:\n      self._mro = mro = [self, obj_type]\n    return mro"},
    {"name": "rewrite-duplicate-test-inverted", "rule": "R10.8", "file": REWRITE, "expect": "fire",
     "old": "    bases = list(self.bases)\n    obj_type = self._ctx.types[object]",
     "new": "    bases = list(self.bases)\n    if len(set(bases)) == len(bases):\n      raise mro_lib.MROError([bases])\n    obj_type = self._ctx.types[object]"},
    # R10.7
    {"name": "compute_mro-result-through-set", "rule": "R10.7", "file": MIXIN, "expect": "fire",
     "old": "return tuple(base2cls[base] for base in mro.MROMerge(newbases))",
     "new": "return tuple(base2cls[base] for base in set(mro.MROMerge(newbases)))"},
    {"name": "GetBasesInMRO-result-sorted", "rule": "R10.7", "file": MRO, "expect": "fire",
     "old": "return tuple(MROMerge(base_mros + [_Degenerify(cls.bases)]))",
     "new": "return tuple(sorted(MROMerge(base_mros + [_Degenerify(cls.bases)])))"},
    {"name": "rewrite-result-truncated", "rule": "R10.7", "file": REWRITE, "expect": "fire",
     "old": "self._mro = mro = mro_lib.MROMerge(mro_bases)",
     "new": "self._mro = mro = mro_lib.MROMerge(mro_bases)[1:]"},
    {"name": "twin-compute_mro-result-listcomp", "rule": "R10.7", "file": MIXIN, "expect": "silent",
     "old": "return tuple(base2cls[base] for base in mro.MROMerge(newbases))",
     "new": "return tuple([base2cls[b] for b in mro.MROMerge(newbases)])"},
    # R10.9
    {"name": "seeded-C10-m1", "rule": "R10.9", "patch": "seeded/C10-m1/patch.diff", "expect": "fire"},
    {"name": "scan-rows-backwards", "rule": "R10.9", "file": MRO, "expect": "fire",
     "old": "    for seq in seqs:  # find merge candidates among seq heads",
     "new": "    for seq in reversed(seqs):  # find merge candidates among seq heads"},
    {"name": "scan-skips-class-row", "rule": "R10.9", "file": MRO, "expect": "fire",
     "old": "    for seq in seqs:  # find merge candidates among seq heads",
     "new": "    for seq in seqs[1:] + seqs[:1]:  # find merge candidates among seq heads"},
    {"name": "scan-rotates-by-result-length", "rule": "R10.9", "file": MRO, "expect": "fire",
     "old": "    for seq in seqs:  # find merge candidates among seq heads",
     "new": "    k = len(res) % len(seqs)\n    for seq in seqs[k:] + seqs[:k]:  # find merge candidates among seq heads"},
    {"name": "emit-and-keep-scanning", "rule": "R10.9", "file": MRO, "expect": "fire",
     "old": "            del other_seq[0]\n        break\n",
     "new": "            del other_seq[0]\n        res.append(cand)\n"},
    {"name": "scan-over-unknown-helper", "rule": "R10.9", "file": MRO, "expect": "error",
     "old": "    for seq in seqs:  # find merge candidates among seq heads",
     "new": "    for seq in _Candidates(seqs):  # find merge candidates among seq heads"},
    {"name": "twin-scan-enumerate", "rule": "R10.9", "file": MRO, "expect": "silent",
     "old": "    for seq in seqs:  # find merge candidates among seq heads",
     "new": "    for _, seq in enumerate(seqs):  # find merge candidates among seq heads"},
    {"name": "twin-scan-by-index", "rule": "R10.9", "file": MRO, "expect": "silent",
     "old": "    for seq in seqs:  # find merge candidates among seq heads\n",
     "new": "    for i in range(len(seqs)):  # find merge candidates among seq heads\n      seq = seqs[i]\n"},
    {"name": "twin-scan-row-renamed", "rule": "R10.9", "expect": "silent",
     "edits": [(MRO, "    for seq in seqs:  # find merge candidates among seq heads\n      if not seq:\n        continue\n      cand = seq[0]",
                "    for row in seqs:  # find merge candidates among seq heads\n      if not row:\n        continue\n      cand = row[0]"),
               (MRO, "if any(s for s in seqs if cand in s[1:] and s is not seq):",
                "if any(s for s in seqs if cand in s[1:] and s is not row):")]},
    # R10.10
    {"name": "seeded-C10-m2", "rule": "R10.10", "patch": "seeded/C10-m2/patch.diff", "expect": "fire"},
    {"name": "build_class-bases-through-dict-fromkeys", "rule": "R10.10", "file": DEFS, "expect": "fire",
     "old": "    bases = [p for p in bases if not isinstance(p, pytd.NothingType)]",
     "new": "    bases = list(dict.fromkeys(p for p in bases if not isinstance(p, pytd.NothingType)))"},
    {"name": "get_bases-skips-seen-base", "rule": "R10.10", "file": "pytype/pyi/classdef.py", "expect": "fire",
     "old": "    elif isinstance(p, pytd.Type):\n      bases_out.append(p)",
     "new": "    elif isinstance(p, pytd.Type):\n      if p not in bases_out:\n        bases_out.append(p)"},
    {"name": "get_mro_bases-seen-set", "rule": "R10.10", "file": "pytype/abstract/abstract_utils.py", "expect": "fire",
     "old": "  mro_bases = []\n  has_user_generic = False\n  for base_var in bases:\n    if not base_var.data:\n      continue",
     "new": "  mro_bases = []\n  seen = set()\n  has_user_generic = False\n  for base_var in bases:\n    if not base_var.data or id(base_var.data[0]) in seen:\n      continue\n    seen.add(id(base_var.data[0]))"},
    {"name": "PyTDClass-bases-over-ordered-set", "rule": "R10.10", "file": CLASSES, "expect": "fire",
     "old": "    for base in self.pytd_cls.bases:\n      converted_base_options = []",
     "new": "    for base in pytd_utils.OrderedSet(self.pytd_cls.bases):\n      converted_base_options = []"},
    {"name": "make_class-bases-filter-by-count", "rule": "R10.10", "file": VMU, "expect": "fire",
     "old": "  bases = _expand_generic_protocols(node, bases, ctx)\n",
     "new": "  bases = _expand_generic_protocols(node, bases, ctx)\n  bases = [b for i, b in enumerate(bases) if bases.index(b) == i]\n"},
    {"name": "build_class-bases-through-unknown-helper", "rule": "R10.10", "file": DEFS, "expect": "error",
     "old": "    bases = [p for p in bases if not isinstance(p, pytd.NothingType)]",
     "new": "    bases = self._normalize_bases(bases)"},
    {"name": "twin-build_class-filter-as-loop", "rule": "R10.10", "file": DEFS, "expect": "silent",
     "old": "    bases = [p for p in bases if not isinstance(p, pytd.NothingType)]",
     "new": "    kept = []\n    for p in bases:\n      if isinstance(p, pytd.NothingType):\n        continue\n      kept.append(p)\n    bases = kept"},
    {"name": "twin-build_class-filter-with-local-skip-tuple", "rule": "R10.10", "file": DEFS, "expect": "silent",
     "old": "    bases = [p for p in bases if not isinstance(p, pytd.NothingType)]",
     "new": "    dropped = (pytd.NothingType,)\n    unwanted_names = {\"nothing\"}\n    bases = [p for p in bases if not isinstance(p, dropped) and p.name not in unwanted_names]"},
    {"name": "build_class-seen-set-in-comprehension", "rule": "R10.10", "file": DEFS, "expect": "fire",
     "old": "    bases = [p for p in bases if not isinstance(p, pytd.NothingType)]",
     "new": "    seen = set()\n    bases = [p for p in bases if not isinstance(p, pytd.NothingType) and not (p in seen or seen.add(p))]"},
    {"name": "twin-build_class-filter-generator-tuple", "rule": "R10.10", "file": DEFS, "expect": "silent",
     "old": "    bases = [p for p in bases if not isinstance(p, pytd.NothingType)]",
     "new": "    bases = tuple(base for base in bases if not isinstance(base, pytd.NothingType))"},
    {"name": "twin-make_class-copy-of-bases", "rule": "R10.10", "file": VMU, "expect": "silent",
     "old": "  bases = _expand_generic_protocols(node, bases, ctx)\n",
     "new": "  expanded = _expand_generic_protocols(node, bases, ctx)\n  bases = list(expanded)\n"},
    {"name": "twin-get_mro_bases-skip-flag", "rule": "R10.10", "file": "pytype/abstract/abstract_utils.py", "expect": "silent",
     "old": "    if not base_var.data:\n      continue\n    # A base class is a Variable.",
     "new": "    empty = not base_var.data\n    if empty:\n      continue\n    # A base class is a Variable."},
]
