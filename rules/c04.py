"""C04 - output is a pure function of source and options.

Decides the canonicalisation obligations and the known order hazards on the
output path (stub text, error report, pickle bytes).  Does NOT decide
determinism of the VM as a whole.
"""
import ast

from sa.core import rule, AnalysisError
from sa.pyindex import (get_module, dotted, src, kwarg, calls_in, try_fold,
                        walk_no_nested, all_py_files)
from sa import flow


# ---------------------------------------------------------------------------
# R4.6 machinery: intra-procedural "definitely a set" inference
# ---------------------------------------------------------------------------

_SET_ANN = {"set", "frozenset", "Set", "FrozenSet", "AbstractSet", "MutableSet"}
_SET_CTORS = {"set", "frozenset"}
_SET_RET_METHODS = {"union", "intersection", "difference",
                    "symmetric_difference", "copy"}
_SET_OPS = (ast.BitOr, ast.BitAnd, ast.Sub, ast.BitXor)
_FUNC = (ast.FunctionDef, ast.AsyncFunctionDef)


def _ann_is_set(ann):
  """True if an annotation expression denotes a (possibly optional) set."""
  if ann is None:
    return False
  if isinstance(ann, ast.Constant) and isinstance(ann.value, str):
    try:
      ann = ast.parse(ann.value, mode="eval").body
    except SyntaxError:
      return False
  if isinstance(ann, ast.BinOp) and isinstance(ann.op, ast.BitOr):
    sides = [ann.left, ann.right]
    rest = [s for s in sides
            if not (isinstance(s, ast.Constant) and s.value is None)]
    return len(rest) == 1 and _ann_is_set(rest[0])
  if isinstance(ann, ast.Subscript):
    base = (dotted(ann.value) or "").split(".")[-1]
    if base == "Optional":
      return _ann_is_set(ann.slice)
    return base in _SET_ANN
  return (dotted(ann) or "").split(".")[-1] in _SET_ANN


class _SetInference:
  """Decides `expr is definitely a set` inside one module (never guesses yes).

  A local is a set when every binding of it in its function is a definite-set
  expression (or it is a parameter / annotated local of set type that is never
  rebound to something else).  `self.x` is a set when the enclosing class
  (plus same-module bases) annotates it as a set or every `self.x = ...` in
  the class assigns a definite set.
  """

  def __init__(self, mod):
    self.mod = mod
    self._scope_cache = {}
    self._attr_cache = {}
    self._active = set()

  # -- scopes -------------------------------------------------------------
  def _bindings(self, scope):
    """name -> list of binding records for a function (or the module)."""
    if scope in self._scope_cache:
      return self._scope_cache[scope]
    out = {}

    def add(name, rec):
      out.setdefault(name, []).append(rec)

    def bind_target(t, rec):
      if isinstance(t, ast.Name):
        add(t.id, rec)
      elif isinstance(t, (ast.Tuple, ast.List)):
        for e in t.elts:
          bind_target(e, ("other",))
      elif isinstance(t, ast.Starred):
        bind_target(t.value, ("other",))

    if isinstance(scope, _FUNC + (ast.Lambda,)):
      a = scope.args
      for p in a.posonlyargs + a.args + a.kwonlyargs:
        add(p.arg, ("param", p.annotation))
      for p in (a.vararg, a.kwarg):
        if p is not None:
          add(p.arg, ("other",))
      nodes = walk_no_nested(scope) if not isinstance(scope, ast.Lambda) else []
    else:
      nodes = walk_no_nested(scope)
    for n in nodes:
      if isinstance(n, ast.Assign):
        for t in n.targets:
          if isinstance(t, (ast.Tuple, ast.List)) and isinstance(
              n.value, (ast.Tuple, ast.List)) and len(t.elts) == len(
                  n.value.elts) and not any(
                      isinstance(e, ast.Starred) for e in t.elts + n.value.elts):
            for a_, b_ in zip(t.elts, n.value.elts):
              bind_target(a_, ("value", b_))
          else:
            bind_target(t, ("value", n.value))
      elif isinstance(n, ast.AnnAssign):
        if isinstance(n.target, ast.Name):
          add(n.target.id, ("ann", n.annotation, n.value))
      elif isinstance(n, ast.AugAssign):
        if isinstance(n.target, ast.Name):
          add(n.target.id, ("aug", n.op, n.value))
      elif isinstance(n, ast.NamedExpr):
        bind_target(n.target, ("value", n.value))
      elif isinstance(n, (ast.For, ast.AsyncFor)):
        bind_target(n.target, ("other",))
      elif isinstance(n, ast.comprehension):
        bind_target(n.target, ("other",))
      elif isinstance(n, (ast.With, ast.AsyncWith)):
        for it in n.items:
          if it.optional_vars is not None:
            bind_target(it.optional_vars, ("other",))
      elif isinstance(n, ast.ExceptHandler):
        if n.name:
          add(n.name, ("other",))
      elif isinstance(n, (ast.Import, ast.ImportFrom)):
        for al in n.names:
          add((al.asname or al.name).split(".")[0], ("other",))
      elif isinstance(n, _FUNC + (ast.ClassDef,)):
        add(n.name, ("other",))
      elif isinstance(n, (ast.Global, ast.Nonlocal)):
        for nm in n.names:
          add(nm, ("other",))
      elif isinstance(n, (ast.MatchAs, ast.MatchStar)):
        if n.name:
          add(n.name, ("other",))
      elif isinstance(n, ast.MatchMapping):
        if n.rest:
          add(n.rest, ("other",))
      elif isinstance(n, ast.Delete):
        for t in n.targets:
          bind_target(t, ("other",))
    self._scope_cache[scope] = out
    return out

  def _scope_chain(self, node):
    chain = []
    cur = node
    while True:
      cur = self.mod.enclosing_function(cur)
      if cur is None:
        break
      chain.append(cur)
    chain.append(self.mod.tree)
    return chain

  def _enclosing_class(self, fn):
    node = fn
    while node in self.mod.parent:
      node = self.mod.parent[node]
      if isinstance(node, ast.ClassDef):
        return node
    return None

  # -- the predicate --------------------------------------------------------
  def is_set(self, expr, at=None):
    """`expr` (evaluated where it stands) is definitely a set/frozenset."""
    at = at if at is not None else expr
    if isinstance(expr, (ast.Set, ast.SetComp)):
      return True
    if isinstance(expr, ast.Call):
      d = dotted(expr.func)
      if d in _SET_CTORS:
        return True
      if d in ("set.union", "set.intersection", "set.difference",
               "frozenset.union", "frozenset.intersection"):
        return True
      if isinstance(expr.func, ast.Attribute) and \
          expr.func.attr in _SET_RET_METHODS and \
          self.is_set(expr.func.value, at):
        return True
      return self._call_returns_set(expr, at)
    if isinstance(expr, ast.BinOp) and isinstance(expr.op, _SET_OPS):
      return self.is_set(expr.left, at) or self.is_set(expr.right, at)
    if isinstance(expr, ast.IfExp):
      return self.is_set(expr.body, at) and self.is_set(expr.orelse, at)
    if isinstance(expr, ast.BoolOp) and isinstance(expr.op, ast.Or):
      return all(self.is_set(v, at) for v in expr.values)
    if isinstance(expr, ast.NamedExpr):
      return self.is_set(expr.value, at)
    if isinstance(expr, ast.Name):
      return self._name_is_set(expr.id, at)
    if isinstance(expr, ast.Attribute) and isinstance(expr.value, ast.Name):
      return self._attr_is_set(expr, at)
    return False

  def _call_returns_set(self, call, at):
    f = call.func
    if isinstance(f, ast.Name) and f.id in self.mod.functions:
      # only if the name is not rebound locally
      for scope in self._scope_chain(at)[:-1]:
        if f.id in self._bindings(scope):
          return False
      return _ann_is_set(self.mod.functions[f.id].returns)
    if isinstance(f, ast.Attribute) and isinstance(f.value, ast.Name):
      fn = self.mod.enclosing_function(at)
      while isinstance(fn, ast.Lambda) or (
          fn is not None and not isinstance(self.mod.parent.get(fn), ast.ClassDef)):
        fn = self.mod.enclosing_function(fn)
      if fn is None or not fn.args.args or fn.args.args[0].arg != f.value.id:
        return False
      cls = self._enclosing_class(fn)
      for c in self._class_and_bases(cls):
        for st in c.body:
          if isinstance(st, _FUNC) and st.name == f.attr:
            return _ann_is_set(st.returns) and not any(
                (dotted(d) or "").endswith("property") for d in st.decorator_list)
    return False

  def _name_is_set(self, name, at):
    for scope in self._scope_chain(at):
      b = self._bindings(scope).get(name)
      if not b:
        continue
      key = (scope, name)
      if key in self._active:
        return True  # cycle (s = s | t): decided by the other bindings
      self._active.add(key)
      try:
        return self._all_bindings_set(b, scope)
      finally:
        self._active.discard(key)
    return False

  def _all_bindings_set(self, recs, scope):
    anchor = scope.body[0] if getattr(scope, "body", None) and isinstance(
        scope.body, list) else scope
    definite = False
    for rec in recs:
      kind = rec[0]
      if kind == "param":
        if not _ann_is_set(rec[1]):
          return False
        definite = True
      elif kind == "ann":
        if _ann_is_set(rec[1]):
          definite = True
        elif rec[2] is not None and self.is_set(rec[2], rec[2]):
          definite = True
        else:
          return False
      elif kind == "value":
        if not self.is_set(rec[1], rec[1]):
          return False
        definite = True
      elif kind == "aug":
        if not isinstance(rec[1], _SET_OPS):
          return False
      else:
        return False
    del anchor
    return definite

  def _class_and_bases(self, cls):
    out, todo = [], [cls]
    while todo:
      c = todo.pop()
      if c is None or c in out:
        continue
      out.append(c)
      for b in c.bases:
        d = dotted(b)
        if d and d in self.mod.classes:
          todo.append(self.mod.classes[d])
    return out

  def _attr_is_set(self, expr, at):
    fn = self.mod.enclosing_function(at)
    # the method whose first parameter is the receiver name
    meth = fn
    while meth is not None and not (
        isinstance(meth, _FUNC)
        and isinstance(self.mod.parent.get(meth), ast.ClassDef)):
      meth = self.mod.enclosing_function(meth)
    if meth is None or not meth.args.args or \
        meth.args.args[0].arg != expr.value.id:
      return False
    # the receiver name must not be rebound in between
    cls = self._enclosing_class(meth)
    key = (cls, expr.attr)
    if key in self._attr_cache:
      return self._attr_cache[key]
    if key in self._active:
      return True
    self._active.add(key)
    try:
      res = self._class_attr_is_set(cls, expr.attr)
    finally:
      self._active.discard(key)
    self._attr_cache[key] = res
    return res

  def _class_attr_is_set(self, cls, attr):
    definite = False
    for c in self._class_and_bases(cls):
      for st in c.body:
        if isinstance(st, ast.AnnAssign) and isinstance(st.target, ast.Name) \
            and st.target.id == attr:
          if _ann_is_set(st.annotation):
            definite = True
          elif st.value is not None and self.is_set(st.value, st.value):
            definite = True
          else:
            return False
        elif isinstance(st, ast.Assign) and any(
            isinstance(t, ast.Name) and t.id == attr for t in st.targets):
          if not self.is_set(st.value, st.value):
            return False
          definite = True
        elif isinstance(st, _FUNC) and st.name == attr:
          return False  # a method / property, not a data attribute
      for fn in ast.walk(c):
        if not isinstance(fn, _FUNC) or not fn.args.args:
          continue
        if not isinstance(self.mod.parent.get(fn), ast.ClassDef):
          continue
        recv = fn.args.args[0].arg
        for n in ast.walk(fn):
          tgt = val = None
          if isinstance(n, ast.Assign):
            for t in n.targets:
              if self._is_attr(t, recv, attr):
                tgt, val = t, n.value
              elif isinstance(t, (ast.Tuple, ast.List)) and any(
                  self._is_attr(e, recv, attr) for e in t.elts):
                return False
          elif isinstance(n, ast.AnnAssign) and self._is_attr(n.target, recv, attr):
            if _ann_is_set(n.annotation):
              definite = True
              continue
            tgt, val = n.target, n.value
            if val is None:
              return False
          elif isinstance(n, ast.AugAssign) and self._is_attr(n.target, recv, attr):
            if not isinstance(n.op, _SET_OPS):
              return False
            continue
          elif isinstance(n, (ast.For, ast.AsyncFor, ast.comprehension)) and \
              self._is_attr(n.target, recv, attr):
            return False
          if tgt is not None:
            if not self.is_set(val, val):
              return False
            definite = True
    return definite

  @staticmethod
  def _is_attr(t, recv, attr):
    return isinstance(t, ast.Attribute) and t.attr == attr and \
        isinstance(t.value, ast.Name) and t.value.id == recv


# -- consumers ----------------------------------------------------------------

# call names that walk their argument in iteration order
_ORDERED_FUNCS = {
    "tuple": "all", "list": "all", "enumerate": "first", "iter": "first",
    "zip": "all", "map": "rest", "filter": "rest", "reversed": "first",
    "str": "first", "repr": "first", "dict": "first",
    "itertools.chain": "all", "chain": "all", "collections.deque": "first",
    "deque": "first", "collections.OrderedDict": "first", "OrderedDict": "first",
    "utils.unique_list": "first", "unique_list": "first",
    "pytd_utils.OrderedSet": "first", "OrderedSet": "first",
    "itertools.product": "all", "itertools.permutations": "first",
    "itertools.combinations": "first", "itertools.islice": "first",
    "itertools.chain.from_iterable": "first", "chain.from_iterable": "first",
}
_ORDERED_METHODS = {"join", "extend", "fromkeys", "from_iterable", "format",
                    "extendleft"}
# consumers whose result does not depend on the order of the walk
_INSENSITIVE_FUNCS = {"any", "all", "len", "min", "max", "sorted", "set",
                      "frozenset", "bool"}
_TRANSPARENT_FUNCS = {"tuple", "list", "iter", "map", "filter", "chain",
                      "itertools.chain", "reversed"}
_SET_SINK_METHODS = {"update", "union", "intersection", "difference",
                     "issubset", "issuperset", "isdisjoint",
                     "intersection_update", "difference_update",
                     "symmetric_difference", "symmetric_difference_update"}
_SET_MUTATORS = {"add", "update", "discard", "difference_update",
                 "intersection_update"}


def _consumers(node):
  """Yields (kind, iterated_expr) for order-observing uses rooted at node."""
  if isinstance(node, (ast.For, ast.AsyncFor)):
    yield "for", node.iter
  elif isinstance(node, (ast.ListComp, ast.GeneratorExp, ast.SetComp,
                         ast.DictComp)):
    kind = {ast.ListComp: "listcomp", ast.GeneratorExp: "genexp",
            ast.SetComp: "setcomp", ast.DictComp: "dictcomp"}[type(node)]
    for g in node.generators:
      yield kind, g.iter
  elif isinstance(node, ast.Call):
    d = dotted(node.func)
    for a in node.args:
      if isinstance(a, ast.Starred):
        yield "star-arg", a.value
    plain = [a for a in node.args if not isinstance(a, ast.Starred)]
    if d in _ORDERED_FUNCS:
      which = _ORDERED_FUNCS[d]
      sel = plain if which == "all" else plain[:1] if which == "first" \
          else plain[1:]
      for a in sel:
        yield f"{d}()", a
    elif d == "sum" and (len(node.args) > 1 or node.keywords):
      if plain:
        yield "sum(.., start)", plain[0]
    elif isinstance(node.func, ast.Attribute):
      if node.func.attr in _ORDERED_METHODS:
        for a in plain:
          yield f".{node.func.attr}()", a
      elif node.func.attr == "pop" and not node.args and not node.keywords:
        yield ".pop()", node.func.value
  elif isinstance(node, (ast.List, ast.Tuple)) and isinstance(
      getattr(node, "ctx", None), ast.Load):
    for e in node.elts:
      if isinstance(e, ast.Starred):
        yield "star-display", e.value
  elif isinstance(node, ast.Assign):
    for t in node.targets:
      if isinstance(t, (ast.Tuple, ast.List)) and (
          len(t.elts) > 1 or any(isinstance(e, ast.Starred) for e in t.elts)):
        yield "unpack", node.value
  elif isinstance(node, ast.FormattedValue):
    yield "f-string", node.value
  elif isinstance(node, ast.BinOp) and isinstance(node.op, ast.Mod) and \
      isinstance(node.left, ast.Constant) and isinstance(node.left.value, str):
    if isinstance(node.right, ast.Tuple):
      for e in node.right.elts:
        yield "%-format", e
    else:
      yield "%-format", node.right
  elif isinstance(node, ast.YieldFrom):
    yield "yield from", node.value
  elif isinstance(node, ast.AugAssign) and isinstance(node.op, ast.Add):
    yield "+=", node.value


def _commutative_body(body, inf):
  """The loop body only accumulates commutatively (order cannot be observed)."""
  for st in body:
    if isinstance(st, (ast.Pass, ast.Continue, ast.Break)):
      continue
    if isinstance(st, ast.Return):
      if st.value is None or isinstance(st.value, ast.Constant):
        continue
      return False
    if isinstance(st, ast.If):
      if _commutative_body(st.body, inf) and _commutative_body(st.orelse, inf):
        continue
      return False
    if isinstance(st, ast.Expr) and isinstance(st.value, ast.Call) and \
        isinstance(st.value.func, ast.Attribute) and \
        st.value.func.attr in _SET_MUTATORS and \
        inf.is_set(st.value.func.value, st):
      continue
    if isinstance(st, ast.Expr) and isinstance(st.value, ast.Constant):
      continue  # docstring-like
    if isinstance(st, ast.AugAssign):
      if isinstance(st.op, _SET_OPS) and inf.is_set(st.target, st):
        continue
      if isinstance(st.op, (ast.Add, ast.Sub)) and isinstance(
          st.value, ast.Constant) and isinstance(st.value.value, (int, float)):
        continue
      return False
    if isinstance(st, ast.Assign) and isinstance(st.value, ast.Constant) and \
        all(isinstance(t, ast.Name) for t in st.targets):
      continue
    return False
  return True


def _auto_insensitive(mod, inf, node, kind, expr):
  """Reason string when the consumer provably cannot observe the order."""
  if kind == "setcomp":
    return "builds a set"
  if kind == "for":
    if _commutative_body(node.body, inf) and _commutative_body(node.orelse, inf):
      return "commutative accumulation / existence test"
  # singleton guard: len(E) == 1 on the path
  st = mod.enclosing_stmt(node)
  fn = mod.enclosing_function(node)
  if st is not None and fn is not None and not isinstance(fn, ast.Lambda):
    want = {f"len({src(expr)}) == 1", f"1 == len({src(expr)})"}
    for test, pol in flow.guards(mod.parent, st, stop=fn):
      if pol and src(test) in want:
        return "singleton (guarded by len == 1)"
  if isinstance(node, ast.stmt):
    return None
  # climb through order-preserving wrappers to the real consumer
  cur = node
  while True:
    par = mod.parent.get(cur)
    if isinstance(par, ast.Call) and cur in par.args:
      d = dotted(par.func)
      if d in _INSENSITIVE_FUNCS and not (d in ("min", "max") and len(par.args) > 1):
        return f"consumed by {d}()"
      if d == "sum" and len(par.args) == 1 and not par.keywords:
        return "consumed by sum() (commutative)"
      if isinstance(par.func, ast.Attribute) and \
          par.func.attr in _SET_SINK_METHODS and inf.is_set(par.func.value, par):
        return f"consumed by set.{par.func.attr}()"
      if d in _TRANSPARENT_FUNCS:
        cur = par
        continue
      return None
    if isinstance(par, ast.AugAssign) and par.value is cur and \
        isinstance(par.op, _SET_OPS) and inf.is_set(par.target, par):
      return "merged into a set"
    if isinstance(par, ast.Compare) and cur in par.comparators and all(
        isinstance(o, (ast.In, ast.NotIn)) for o in par.ops):
      return "membership test"
    if isinstance(par, ast.Starred):
      cur = par
      continue
    return None


def _qualname(mod, node):
  parts = []
  cur = node
  while cur in mod.parent:
    cur = mod.parent[cur]
    if isinstance(cur, _FUNC + (ast.ClassDef,)):
      parts.append(cur.name)
    elif isinstance(cur, ast.Lambda):
      parts.append("<lambda>")
  return ".".join(reversed(parts)) or "<module>"


def _scan_module(ctx, rel):
  mod = get_module(ctx, rel)
  inf = _SetInference(mod)
  sites = []
  for node in ast.walk(mod.tree):
    for kind, expr in _consumers(node):
      if not inf.is_set(expr, node):
        continue
      auto = _auto_insensitive(mod, inf, node, kind, expr)
      sites.append({
          "qual": _qualname(mod, node), "expr": src(expr), "kind": kind,
          "line": getattr(node, "lineno", 0), "auto": auto})
  sites.sort(key=lambda s: (s["line"], s["kind"], s["expr"]))
  return sites


_OUTPUT_PATH_DIRS = ("pytype/pytd/", "pytype/errors/", "pytype/imports/")
_OUTPUT_PATH_FILES = ("pytype/output.py", "pytype/io.py", "pytype/load_pytd.py",
                      "pytype/tracer_vm.py", "pytype/convert.py")


def _is_test(rel):
  base = rel.rsplit("/", 1)[-1]
  return base.endswith("_test.py") or base.startswith("test_") or \
      "/tests/" in rel or base.endswith("test_base.py") or \
      base in ("test_utils.py",)


def _scope_files(ctx, whole):
  files = [f for f in all_py_files(ctx) if not _is_test(f)]
  if whole:
    return files
  return [f for f in files
          if f.startswith(_OUTPUT_PATH_DIRS) or f in _OUTPUT_PATH_FILES]
